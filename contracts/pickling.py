"""Contracts of StateMachine.__getstate__ / __setstate__ (C17).

The machine's instance attributes are modelled as its __dict__ (a str-keyed dict), exactly what
copy/pickle serialise.  `_register_callbacks`, `add_listener` and `_get_engine` are used through
abstract contracts of what they do to the registry's `has_async_callbacks` flag and to the
engine: those are the facts the round-trip property depends on."""
from __future__ import annotations

import z3

from pyvc.core import (
    A_II, B, CLASSES, EXC_CODE, Exc, I, NONE, NoneV, O, Py, S, T, Int, Bool, Str, ref_of, truthy, FIRST_ADDR,
    ClassModel, MethodSpec, Unsupported, HEAP_SORTS, boxb, fresh,
)
from pyvc.execu import CONTRACTS, GLOBAL_NAMES, CallArgs, Contract, LoopSpec, Raise, register
from pyvc.models import model

from .model import C, INL, SMQ, valid_obj

DROPPED = ["_callbacks", "_states_for_instance", "_engine"]  # from the property: registry, state cache, engine are rebuilt

ASYNC_MM = z3.Bool("ASYNC_MACHINE_OR_MODEL")  # the machine or its model define coroutine callbacks
ASYNC_L = z3.Function("ASYNC_LISTENERS", Int, Bool)  # some listener in this collection defines coroutine callbacks

HEAP_SORTS["PSM.__dict__"] = A_II
HEAP_SORTS["PEngine.is_async"] = z3.ArraySort(Int, Bool)
HEAP_SORTS["PEngine.rtc"] = z3.ArraySort(Int, Bool)
HEAP_SORTS["PEngine.pending_initial"] = z3.ArraySort(Int, Bool)
HEAP_SORTS["PRegistry.has_async"] = z3.ArraySort(Int, Bool)
HEAP_SORTS["PRegistry.listeners"] = A_II

psm = ClassModel("PSM", heapname="PSM", fields={"__dict__": "dict[str,Val]"},
                 methods={"_register_callbacks": C("pickle:_register_callbacks"), "add_listener": C("pickle:add_listener"),
                          "_get_engine": C("pickle:_get_engine")})
psm.dyn_attrs = {"_engine": "PEngine", "_callbacks": "PRegistry", "_states_for_instance": "Val", "_listeners": "Val",
                 "model": "Val", "state_field": "Val", "start_value": "Val", "allow_event_without_transition": "Val"}
ClassModel("PEngine", fields={"_rtc": "bool"}, methods={"start": C("pickle:engine.start")})
HEAP_SORTS["PEngine._rtc"] = z3.ArraySort(Int, Bool)
ClassModel("PRegistry", fields={}, methods={"async_or_sync": C("pickle:async_or_sync")})


def preg_ctor(ex, path, ca, node):
    r = path.alloc("PRegistry", "registry")
    path.store("PRegistry.has_async", r.e, z3.BoolVal(False))
    path.store("PRegistry.listeners", r.e, NONE)
    return [(path, r)]


CLASSES["PRegistry"].ctor = preg_ctor
GLOBAL_NAMES["statemachine.statemachine:CallbacksRegistry"] = Py(("class", "PRegistry"))


@model
def val_keys(ex, path, recv, ca, node):
    """listeners.keys(): the collection of listener objects (opaque)."""
    return [(path, O(recv.e, "Val"))]


CLASSES["Val"].methods["keys"] = val_keys


def D(s, me):
    return s.sel("PSM.__dict__", me)


def attr(s, me, name):
    return z3.Select(s.sel("dict.val", D(s, me)), z3.StringVal(name))


MODEL_NO_STATE = z3.Bool("MODEL_HOLDS_NO_STATE")  # the (copied) model holds no state yet
NO_STATE_FLAG = MODEL_NO_STATE


def model_has_state(s, me):
    return z3.Not(MODEL_NO_STATE)


@register
class PRegisterCallbacks(Contract):
    """_register_callbacks(listeners) — abstract: resolves machine, model and the given listeners and
    then sets has_async_callbacks from everything registered SO FAR (callbacks.async_or_sync())."""
    qualnames = ["pickle:_register_callbacks"]
    params = [("self", "PSM"), ("listeners", "Val")]
    returns = "None"
    modifies = ["PRegistry.has_async", "PRegistry.listeners", "list.arr+", "list.len+"]
    trusted = True

    def post(self, s0, s, a, r):
        reg = attr(s0, a.self.e, "_callbacks")
        return {"flag-from-machine-model-and-these-listeners": z3.And(
            s.sel("PRegistry.has_async", reg) == z3.Or(ASYNC_MM, ASYNC_L(a.listeners.e)),
            s.sel("PRegistry.listeners", reg) == a.listeners.e)}

    def assumptions(self):
        return ["StateMachine._register_callbacks: abstract contract (flag := machine/model/given listeners async), own contract under C12"]


EMPTY_LISTENERS = z3.Int("EMPTY_LISTENERS")


@register
class PAddListener(Contract):
    """add_listener(*listeners) — abstract, from its real body: resolves the listeners' callbacks
    into the registry; it does NOT call async_or_sync(), so the flag is left as it was."""
    qualnames = ["pickle:add_listener"]
    params = [("self", "PSM"), ("*listeners", "Val")]
    returns = "Val"
    modifies = ["PRegistry.listeners"]
    trusted = True

    def post(self, s0, s, a, r):
        reg = attr(s0, a.self.e, "_callbacks")
        return {"listeners-attached": s.sel("PRegistry.listeners", reg) == ref_of(a.listeners)}

    def assumptions(self):
        return ["StateMachine.add_listener: abstract contract (attaches listeners, leaves has_async_callbacks alone), read off its body"]


@register
class PGetEngine(Contract):
    """_get_engine(rtc) — from its body: AsyncEngine iff the registry's flag is set; a NEW engine has
    an empty queue (nothing pending) until start() is called."""
    qualnames = ["pickle:_get_engine"]
    params = [("self", "PSM"), ("rtc", "Val")]
    returns = "PEngine"
    modifies = ["PEngine.is_async+", "PEngine.rtc+", "PEngine.pending_initial+", "PEngine._rtc+"]
    trusted = True

    def post(self, s0, s, a, r):
        reg = attr(s0, a.self.e, "_callbacks")
        return {"engine": z3.And(
            r.e >= s0["ghost.alloc"], s.sel("PEngine.is_async", r) == s0.sel("PRegistry.has_async", reg),
            s.sel("PEngine._rtc", r) == truthy(a.rtc.e), z3.Not(s.sel("PEngine.pending_initial", r)))}


@register
class PAsyncOrSync(Contract):
    """CallbacksRegistry.async_or_sync() — abstract, from its body: the flag becomes 'some registered
    callback is a coroutine', over everything registered so far."""
    qualnames = ["pickle:async_or_sync"]
    params = [("self", "PRegistry")]
    returns = "None"
    modifies = ["PRegistry.has_async"]
    trusted = True

    def post(self, s0, s, a, r):
        return {"flag-recomputed": z3.And(
            s.sel("PRegistry.has_async", a.self.e) == z3.Or(ASYNC_MM, ASYNC_L(s0.sel("PRegistry.listeners", a.self.e))),
            z3.ForAll([z3.Const("o!aos", Int)], z3.Implies(z3.Const("o!aos", Int) != a.self.e, z3.Select(
                s["PRegistry.has_async"], z3.Const("o!aos", Int)) == z3.Select(s0["PRegistry.has_async"], z3.Const("o!aos", Int)))))}


@register
class PEngineStart(Contract):
    """engine.start() — abstract (own contracts under C11): no stored state => the initial
    activation is queued (async: pending until the first loop entry)."""
    qualnames = ["pickle:engine.start"]
    params = [("self", "PEngine")]
    returns = "None"
    modifies = ["PEngine.pending_initial"]
    trusted = True

    def post(self, s0, s, a, r):
        o = z3.Const("o!es", Int)
        return {"pending": z3.And(
            s.sel("PEngine.pending_initial", a.self.e) == z3.And(s0.sel("PEngine.is_async", a.self.e), z3.Not(NO_STATE_FLAG)) if False else
            s.sel("PEngine.pending_initial", a.self.e) == z3.And(s0.sel("PEngine.is_async", a.self.e), MODEL_NO_STATE),
            z3.ForAll([o], z3.Implies(o != a.self.e, z3.Select(s["PEngine.pending_initial"], o) == z3.Select(s0["PEngine.pending_initial"], o))))}


@register
class GetState(Contract):
    """__getstate__ (C17): everything in __dict__ except the registry, the state cache and the
    engine, plus the engine's rtc option."""

    qualnames = [SMQ + "__getstate__"]
    params = [("self", "PSM")]
    returns = "dict[str,Val]"
    modifies = ["dict.has+", "dict.val+"]
    properties = ["C17"]

    def pre(self, s, a):
        d = D(s, a.self.e)
        return {"constructed": z3.And(valid_obj(s, d), *[z3.Select(s.sel("dict.has", d), z3.StringVal(n)) for n in DROPPED],
                                      valid_obj(s, attr(s, a.self.e, "_engine")))}

    def post(self, s0, s, a, r):
        d = D(s0, a.self.e)
        k = z3.Const("k!gs", Str)
        dropped = z3.Or(*[k == z3.StringVal(n) for n in DROPPED])
        has, val = s.sel("dict.has", r), s.sel("dict.val", r)
        return {
            "C17|a-copy-not-the-live-dict": z3.And(r.e >= s0["ghost.alloc"], s.sel("dict.has", d) == s0.sel("dict.has", d)),
            "C17|every-option-and-attribute-survives": z3.ForAll([k], z3.Implies(z3.And(z3.Not(dropped), k != z3.StringVal("_rtc")), z3.And(
                z3.Select(has, k) == z3.Select(s0.sel("dict.has", d), k), z3.Select(val, k) == z3.Select(s0.sel("dict.val", d), k)))),
            "C17|rebuilt-parts-are-left-out": z3.And(*[z3.Not(z3.Select(has, z3.StringVal(n))) for n in DROPPED]),
            "C17|rtc-option-carried": z3.And(z3.Select(has, z3.StringVal("_rtc")),
                                             truthy(z3.Select(val, z3.StringVal("_rtc"))) == s0.sel("PEngine._rtc", attr(s0, a.self.e, "_engine"))),
        }


@register
class SetState(Contract):
    """__setstate__ (C17): the clone has the serialised attributes and options, the same listeners
    re-attached, an engine of the same kind as the original's, and the same pending activation."""

    qualnames = [SMQ + "__setstate__"]
    params = [("self", "PSM"), ("state", "dict[str,Val]")]
    returns = "None"
    raises = False
    modifies = ["dict.has", "dict.val", "PRegistry.has_async", "PRegistry.listeners", "PEngine.is_async+", "PEngine.rtc+",
                "PEngine.pending_initial", "PEngine._rtc+", "list.arr+", "list.len+"]
    properties = ["C17"]

    def pre(self, s, a):
        d = D(s, a.self.e)
        st = a.state.e
        return {"blank-instance-and-a-state-from-getstate": z3.And(
            valid_obj(s, d), d != st,
            z3.Select(s.sel("dict.has", st), z3.StringVal("_listeners")), z3.Select(s.sel("dict.has", st), z3.StringVal("_rtc")),
            *[z3.Not(z3.Select(s.sel("dict.has", st), z3.StringVal(n))) for n in DROPPED])}

    def post(self, s0, s, a, r):
        me, st = a.self.e, a.state.e
        d = D(s0, me)
        k = z3.Const("k!ss", Str)
        special = z3.Or(*[k == z3.StringVal(n) for n in DROPPED + ["_listeners", "_rtc"]])
        eng = attr(s, me, "_engine")
        listeners = z3.Select(s0.sel("dict.val", st), z3.StringVal("_listeners"))
        rtc = truthy(z3.Select(s0.sel("dict.val", st), z3.StringVal("_rtc")))
        # what the ORIGINAL machine's engine was: chosen at construction from machine, model AND listeners
        orig_async = z3.Or(ASYNC_MM, ASYNC_L(listeners))
        return {
            "C17|attributes-and-options-restored": z3.ForAll([k], z3.Implies(
                z3.And(z3.Not(special), z3.Select(s0.sel("dict.has", st), k)),
                z3.And(z3.Select(s.sel("dict.has", d), k), z3.Select(s.sel("dict.val", d), k) == z3.Select(s0.sel("dict.val", st), k)))),
            "C17|fresh-registry-cache-and-engine": z3.And(
                attr(s, me, "_callbacks") >= s0["ghost.alloc"], eng >= s0["ghost.alloc"],
                *[z3.Select(s.sel("dict.has", d), z3.StringVal(n)) for n in DROPPED + ["_listeners"]]),
            "C17|listeners-re-attached": s.sel("PRegistry.listeners", attr(s, me, "_callbacks")) == listeners,
            "C17|rtc-option-restored": s.sel("PEngine._rtc", eng) == rtc,
            "C17|same-kind-of-engine-as-the-original": s.sel("PEngine.is_async", eng) == orig_async,
            "C17|same-pending-activation-as-the-original": s.sel("PEngine.pending_initial", eng) == z3.And(
                orig_async, z3.Not(model_has_state(s, me))),
        }
