"""C17, bounded layer (labelled bounded, never counted as proved): random small machines with custom
attributes, an external model, constructor listeners and add_listener listeners are driven through a
random prefix, cloned with copy.deepcopy and with a pickle round trip, and then original and clone are
driven through the SAME suffix: their traces (machine callbacks, listener callbacks, model state,
private attributes, results and exceptions) must be identical, and a DIFFERENT suffix on the clone must
leave the original untouched.  Points of the history include "right after construction" and, for async
machines, "before the initial activation".

The oracle is the original machine itself (equivalence), so no reference interpreter is involved.
"""
from __future__ import annotations

import asyncio
import copy
import itertools
import json
import os
import pickle
import random
import sys
import time
import warnings

warnings.simplefilter("ignore")
_uid = itertools.count()
THIS = sys.modules[__name__]


def gen_spec(rng: random.Random):
    n = rng.randint(2, 4)
    vals = rng.choice([None, "int0", "str", "mixed"])
    states = []
    for i in range(n):
        v = {None: f"s{i}", "int0": i, "str": ["", "a", "b", "c"][i], "mixed": [0, "", "x", 7][i]}[vals]
        states.append({"id": f"s{i}", "value": v, "initial": i == 0})
    events = ["go", "back", "tick"][: rng.randint(1, 3)]
    trans = []
    for i in range(n - 1):  # a spanning chain keeps every state reachable (otherwise the definition is rejected)
        trans.append({"src": f"s{i}", "dst": f"s{i + 1}", "event": events[i % len(events)], "guard": rng.choice([None, None, "ok", "flip"]), "inline": rng.random() < 0.4})
    for e in events:
        for _ in range(rng.randint(1, 3)):
            a, b = rng.randrange(n), rng.randrange(n)
            trans.append({"src": f"s{a}", "dst": f"s{b}", "event": e, "guard": rng.choice([None, None, "ok", "!ok", "flip"]), "inline": rng.random() < 0.4})
    return {
        "states": states, "transitions": trans, "events": events,
        "async_machine": rng.random() < 0.25, "async_listener": rng.random() < 0.3,
        "rtc": rng.random() < 0.8, "allow": rng.random() < 0.5,
        "ctor_listener": rng.random() < 0.6, "late_listener": rng.random() < 0.6,
        "model": rng.choice(["default", "external"]),
        "activate_before_clone": rng.random() < 0.7,
        "prefix": [rng.choice(events + ["nope"]) for _ in range(rng.randint(0, 4))],
        "suffix": [rng.choice(events + ["nope"]) for _ in range(rng.randint(1, 5))],
        "other": [rng.choice(events) for _ in range(rng.randint(1, 3))],
        "how": rng.choice(["deepcopy", "pickle"]),
        # a callback that queues a follow-up event, and a later callback of the same transition that raises: what is
        # left in the engine's queue is NOT part of the clone, so it must not be part of the original either
        "nest": rng.choice(events) if rng.random() < 0.3 else None,
        "boom": rng.random() < 0.3,
    }


def build(spec):
    from statemachine import State, StateMachine
    tag = f"CL{next(_uid)}"
    is_async = spec["async_machine"]
    ns = {}
    st = {}
    for s in spec["states"]:
        st[s["id"]] = State(value=s["value"], initial=s["initial"])
        ns[s["id"]] = st[s["id"]]
    by_event = {}
    for t in spec["transitions"]:
        kw = {}
        if t["guard"] == "ok":
            kw["cond"] = "ok"
        elif t["guard"] == "!ok":
            kw["unless"] = "ok"
        elif t["guard"] == "flip":
            kw["cond"] = "flip"
        if t.get("inline"):
            kw["on"] = ["act_first", "act_second"]  # two explicit actions of equal priority, also provided by the listeners
        tl = st[t["src"]].to(st[t["dst"]], **kw)
        by_event[t["event"]] = (by_event[t["event"]] | tl) if t["event"] in by_event else tl
    ns.update(by_event)

    def trace_of(self):
        return self.__dict__.setdefault("trace", [])

    def ok(self):
        return self.__dict__.setdefault("_okflag", True)

    def flip(self):
        # a private attribute of the subclass that changes with the history
        self._attempts = self.__dict__.get("_attempts", 0) + 1
        return self._attempts % 2 == 1

    ok.__qualname__, flip.__qualname__ = f"{tag}.ok", f"{tag}.flip"
    ns["ok"], ns["flip"] = ok, flip

    def mk(name):
        nest = spec.get("nest") if name == "before_transition" else None
        boom = spec.get("boom") and name == "on_transition"
        if is_async:
            async def cb(self, event=None, source=None, target=None):
                trace_of(self).append((name, str(event), getattr(source, "id", None), getattr(target, "id", None)))
                self._count = self.__dict__.get("_count", 0) + 1
                if nest and self._count % 3 == 1 and len(trace_of(self)) < 200:
                    await self.send(nest)
                if boom and self._count % 4 == 2:
                    raise ValueError(name)
                return f"{name}:{self._count}"
        else:
            def cb(self, event=None, source=None, target=None):
                trace_of(self).append((name, str(event), getattr(source, "id", None), getattr(target, "id", None)))
                self._count = self.__dict__.get("_count", 0) + 1
                if nest and self._count % 3 == 1 and len(trace_of(self)) < 200:
                    self.send(nest)
                if boom and self._count % 4 == 2:
                    raise ValueError(name)
                return f"{name}:{self._count}"
        cb.__name__ = name
        cb.__qualname__ = f"{tag}.{name}"
        return cb

    for nm in ["on_enter_state", "on_exit_state", "before_transition", "on_transition", "after_transition", "act_first", "act_second"] + [
            f"on_{e}" for e in spec["events"]]:
        ns[nm] = mk(nm)
    cls = type(tag, (StateMachine,), ns)
    cls.__module__ = __name__
    setattr(THIS, tag, cls)

    def mk_listener(kind, asyn):
        lname = f"{tag}_{kind}"
        # listener callbacks write into the MACHINE's own trace (found through the `machine` built-in), so the relative
        # order of machine and listener callbacks of equal priority is part of what is compared
        def note(self, machine, what):
            self.seen.append(what)
            if machine is not None:
                machine.__dict__.setdefault("trace", []).append(("listener",) + what)

        if asyn:
            async def on_transition(self, machine=None, event=None, source=None, target=None):
                note(self, machine, (kind, "on_transition", str(event), getattr(source, "id", None)))

            async def on_enter_state(self, machine=None, state=None):
                note(self, machine, (kind, "on_enter_state", getattr(state, "id", None)))

            async def before_transition(self, machine=None, event=None):
                note(self, machine, (kind, "before_transition", str(event)))
        else:
            def on_transition(self, machine=None, event=None, source=None, target=None):
                note(self, machine, (kind, "on_transition", str(event), getattr(source, "id", None)))

            def on_enter_state(self, machine=None, state=None):
                note(self, machine, (kind, "on_enter_state", getattr(state, "id", None)))

            def before_transition(self, machine=None, event=None):
                note(self, machine, (kind, "before_transition", str(event)))
        before_transition.__qualname__ = f"{lname}.before_transition"

        def act_first(self, machine=None):
            note(self, machine, (kind, "act_first"))

        def act_second(self, machine=None):
            note(self, machine, (kind, "act_second"))
        act_first.__qualname__, act_second.__qualname__ = f"{lname}.act_first", f"{lname}.act_second"
        on_transition.__qualname__ = f"{lname}.on_transition"
        on_enter_state.__qualname__ = f"{lname}.on_enter_state"

        def __init__(self):
            self.seen = []
        lcls = type(lname, (), {"__init__": __init__, "on_transition": on_transition, "on_enter_state": on_enter_state,
                                "before_transition": before_transition, "act_first": act_first, "act_second": act_second})
        lcls.__module__ = __name__
        setattr(THIS, lname, lcls)
        return lcls

    mcls = type(f"{tag}_Model", (), {"__init__": lambda self: setattr(self, "state", None)})
    mcls.__module__ = __name__
    setattr(THIS, f"{tag}_Model", mcls)
    return cls, mk_listener, mcls


def snapshot(sm):
    d = sm.__dict__
    ls = []
    for l in list(getattr(sm, "_listeners", {}).keys()) if isinstance(getattr(sm, "_listeners", None), dict) else []:
        if hasattr(l, "seen"):
            ls.append(list(l.seen))
    try:
        csv = sm.current_state_value
    except Exception as e:  # noqa: BLE001
        csv = f"<{type(e).__name__}>"
    return {"state": repr(csv), "trace": list(d.get("trace", [])), "attempts": d.get("_attempts"), "count": d.get("_count"),
            "listeners": ls, "model_state": repr(getattr(sm.model, "state", None)), "engine": type(sm._engine).__name__}


async def maybe_await(x):
    if asyncio.iscoroutine(x) or asyncio.isfuture(x):
        return await x
    return x


async def a_send(sm, ev):
    try:
        r = sm.send(ev)
        if asyncio.iscoroutine(r) or asyncio.isfuture(r):
            r = await r
        return ("ok", repr(r))
    except Exception as e:  # noqa: BLE001
        return ("exc", type(e).__name__)


def s_send(sm, ev):
    try:
        return ("ok", repr(sm.send(ev)))
    except Exception as e:  # noqa: BLE001
        return ("exc", type(e).__name__)


def clone(sm, how):
    if how == "pickle":
        return pickle.loads(pickle.dumps(sm))
    return copy.deepcopy(sm)


def run_spec(spec):
    """-> None if original and clone agree, else a dict describing the difference."""
    cls, mk_listener, mcls = build(spec)
    # the engine kind is chosen at construction; attaching an async listener to a machine that got the SyncEngine is
    # the recorded finding C12 (late async listener), not C17's business: the late listener is async only on async machines
    uses_async = spec["async_machine"] or (spec["ctor_listener"] and spec["async_listener"])
    kw = {"rtc": spec["rtc"], "allow_event_without_transition": spec["allow"]}
    listeners = [mk_listener("ctor", spec["async_listener"])()] if spec["ctor_listener"] else []
    model = mcls() if spec["model"] == "external" else None

    async def drive_async():
        sm = cls(model, listeners=listeners, **kw) if listeners else cls(model, **kw)
        if spec["late_listener"]:
            sm.add_listener(mk_listener("late", spec["async_listener"] and uses_async)())
        if spec["activate_before_clone"]:
            await maybe_await(sm.activate_initial_state())
            for ev in spec["prefix"]:
                await a_send(sm, ev)
        before = snapshot(sm) if spec["activate_before_clone"] else None
        c = clone(sm, spec["how"])
        if before is not None and snapshot(c) != before:
            return {"what": "clone differs from the original right after cloning", "original": before, "clone": snapshot(c)}
        if c.model is sm.model:
            return {"what": "clone shares the model object with the original"}
        ra, rb = [], []
        if not spec["activate_before_clone"]:
            await maybe_await(sm.activate_initial_state())
            await maybe_await(c.activate_initial_state())
        for ev in spec["suffix"]:
            ra.append(await a_send(sm, ev))
        mid = snapshot(sm)
        for ev in spec["suffix"]:
            rb.append(await a_send(c, ev))
        if snapshot(sm) != mid:
            return {"what": "driving the clone changed the original", "before": mid, "after": snapshot(sm)}
        if ra != rb or snapshot(c) != mid:
            return {"what": "clone responds differently to the same suffix", "original": [ra, mid], "clone": [rb, snapshot(c)]}
        for ev in spec["other"]:
            await a_send(c, ev)
        if snapshot(sm) != mid:
            return {"what": "driving the clone further changed the original", "before": mid, "after": snapshot(sm)}
        return None

    def drive_sync():
        sm = cls(model, listeners=listeners, **kw) if listeners else cls(model, **kw)
        if spec["late_listener"]:
            sm.add_listener(mk_listener("late", False)())
        for ev in spec["prefix"]:
            s_send(sm, ev)
        before = snapshot(sm)
        c = clone(sm, spec["how"])
        if snapshot(c) != before:
            return {"what": "clone differs from the original right after cloning", "original": before, "clone": snapshot(c)}
        if c.model is sm.model:
            return {"what": "clone shares the model object with the original"}
        ra = [s_send(sm, ev) for ev in spec["suffix"]]
        mid = snapshot(sm)
        rb = [s_send(c, ev) for ev in spec["suffix"]]
        if snapshot(sm) != mid:
            return {"what": "driving the clone changed the original", "before": mid, "after": snapshot(sm)}
        if ra != rb or snapshot(c) != mid:
            return {"what": "clone responds differently to the same suffix", "original": [ra, mid], "clone": [rb, snapshot(c)]}
        for ev in spec["other"]:
            s_send(c, ev)
        if snapshot(sm) != mid:
            return {"what": "driving the clone further changed the original", "before": mid, "after": snapshot(sm)}
        return None

    if uses_async:
        return asyncio.run(drive_async())
    return drive_sync()


MIN_CASES = 2000  # a loaded machine does not shrink what is explored (time cap: 10x the budget)


def run(limit_s, seed):
    rng = random.Random(seed)
    t0 = time.time()
    n = 0
    skipped = 0
    while time.time() - t0 < limit_s or (n < MIN_CASES and time.time() - t0 < 10 * limit_s):
        spec = gen_spec(rng)
        try:
            diff = run_spec(spec)
        except Exception as e:  # noqa: BLE001  (an invalid random definition is not a verdict)
            from statemachine.exceptions import InvalidDefinition
            if isinstance(e, InvalidDefinition):
                skipped += 1
                continue
            diff = {"what": f"cloning or driving crashed: {type(e).__name__}: {str(e)[:200]}"}
        n += 1
        if diff:
            return {"cases": n, "violation": {"spec": spec, "difference": diff}}
    return {"cases": n, "skipped_invalid_definitions": skipped, "violation": None, "seconds": round(time.time() - t0, 1)}


REPLAY = '''"""Replay (C17 bounded layer): original and clone of this machine are not equivalent / not independent."""
import json, sys
sys.path.insert(0, "/verif")
from runtime import clone_check
spec = json.loads({spec!r})
try:
    diff = clone_check.run_spec(spec)
except Exception as e:
    diff = {{"what": "crashed: %s: %s" % (type(e).__name__, e)}}
print("spec", spec)
print("difference", diff)
sys.exit(1 if diff else 0)
'''

if __name__ == "__main__":
    limit = float(sys.argv[1]) if len(sys.argv) > 1 else 15
    seed = int(sys.argv[2]) if len(sys.argv) > 2 else 0
    res = run(limit, seed)
    if res["violation"]:
        os.makedirs("/verif/replays", exist_ok=True)
        sp = json.dumps(res["violation"]["spec"])
        path = f"/verif/replays/C17-clone-{abs(hash(sp)) % 10**8}.py"
        open(path, "w").write(REPLAY.format(spec=sp))
        res["replay"] = path
    print(json.dumps(res, default=str))
    sys.exit(1 if res["violation"] else 0)
