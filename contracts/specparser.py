"""Contracts of statemachine/spec_parser.py (C08): the AST -> closure layer.

Operands of a guard expression are opaque callables (resolved names, constants).  Calling operand
number k of an evaluation yields OP_VAL(k) and is logged in order (ghost `nop`, `op_who`): that is
what lets the combinator lemmas speak about short-circuiting and evaluation order.
"""
from __future__ import annotations

import z3

from pyvc.core import (
    A_II, B, CLASSES, EXC_CODE, Exc, I, NONE, NoneV, O, Py, S, T, Int, Bool, Str, ref_of, truthy, FIRST_ADDR,
    ClassModel, MethodSpec, Unsupported, boxb, declare_ghost, fresh,
)
from pyvc.execu import CONTRACTS, GLOBAL_NAMES, CallArgs, Contract, LoopSpec, Raise, register
from pyvc.models import model

from .model import C, INL

SP = "statemachine.spec_parser:"
declare_ghost("nop", Int)  # operand invocations so far in this evaluation
declare_ghost("op_who", A_II)  # which operand was invoked k-th
OP_VAL = z3.Function("OP_VAL", Int, Int)  # value produced by the k-th operand invocation
OP_LOG = ["ghost.nop", "ghost.op_who"]

ClassModel("Operand", methods={"__call__": C("user:operand")})
GLOBAL_NAMES["operator"] = Py(("module", "operator"))


@register
class OperandCall(Contract):
    """ORACLE: an operand of a guard expression (a resolved name or a constant).  Reading a name has
    no effect on the machine; each read may yield a different value (current values are read at
    every evaluation)."""

    qualnames = ["user:operand"]
    params = [("self", "Operand"), ("*args", "tuple"), ("**kwargs", "dict[str,Val]")]
    returns = "Val"
    modifies = OP_LOG
    trusted = True

    def post(self, s0, s, a, r):
        k = s0.g("nop")
        return {"logged": z3.And(s.g("nop") == k + 1, s.g("op_who") == z3.Store(s0.g("op_who"), k, a.self.e)),
                "value": r.e == OP_VAL(k)}

    def assumptions(self):
        return ["operands of guard expressions (names resolved on machine/model/listeners) are read without side effects"]


def pyand(x, y):
    return z3.If(truthy(x), y, x)


def pyor(x, y):
    return z3.If(truthy(x), x, y)


class Combinator(Contract):
    """A closure returned by a combinator: its free variables are parameters of the contract."""
    returns = "Val"
    modifies = OP_LOG
    properties = ["C08"]

    def pre(self, s, a):
        return {"log-cursor": s.g("nop") >= 0}


@register
class AndClosure(Combinator):
    """custom_and(left, right)(*a, **k) is Python's `left() and right()`: left first; right only
    if left is truthy; the value is the deciding operand's value."""

    qualnames = [SP + "custom_and.<locals>.decorated"]
    params = [("left", "Operand"), ("right", "Operand"), ("*args", "tuple"), ("**kwargs", "dict[str,Val]")]

    def post(self, s0, s, a, r):
        k = s0.g("nop")
        lv = OP_VAL(k)
        return {
            "C08|and:left-operand-first": z3.Select(s.g("op_who"), k) == a.left.e,
            "C08|and:short-circuits-on-falsy-left": z3.Implies(z3.Not(truthy(lv)), z3.And(s.g("nop") == k + 1, r.e == lv)),
            "C08|and:otherwise-the-right-operands-value": z3.Implies(truthy(lv), z3.And(
                s.g("nop") == k + 2, z3.Select(s.g("op_who"), k + 1) == a.right.e, r.e == OP_VAL(k + 1))),
        }


@register
class OrClosure(Combinator):
    """custom_or(left, right)(*a, **k) is Python's `left() or right()`."""

    qualnames = [SP + "custom_or.<locals>.decorated"]
    params = AndClosure.params

    def post(self, s0, s, a, r):
        k = s0.g("nop")
        lv = OP_VAL(k)
        return {
            "C08|or:left-operand-first": z3.Select(s.g("op_who"), k) == a.left.e,
            "C08|or:short-circuits-on-truthy-left": z3.Implies(truthy(lv), z3.And(s.g("nop") == k + 1, r.e == lv)),
            "C08|or:otherwise-the-right-operands-value": z3.Implies(z3.Not(truthy(lv)), z3.And(
                s.g("nop") == k + 2, z3.Select(s.g("op_who"), k + 1) == a.right.e, r.e == OP_VAL(k + 1))),
        }


@register
class NotClosure(Combinator):
    """custom_not(predicate)(*a, **k) is Python's `not predicate()`."""

    qualnames = [SP + "custom_not.<locals>.decorated"]
    params = [("predicate", "Operand"), ("*args", "tuple"), ("**kwargs", "dict[str,Val]")]
    returns = "bool"

    def post(self, s0, s, a, r):
        k = s0.g("nop")
        return {"C08|not:negated-truth-value-of-the-operand": z3.And(
            s.g("nop") == k + 1, z3.Select(s.g("op_who"), k) == a.predicate.e, r.e == z3.Not(truthy(OP_VAL(k))))}


@register
class ConstClosure(Combinator):
    """build_constant(c)(*a, **k) is the constant."""

    qualnames = [SP + "build_constant.<locals>.decorated"]
    params = [("constant", "Val"), ("*args", "tuple"), ("**kwargs", "dict[str,Val]")]
    modifies = []

    def post(self, s0, s, a, r):
        return {"C08|constant:its-own-value-no-operand-read": r.e == a.constant.e}


CMP = z3.Function("CMP", Int, Int, Int, Int)  # CMP(op, x, y): what operator.<op>(x, y) returns


@model
def operator_fn_call(ex, path, recv, ca, node):
    """operator.eq/ne/gt/ge/lt/le(x, y): ASSUMED to be Python's comparison of the two values."""
    return [(path, O(CMP(recv.e, ref_of(ca.pos[0]), ref_of(ca.pos[1])), "Val"))]


ClassModel("OperatorFn", methods={"__call__": operator_fn_call})


@register
class CompareClosure(Combinator):
    """build_custom_operator(op)(left, right)(*a, **k) is bool(op(left(), right())): both operands,
    left first, no short-circuit inside one comparison."""

    qualnames = [SP + "build_custom_operator.<locals>.custom_comparator.<locals>.decorated"]
    params = [("operator", "OperatorFn"), ("left", "Operand"), ("right", "Operand"), ("*args", "tuple"), ("**kwargs", "dict[str,Val]")]
    returns = "bool"

    def post(self, s0, s, a, r):
        k = s0.g("nop")
        return {"C08|compare:both-operands-left-first-then-the-operator": z3.And(
            s.g("nop") == k + 2, z3.Select(s.g("op_who"), k) == a.left.e, z3.Select(s.g("op_who"), k + 1) == a.right.e,
            r.e == truthy(CMP(a.operator.e, OP_VAL(k), OP_VAL(k + 1))))}


# =========================================================================== the combinators themselves
from pyvc.core import Clo, HEAP_SORTS  # noqa: E402

CLASSES["Operand"].fields.update({"unique_key": "str", "__name__": "str"})
HEAP_SORTS.setdefault("Operand.unique_key", z3.ArraySort(Int, Str))
HEAP_SORTS.setdefault("Operand.__name__", z3.ArraySort(Int, Str))


def _operand_getattr(ex, path, obj, name, default, node):
    if isinstance(name, S) and z3.is_string_value(name.e) and name.e.as_string() in ("unique_key", "__name__"):
        return [(path, S(path.sel("Operand." + name.e.as_string(), obj.e)))]
    raise Unsupported("getattr(operand, ...)")


CLASSES["Operand"].getattr_fn = _operand_getattr


def _closure_check(r, inner_name, captured: dict):
    """The returned object is the inner `decorated` closure of this very combinator, closed over
    exactly the given operands (not swapped, not others)."""
    if not isinstance(r, Clo):
        return z3.BoolVal(False)
    ok = getattr(r.node, "name", None) == inner_name
    for k, v in captured.items():
        got = r.env.get(k)
        ok = ok and isinstance(got, O) and z3.eq(got.e, v.e)
    return z3.BoolVal(bool(ok))


def _attr(r, name):
    v = r.attrs.get(name) if isinstance(r, Clo) else None
    return v.e if isinstance(v, S) else z3.StringVal("<missing>")


class CombinatorOuter(Contract):
    returns = "any"
    modifies = []
    properties = ["C08", "C12"]


@register
class CustomNot(CombinatorOuter):
    """custom_not(p): the negation closure over p; its unique_key is built from p's unique_key (keys
    de-duplicate guards in CallbacksExecutor.add, so they must identify the operands, not just name them)."""
    qualnames = [SP + "custom_not"]
    params = [("predicate", "Operand")]

    def post(self, s0, s, a, r):
        uk = s0.sel("Operand.unique_key", a.predicate.e)
        return {"C08|returns-the-negation-closure-over-the-operand": _closure_check(r, "decorated", {"predicate": a.predicate}),
                "C08,C12|unique-key-identifies-the-operand": _attr(r, "unique_key") == z3.Function("fmt<not(|{}|)>", Str, Str)(uk)}


def _binary(name, opword):
    @register
    class _B(CombinatorOuter):
        __doc__ = f"{name}(l, r): the `{opword}` closure over (l, r) in that order; unique_key from both operands' keys."
        qualnames = [SP + name]
        params = [("left", "Operand"), ("right", "Operand")]

        def post(self, s0, s, a, r):
            lk, rk = s0.sel("Operand.unique_key", a.left.e), s0.sel("Operand.unique_key", a.right.e)
            return {f"C08|returns-the-{opword}-closure-over-left-then-right": _closure_check(r, "decorated", {"left": a.left, "right": a.right}),
                    "C08,C12|unique-key-identifies-both-operands": _attr(r, "unique_key") == z3.Function(
                        "fmt<{}| |{}| |{}>", Str, Str, Str, Str)(lk, z3.StringVal(opword), rk)}
    _B.__name__ = "Outer_" + name
    return _B


_binary("custom_and", "and")
_binary("custom_or", "or")
CLASSES["Operand"].methods["__call__"] = C("user:operand")
GLOBAL_NAMES["statemachine.spec_parser:_unique_key"] = Py(("func", SP + "_unique_key", "inline"))
CONTRACTS[SP + "_unique_key"] = type("InlUK", (Contract,), {"qualnames": [SP + "_unique_key"], "inline": True})()
