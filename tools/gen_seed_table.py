#!/usr/bin/env python3
"""tools/gen_seed_table.py : rewrite DESIGN.md section 9.3 from seeded/RESULTS.json (full parallel run) and benign/RESULTS.json."""
import json, os, re
root = "/verif"
res = json.load(open(f"{root}/seeded/RESULTS.json"))
lines = ["### 9.3 Results of the last full run", "",
         f"`tools/run_seeds_parallel.py` (each seed applied to its own scratch copy of /repo HEAD, the check of the property it was written "
         f"against run with `PYVC_REPO`): {sum(1 for r in res if r['exit'] == 1)} of {len(res)} seeds end in a VIOLATION line, "
         f"{sum(1 for r in res if r['exit'] == 2)} undecided (exit 2), {sum(1 for r in res if r['exit'] == 0)} missed (exit 0); "
         f"{sum(1 for r in res if r['replay'] == 'concrete')} with a concrete replay, the others `no-failing-input-found`.", "",
         "| seed | what was changed | exit | replay | first failed obligation |", "|---|---|---|---|---|"]
for r in res:
    meta = json.load(open(f"{root}/seeded/{r['seed']}/meta.json"))
    what = " ".join(meta.get("needs_to_manifest", [""])[:1])[:110].replace("|", "\\|").replace("\n", " ")
    ob = r["first_failed_obligation"].split("  [")[0][:100].replace("|", "\\|")
    lines.append(f"| {r['seed']} | {what} | {r['exit']} | {r['replay']} | `{ob}` |")
bp = f"{root}/benign/RESULTS.json"
if os.path.exists(bp):
    b = json.load(open(bp))
    lines += ["", f"Harmless refactorings (`tools/run_benign.py`, affected checks on a patched scratch copy): {sum(1 for x in b if x['worst_exit'] == 0)} of {len(b)} "
              f"leave every affected check at exit 0; {sum(1 for x in b if x['worst_exit'] == 2)} end undecided (exit 2); "
              f"{sum(1 for x in b if x['worst_exit'] == 1)} raise a false alarm.", "",
              "| patch | kind | affected checks | worst exit |", "|---|---|---|---|"]
    for x in b:
        lines.append(f"| {x['name']} | {x['kind'][:90].replace('|', '/')} | {' '.join(x['checks'])} | {x['worst_exit']} |")
text = "\n".join(lines) + "\n\n"
p = f"{root}/DESIGN.md"
s = open(p).read()
a = s.find("### 9.3 Results of the last full run")
b_ = s.index("## 10. Not applicable / partial")
if a == -1:
    a = b_
    text = text + "---------------------------------------------------------------------------------------------\n\n"
    # keep the separator that precedes section 10
    sep = "---------------------------------------------------------------------------------------------\n\n"
    if s[:b_].endswith(sep):
        a = b_ - len(sep)
else:
    text = text + "---------------------------------------------------------------------------------------------\n\n"
s = s[:a] + text + s[b_:]
open(p, "w").write(s)
print("section 9.3 rewritten:", len(res), "seeds")
