"""C09, bounded layer (labelled bounded, never counted as proved): for directed graphs over 1..5 states with any
initial/final flags, any transition multiset (self loops, internal transitions, parallel edges, from_.any()), and
strict_states on/off, the REAL class statement is executed and its verdict (accepted / InvalidDefinition, and whether a
UserWarning about trap states or unreachable final states was emitted) is compared with an independent reading of the
property computed with plain graph search:

  accepted iff  >= 1 state and >= 1 event, exactly one initial state, no transition leaves a final state, internal
  transitions are self transitions, every state is reachable from the initial one;  non-final states without outgoing
  transitions, or (when final states exist) without a path to a final state: InvalidDefinition under strict_states,
  a warning otherwise.

Small graphs (<= 3 states, <= 3 transitions) are enumerated exhaustively in the thorough tier; otherwise random.
"""
from __future__ import annotations

import itertools
import json
import os
import random
import sys
import time
import warnings

_uid = itertools.count()


def reference(spec):
    """-> ("invalid", reason) | ("ok", warns: bool)"""
    ids = spec["ids"]
    init = [s for s in ids if s in spec["initial"]]
    finals = set(spec["final"])
    T = [(t["src"], t["dst"], t["internal"]) for t in spec["transitions"]]
    for a in spec["any"]:
        T += [(s, a, False) for s in ids if s not in finals]
    if any(internal and s != d for s, d, internal in T):
        return ("invalid", "internal transition that is not a self transition")
    if not ids:
        return ("invalid", "no states")
    if not T and not spec["any"]:  # an any() event is a declared event even when there is no state to come from
        return ("invalid", "no events")
    if len(init) != 1:
        return ("invalid", "not exactly one initial state")
    if any(s in finals for s, _d, _i in T):
        return ("invalid", "transition leaving a final state")
    succ = {s: set() for s in ids}
    for s, d, _i in T:
        succ[s].add(d)

    def reach(start):
        seen, todo = {start}, [start]
        while todo:
            x = todo.pop()
            for y in succ[x]:
                if y not in seen:
                    seen.add(y)
                    todo.append(y)
        return seen
    if reach(init[0]) != set(ids):
        return ("invalid", "unreachable state")
    trap = [s for s in ids if s not in finals and not succ[s]]
    nopath = [s for s in ids if s not in finals and not (reach(s) & finals)] if finals else []
    if trap or nopath:
        if spec["strict"]:
            return ("invalid", "trap state / no path to a final state under strict_states")
        return ("ok", True)
    return ("ok", False)


def real(spec):
    from statemachine import State, StateMachine
    from statemachine.exceptions import InvalidDefinition
    name = f"V{next(_uid)}"
    with warnings.catch_warnings(record=True) as w:
        warnings.simplefilter("always")
        try:
            ns = {}
            st = {}
            for s in spec["ids"]:
                st[s] = State(initial=(s in spec["initial"]), final=(s in spec["final"]))
                ns[s] = st[s]
            by_event = {}
            for t in spec["transitions"]:
                kw = {"internal": True} if t["internal"] else {}
                tl = st[t["src"]].to(st[t["dst"]], **kw)
                by_event[t["event"]] = (by_event[t["event"]] | tl) if t["event"] in by_event else tl
            ns.update(by_event)
            for k, a in enumerate(spec["any"]):
                ns[f"any{k}"] = st[a].from_.any()
            type(name, (StateMachine,), ns, strict_states=spec["strict"])
        except InvalidDefinition as e:
            return ("invalid", str(e)[:80])
        except Exception as e:  # noqa: BLE001
            return ("crash", f"{type(e).__name__}: {str(e)[:80]}")
        warned = any(issubclass(x.category, UserWarning) and "non-final states" in str(x.message) for x in w)
    return ("ok", warned)


def gen(rng, max_states=5):
    n = rng.randint(1, max_states)
    ids = [f"s{k}" for k in range(n)]
    r = rng.random()
    if r < 0.8:
        initial = [ids[0]]
    elif r < 0.9:
        initial = []
    else:
        initial = rng.sample(ids, min(n, 2))
    final = [s for s in ids if rng.random() < 0.25]
    T = []
    m = rng.choice([0, 1, 2, 3, 4, 5, 6])
    connect = rng.random() < 0.6
    if connect:
        for k in range(n - 1):
            T.append({"src": ids[k], "dst": ids[k + 1], "internal": False, "event": rng.choice(["e0", "e1"])})
    for _ in range(m):
        s, d = rng.choice(ids), rng.choice(ids)
        internal = rng.random() < (0.3 if s == d else 0.05)
        T.append({"src": s, "dst": d, "internal": internal, "event": rng.choice(["e0", "e1"])})
    anyt = [rng.choice(ids)] if rng.random() < 0.15 else []
    return {"ids": ids, "initial": initial, "final": final, "transitions": T, "any": anyt, "strict": rng.random() < 0.5}


def exhaustive(max_states=3, max_trans=3):
    for n in range(1, max_states + 1):
        ids = [f"s{k}" for k in range(n)]
        pairs = [(s, d) for s in ids for d in ids]
        for fin in itertools.product([False, True], repeat=n):
            for ini in ([ids[0]], [], ids[:2]):
                for m in range(0, max_trans + 1):
                    for combo in itertools.combinations_with_replacement(pairs, m):
                        for strict in (False, True):
                            yield {"ids": ids, "initial": list(ini), "final": [s for s, f in zip(ids, fin) if f],
                                   "transitions": [{"src": s, "dst": d, "internal": False, "event": "e0"} for s, d in combo],
                                   "any": [], "strict": strict}


def agree(ref, got):
    if ref[0] == "invalid":
        return got[0] == "invalid"
    return got == ref


MIN_CASES = 30000  # what the random phase explores does not shrink on a loaded machine (time cap: 10x the budget)


def run(limit_s, seed, do_exhaustive=False):
    rng = random.Random(seed)
    t0 = time.time()
    n = 0
    done_exh = False
    src = exhaustive() if do_exhaustive else None
    while time.time() - t0 < limit_s or (n < MIN_CASES and time.time() - t0 < 10 * limit_s):
        if src is not None:
            spec = next(src, None)
            if spec is None:
                src, done_exh = None, True
                continue
        else:
            spec = gen(rng)
        n += 1
        ref, got = reference(spec), real(spec)
        if not agree(ref, got):
            return {"cases": n, "violation": {"spec": spec, "expected": ref, "library": got}}
    return {"cases": n, "violation": None, "seconds": round(time.time() - t0, 1),
            "exhaustive_up_to_3_states_3_transitions": done_exh}


REPLAY = '''"""Replay (C09 bounded layer): the class statement's verdict differs from the property's reading."""
import json, sys
sys.path.insert(0, "/verif")
from runtime import definition_check as dc
spec = json.loads({spec!r})
ref, got = dc.reference(spec), dc.real(spec)
print("definition", spec)
print("expected", ref, "library", got)
sys.exit(0 if dc.agree(ref, got) else 1)
'''

if __name__ == "__main__":
    limit = float(sys.argv[1]) if len(sys.argv) > 1 else 10
    seed = int(sys.argv[2]) if len(sys.argv) > 2 else 0
    exh = len(sys.argv) > 3 and sys.argv[3] == "exhaustive"
    res = run(limit, seed, exh)
    if res["violation"]:
        os.makedirs("/verif/replays", exist_ok=True)
        sp = json.dumps(res["violation"]["spec"])
        path = f"/verif/replays/C09-definition-{abs(hash(sp)) % 10**8}.py"
        open(path, "w").write(REPLAY.format(spec=sp))
        res["replay"] = path
    print(json.dumps(res, default=str))
    sys.exit(1 if res["violation"] else 0)
