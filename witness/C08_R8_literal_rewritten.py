"""C08 witness (#8, region R8): the operator-spelling regex rewrites inside string literals, so a
comparison with a literal containing 'v' (as a word), '^' or '!' evaluates wrongly.  Exit 1 while present."""
import sys
import warnings
from statemachine import State, StateMachine

warnings.simplefilter("ignore")


class M(StateMachine):
    a = State(initial=True)
    b = State(final=True)
    go = a.to(b, cond="name == 'v'")
    name = "v"


bad = []
try:
    sm = M()
    sm.go()
    if sm.current_state.id != "b":
        bad.append("name == 'v' with name='v' did not enable the transition")
except Exception as e:  # noqa: BLE001
    bad.append(f"name == 'v' raised {type(e).__name__}: {e}")
if bad:
    print("C08 VIOLATED (recorded finding R8):", "; ".join(bad))
    sys.exit(1)
print("ok")
