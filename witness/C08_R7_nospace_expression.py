"""C08 witness (#7, region R7): a well-formed expression written without optional whitespace and
without '!' (e.g. "x>=1", "p^q") or a lone literal ("True") is taken for a plain name by the fast path
of parse_boolean_expr and rejected as an unknown name.  Exit 1 while the behaviour is present."""
import sys
import warnings
from statemachine import State, StateMachine
from statemachine.exceptions import InvalidDefinition

warnings.simplefilter("ignore")
bad = []
for expr in ("x>=1", "p^q", "True", "(p)"):
    class M(StateMachine):
        a = State(initial=True)
        b = State(final=True)
        go = a.to(b, cond=expr)
        x = 2
        p = True
        q = True
    try:
        sm = M()
        sm.go()
        if sm.current_state.id != "b":
            bad.append(f"{expr!r}: evaluated falsy, Python says truthy")
    except InvalidDefinition as e:
        bad.append(f"{expr!r}: rejected: {e}")
if bad:
    print("C08 VIOLATED (recorded finding R7):", "; ".join(bad))
    sys.exit(1)
print("ok")
