"""Contracts of statemachine/callbacks.py (registry -> executor -> wrapper -> user callable)."""
from __future__ import annotations

import z3

from pyvc.core import B, EXC_CODE, Exc, I, NONE, NoneV, O, S, T, Int, Bool, Str, ref_of, truthy, FIRST_ADDR
from pyvc.execu import Contract, LoopSpec, register

from .model import (
    CBQ, ENV_MODIFIES, GK_ALL, GK_CALL, W, env_effect, kw_state, locked, mstate, others_kept,
    prefix_kept, qarr, qh, qt, rtc, wf_world, AsyncBinding, reg_has, reg_exec, group_empty, exec_len,
)


def glog_record(s0, s, key, kwargs, kind):
    g0 = s0.g("ng")
    rl = z3.And(rtc(s0), locked(s0))
    return {
        "glog:key": z3.Select(s.g("g_key"), g0) == key,
        "glog:model-state-at-start": z3.Select(s.g("g_ms"), g0) == mstate(s0),
        "glog:kwargs-state-at-start": z3.Select(s.g("g_ks"), g0) == kw_state(s0, kwargs),
        "glog:kind": z3.Select(s.g("g_kind"), g0) == kind,
        "glog:rtc-one-record": z3.Implies(rl, s.g("ng") == g0 + 1),
        "glog:grows": s.g("ng") >= g0 + 1,
    }


def untouched(s0, s):
    """Engine-visible state and both logs exactly as before."""
    return z3.And(qh(s) == qh(s0), qt(s) == qt(s0), qarr(s) == qarr(s0), mstate(s) == mstate(s0),
                  s.g("ntrig") == s0.g("ntrig"), s.g("ng") == s0.g("ng"), s.g("ncb") == s0.g("ncb"))


def nothing_happens(s0, s):
    """No callback ran: engine-visible state is exactly as before (apart from the log record)."""
    return z3.And(qh(s) == qh(s0), qt(s) == qt(s0), qarr(s) == qarr(s0), mstate(s) == mstate(s0),
                  s.g("ntrig") == s0.g("ntrig"), s.g("ng") == s0.g("ng") + 1)


class RegCall(Contract):
    """CallbacksRegistry.call(key, *args, **kwargs): run the action group registered under `key`.
    One group-level log record; the callbacks themselves obey EnvCB."""

    qualnames = [CBQ + "CallbacksRegistry.call"]
    params = [("self", "CallbacksRegistry"), ("key", "str"), ("*args", "tuple"), ("**kwargs", "dict[str,Val]")]
    returns = "list[Val]"
    raises = True
    modifies = ENV_MODIFIES
    properties = ["C02", "C04", "C14"]
    kind = GK_CALL

    def pre(self, s, a):
        f = dict(wf_world(s))
        f["self-is-registry"] = a.self.e == W.REG
        f["registry-wf"] = wf_registry(s)
        f["rtc-implies-lock-held"] = z3.Implies(rtc(s), locked(s))
        f["kwargs-is-not-the-registry"] = a.kwargs.e != W.REGD
        return f

    def ghost_entry(self, path, a):
        g = path.hget("ghost.ng")
        s = path.view()
        path.hset("ghost.g_key", z3.Store(path.hget("ghost.g_key"), g, a.key.e))
        path.hset("ghost.g_ms", z3.Store(path.hget("ghost.g_ms"), g, mstate(s)))
        path.hset("ghost.g_ks", z3.Store(path.hget("ghost.g_ks"), g, kw_state(s, a.kwargs)))
        path.hset("ghost.g_kind", z3.Store(path.hget("ghost.g_kind"), g, z3.IntVal(self.kind)))
        path.hset("ghost.ng", g + 1)

    def ghost_exit(self, path, a, r):
        g0 = path.run.init_heap_value("ghost.ng")
        path.hset("ghost.g_res", z3.Store(path.hget("ghost.g_res"), g0, path.sel("list.arr", r.e)))
        path.hset("ghost.g_reslen", z3.Store(path.hget("ghost.g_reslen"), g0, path.sel("list.len", r.e)))

    def post(self, s0, s, a, r):
        g0 = s0.g("ng")
        k = z3.Const("k!rc", Int)
        f = glog_record(s0, s, a.key.e, a.kwargs, self.kind)
        f.update(env_effect(s0, s))
        f.update({
            "result:fresh-list": z3.And(r.e >= s0["ghost.alloc"], r.e < s["ghost.alloc"], s.sel("list.len", r) >= 0),
            "result:logged": z3.And(z3.Select(s.g("g_reslen"), g0) == s.sel("list.len", r),
                                    z3.Select(s.g("g_res"), g0) == s.sel("list.arr", r)),
            "result:never-the-private-sentinel": z3.ForAll([k], z3.Implies(
                z3.And(k >= 0, k < s.sel("list.len", r)), z3.Select(s.sel("list.arr", r), k) != W.SENT)),
            "C04|a-failing-callback-is-not-swallowed": none_swallowed(s0, s),
            "empty-group:no-callback-runs": z3.Implies(group_empty(s0, a.key.e), z3.And(
                s.sel("list.len", r) == 0, nothing_happens(s0, s))),
        })
        return f

    def exc_post(self, s0, s, a, x):
        f = glog_record(s0, s, a.key.e, a.kwargs, self.kind)
        f.update(env_effect(s0, s))
        f["empty-group:cannot-raise"] = z3.Not(group_empty(s0, a.key.e))
        return f


@register
class SyncRegCall(RegCall):
    pass


@register
class AsyncRegCall(AsyncBinding, RegCall):
    qualnames = [CBQ + "CallbacksRegistry.async_call"]


class RegAll(Contract):
    """CallbacksRegistry.all(key, ...): conjunction of the guard group registered under `key`."""

    qualnames = [CBQ + "CallbacksRegistry.all"]
    params = RegCall.params
    returns = "bool"
    raises = True
    modifies = ENV_MODIFIES
    properties = ["C01", "C04", "C08"]
    kind = GK_ALL

    pre = RegCall.pre
    ghost_entry = RegCall.ghost_entry

    def ghost_exit(self, path, a, r):
        g0 = path.run.init_heap_value("ghost.ng")
        path.hset("ghost.g_ok", z3.Store(path.hget("ghost.g_ok"), g0, r.e))

    def post(self, s0, s, a, r):
        g0 = s0.g("ng")
        f = glog_record(s0, s, a.key.e, a.kwargs, self.kind)
        f.update(env_effect(s0, s))
        f["result:logged"] = z3.Select(s.g("g_ok"), g0) == r.e
        f["C04|a-failing-guard-is-not-swallowed"] = none_swallowed(s0, s)
        f["empty-group:true-and-no-callback-runs"] = z3.Implies(
            group_empty(s0, a.key.e), z3.And(r.e, nothing_happens(s0, s)))
        return f

    exc_post = RegCall.exc_post


@register
class SyncRegAll(RegAll):
    pass


@register
class AsyncRegAll(AsyncBinding, RegAll):
    qualnames = [CBQ + "CallbacksRegistry.async_all"]


# =========================================================================== class tables
from pyvc.core import A_II, ClassModel, MethodSpec, declare_ghost  # noqa: E402
from .model import C, INL  # noqa: E402

from .model import CB_LOG, exec_wf, wrapper_wf, wf_registry  # noqa: E402

CB_MODIFIES = ENV_MODIFIES

# oracles of user code, indexed by the invocation number (every invocation may behave differently)
CB_RAW = z3.Function("CB_RAW", Int, Int)  # what invocation #c of a user callable returned
CB_FINAL = z3.Function("CB_FINAL", Int, Int)  # ... and what awaiting that yields (itself if not awaitable)
AWAITABLE = z3.Function("AWAITABLE", Int, Bool)
CB_RAISES = z3.Function("CB_RAISES", Int, Bool)  # invocation #c raised (at the call or when awaited)
COND = z3.Function("COND", Int, Int, Bool)  # spec.cond(event=...) — a pure function of the event
CNT = z3.Function("CNT", Int, Int, Int, Int)  # CNT(executor, event, j): #applicable wrappers among the first j

ClassModel(
    "CallbacksExecutor",
    fields={"items": "deque[CallbackWrapper]", "items_already_seen": "sset"},
    iter_fn=lambda ex, path, v: O(path.sel("CallbacksExecutor.items", v.e), "deque[CallbackWrapper]"),
    methods={
        "call": C(CBQ + "CallbacksExecutor.call"),
        "all": C(CBQ + "CallbacksExecutor.all"),
        "async_call": C(CBQ + "CallbacksExecutor.async_call"),
        "async_all": C(CBQ + "CallbacksExecutor.async_all"),
    },
)
ClassModel(
    "CallbackWrapper",
    fields={"_callback": "UserCallable", "_iscoro": "bool", "condition": "CondCallable", "meta": "CallbackSpec",
            "unique_key": "str", "expected_value": "Val"},
    methods={"call": C(CBQ + "CallbackWrapper.call"), "__call__": C(CBQ + "CallbackWrapper.__call__")},
)
from pyvc.models import ctor_from_init  # noqa: E402
from pyvc.core import CLASSES as _CL  # noqa: E402
_CL["CallbacksExecutor"].ctor = ctor_from_init("statemachine.callbacks:CallbacksExecutor", "CallbacksExecutor")
ClassModel("UserCallable", methods={"__call__": C("user:callback")})
ClassModel("CondCallable", methods={"__call__": C("user:condition")})
ClassModel("CallbackSpec", fields={"is_convention": "bool", "expected_value": "Val", "cond": "Opt[CondCallable]",
                                   "priority": "int", "group": "int"})
val_model = __import__("pyvc.core", fromlist=["CLASSES"]).CLASSES["Val"]
val_model.awaitable_fn = lambda path, v: AWAITABLE(v.e)
val_model.methods["__await__"] = C("user:await")


def cb_log_prefix_kept(s0, s):
    c0 = s0.g("ncb")
    return z3.And(s.g("ncb") >= c0, prefix_kept(s0.g("cb_who"), s.g("cb_who"), c0, "cw"),
                  prefix_kept(s0.g("cb_ms"), s.g("cb_ms"), c0, "cm"), prefix_kept(s0.g("cb_ks"), s.g("cb_ks"), c0, "ck"))


def none_swallowed(s0, s, when=None):
    """C04: (RTC) every callback invoked since s0 returned normally — so a normal return of the
    enclosing function means no callback failure was swallowed on the way."""
    c = z3.Const("c!ns", Int)
    rl = z3.And(rtc(s0), locked(s0)) if when is None else when
    return z3.Implies(rl, z3.ForAll([c], z3.Implies(z3.And(c >= s0.g("ncb"), c < s.g("ncb")), z3.Not(CB_RAISES(c))),
                                    patterns=[CB_RAISES(c)]))


def user_effect(s0, s):
    """EnvCB for one invocation of user code, including what it may do to the callback log:
    RTC: nothing (no callback of this machine can run inside a callback); non-RTC: it grows."""
    rl = z3.And(rtc(s0), locked(s0))
    f = dict(env_effect(s0, s))
    f["env:rtc-no-callback-inside-a-callback"] = z3.Implies(rl, z3.And(
        s.g("ncb") == s0.g("ncb"), s.g("cb_who") == s0.g("cb_who"), s.g("cb_ms") == s0.g("cb_ms"),
        s.g("cb_ks") == s0.g("cb_ks"), s.g("ng") == s0.g("ng")))
    f["env:cb-log-prefix-kept"] = cb_log_prefix_kept(s0, s)
    return f


@register
class UserCB(Contract):
    """ORACLE (assumed, DESIGN 3.4): one invocation of a user callable.  It returns CB_RAW(c) for
    the current invocation number c, or raises anything; its effects obey EnvCB."""

    qualnames = ["user:callback"]
    params = [("self", "UserCallable"), ("*args", "tuple"), ("**kwargs", "dict[str,Val]")]
    returns = "Val"
    raises = True
    modifies = CB_MODIFIES
    trusted = True

    def post(self, s0, s, a, r):
        f = user_effect(s0, s)
        c = s0.g("ncb") - 1
        f["oracle:raw-value"] = r.e == CB_RAW(c)
        f["oracle:final-of-non-awaitable"] = z3.Implies(z3.Not(AWAITABLE(CB_RAW(c))), CB_FINAL(c) == CB_RAW(c))
        f["oracle:never-the-private-sentinel"] = z3.And(CB_RAW(c) != W.SENT, CB_FINAL(c) != W.SENT)
        f["oracle:plain-call-returned-so-it-did-not-raise"] = z3.Implies(z3.Not(AWAITABLE(CB_RAW(c))), z3.Not(CB_RAISES(c)))
        return f

    def exc_post(self, s0, s, a, x):
        f = user_effect(s0, s)
        f["oracle:raised"] = CB_RAISES(s0.g("ncb") - 1)
        return f

    def assumptions(self):
        return ["user callbacks, guards, validators and property getters are oracles constrained only by EnvCB"]


@register
class UserAwait(Contract):
    """ORACLE: awaiting the awaitable a user coroutine function returned for invocation #c."""

    qualnames = ["user:await"]
    params = [("self", "Val")]
    returns = "Val"
    raises = True
    modifies = CB_MODIFIES
    trusted = True
    is_async = False

    def post(self, s0, s, a, r):
        f = user_effect(s0, s)
        c = s0.g("ncb") - 1
        f["oracle:final-value"] = z3.Implies(a.self.e == CB_RAW(c), r.e == CB_FINAL(c))
        f["oracle:awaited-to-completion-so-it-did-not-raise"] = z3.Implies(a.self.e == CB_RAW(c), z3.Not(CB_RAISES(c)))
        return f

    def exc_post(self, s0, s, a, x):
        f = user_effect(s0, s)
        f["oracle:raised"] = z3.Implies(a.self.e == CB_RAW(s0.g("ncb") - 1), CB_RAISES(s0.g("ncb") - 1))
        return f


@register
class CondCall(Contract):
    """ORACLE: CallbackWrapper.condition — `allways_true` or `Event.is_same_event`: a pure function
    of the `event` keyword (Event.is_same_event is verified against this shape separately)."""

    qualnames = ["user:condition"]
    params = [("self", "CondCallable"), ("*args", "tuple"), ("**kwargs", "dict[str,Val]")]
    returns = "bool"
    modifies = []
    trusted = True

    def post(self, s0, s, a, r):
        return {"pure-in-event": r.e == COND(a.self.e, z3.Select(s0.sel("dict.val", a.kwargs), z3.StringVal("event")))}


def kw_event(s, kwargs):
    return z3.Select(s.sel("dict.val", kwargs), z3.StringVal("event"))


def conv(s, w, v):
    """What a wrapper returns for raw callback value v: the value itself, or for guards
    bool(value) == expected_value (cond: True, unless: False)."""
    exp = s.sel("CallbackWrapper.expected_value", w)
    from pyvc.core import boxb, TRUE_OBJ
    return z3.If(exp == NONE, v, boxb(truthy(v) == (exp == TRUE_OBJ)))


class WrapperCall(Contract):
    """CallbackWrapper.call / __call__ (C01 expected_value, C02 one log record per invocation,
    C05 awaitable results are awaited before use, C14 the value is the callback's own)."""

    qualnames = [CBQ + "CallbackWrapper.call"]
    params = [("self", "CallbackWrapper"), ("*args", "tuple"), ("**kwargs", "dict[str,Val]")]
    returns = "Val"
    raises = True
    modifies = CB_MODIFIES
    properties = ["C01", "C02", "C04", "C05", "C08", "C14"]

    def pre(self, s, a):
        f = dict(wf_world(s))
        f["wrapper-wf"] = wrapper_wf(s, a.self.e)
        f["rtc-implies-lock-held"] = z3.Implies(rtc(s), locked(s))
        f["kwargs-is-not-the-registry"] = a.kwargs.e != W.REGD
        return f

    def ghost_entry(self, path, a):
        c = path.hget("ghost.ncb")
        s = path.view()
        path.hset("ghost.cb_who", z3.Store(path.hget("ghost.cb_who"), c, a.self.e))
        path.hset("ghost.cb_ms", z3.Store(path.hget("ghost.cb_ms"), c, mstate(s)))
        path.hset("ghost.cb_ks", z3.Store(path.hget("ghost.cb_ks"), c, kw_state(s, a.kwargs)))
        path.hset("ghost.ncb", c + 1)

    def _record(self, s0, s, a):
        c0 = s0.g("ncb")
        rl = z3.And(rtc(s0), locked(s0))
        return {
            "C02|logged-once:who": z3.Select(s.g("cb_who"), c0) == a.self.e,
            "C02|logged-once:model-state": z3.Select(s.g("cb_ms"), c0) == mstate(s0),
            "C02|logged-once:kwargs-state": z3.Select(s.g("cb_ks"), c0) == kw_state(s0, a.kwargs),
            "C02|rtc:exactly-one-record": z3.Implies(rl, z3.And(
                s.g("ncb") == c0 + 1, s.g("cb_who") == z3.Store(s0.g("cb_who"), c0, a.self.e),
                s.g("cb_ms") == z3.Store(s0.g("cb_ms"), c0, mstate(s0)),
                s.g("cb_ks") == z3.Store(s0.g("cb_ks"), c0, kw_state(s0, a.kwargs)),
                s.g("ng") == s0.g("ng"))),
            "cb-log-prefix-kept": cb_log_prefix_kept(s0, s),
        }

    def post(self, s0, s, a, r):
        c0 = s0.g("ncb")
        f = self._record(s0, s, a)
        f.update(env_effect(s0, s))
        f["C01,C08,C14|result-is-the-callbacks-own-value-or-guard-verdict"] = r.e == conv(s0, a.self.e, CB_FINAL(c0))
        f["C03|never-the-private-sentinel"] = r.e != W.SENT
        f["C04|a-failing-callback-is-not-swallowed"] = none_swallowed(s0, s)
        return f

    def exc_post(self, s0, s, a, x):
        f = self._record(s0, s, a)
        f.update(env_effect(s0, s))
        return f


@register
class SyncWrapperCall(WrapperCall):
    def reveal(self, s, a):
        # ENG (DESIGN 3.3): a SyncEngine machine has no coroutine callbacks (has_async_callbacks is
        # False), so what its callbacks return is not awaitable.  C12 records where this breaks.
        c = z3.Const("c!sw", Int)
        return {"sync-engine-callbacks-return-plain-values": z3.ForAll([c], z3.Not(AWAITABLE(CB_RAW(c))))}


@register
class AsyncWrapperCall(AsyncBinding, WrapperCall):
    qualnames = [CBQ + "CallbackWrapper.__call__"]


# =========================================================================== CallbacksExecutor
def exec_items(s, ex):
    """(item(j), n, deque ref) of a CallbacksExecutor."""
    dq = s.sel("CallbacksExecutor.items", ex)
    arr, h, t = s.sel("deque.arr", dq), s.sel("deque.head", dq), s.sel("deque.tail", dq)
    return (lambda j: z3.Select(arr, h + j)), t - h, dq


def exec_abs(s, ex):
    """(arr, head, tail) of the executor's deque: items are arr[p] for head <= p < tail."""
    dq = s.sel("CallbacksExecutor.items", ex)
    return s.sel("deque.arr", dq), s.sel("deque.head", dq), s.sel("deque.tail", dq)


def cnt_definition(s, ex, ev):
    """CNT(ex, ev, p) = number of wrappers at deque positions [head, p) whose condition holds for ev."""
    arr, h, t = exec_abs(s, ex)
    p = z3.Const("p!cnt", Int)
    cp = COND(s.sel("CallbackWrapper.condition", z3.Select(arr, p)), ev)
    p1, p2 = z3.Const("p1!cnt", Int), z3.Const("p2!cnt", Int)
    return z3.And(
        CNT(ex, ev, h) == 0,
        z3.ForAll([p], z3.Implies(z3.And(p >= h, p < t),
                                  CNT(ex, ev, p + 1) == CNT(ex, ev, p) + z3.If(cp, 1, 0)),
                  patterns=[CNT(ex, ev, p)]),
        # monotonicity: an inductive consequence of the definition (lemma `cnt-monotone`, whose
        # base and step cases are discharged separately, see lemma_cnt_monotone)
        z3.ForAll([p1, p2], z3.Implies(z3.And(h <= p1, p1 <= p2, p2 <= t), CNT(ex, ev, p1) <= CNT(ex, ev, p2)),
                  patterns=[z3.MultiPattern(CNT(ex, ev, p1), CNT(ex, ev, p2))]))


def lemma_cnt_monotone():
    """Induction on p2 for: h <= p1 <= p2 <= t  =>  CNT(p1) <= CNT(p2), from the recursive
    definition alone (base p2 = p1; step p2 -> p2+1)."""
    from pyvc.core import Obligation
    ex, ev, h, t = z3.Ints("ex!l ev!l h!l t!l")
    p, p1, p2 = z3.Ints("p!l p1!l p2!l")
    cond = z3.Function("applicable!l", Int, Bool)
    defn = z3.ForAll([p], z3.Implies(z3.And(p >= h, p < t),
                                     CNT(ex, ev, p + 1) == CNT(ex, ev, p) + z3.If(cond(p), 1, 0)),
                     patterns=[CNT(ex, ev, p)])
    base = Obligation("lemma:cnt-monotone/base", "lemma", "lemma", [defn, p1 >= h, p1 <= t],
                      CNT(ex, ev, p1) <= CNT(ex, ev, p1))
    step = Obligation("lemma:cnt-monotone/step", "lemma", "lemma",
                      [defn, h <= p1, p1 <= p2, p2 + 1 <= t, CNT(ex, ev, p1) <= CNT(ex, ev, p2)],
                      CNT(ex, ev, p1) <= CNT(ex, ev, p2 + 1))
    return [base, step]


class ExecCall(Contract):
    """CallbacksExecutor.call / async_call (C02: every applicable callback exactly once, in
    executor order; C14: the list of their own return values)."""

    qualnames = [CBQ + "CallbacksExecutor.call"]
    params = [("self", "CallbacksExecutor"), ("*args", "tuple"), ("**kwargs", "dict[str,Val]")]
    returns = "list[Val]"
    raises = True
    modifies = CB_MODIFIES
    properties = ["C02", "C04", "C05", "C12", "C14"]

    def pre(self, s, a):
        f = dict(wf_world(s))
        f["executor-wf"] = exec_wf(s, a.self.e)
        f["rtc-implies-lock-held"] = z3.Implies(rtc(s), locked(s))
        f["kwargs-is-not-the-registry"] = a.kwargs.e != W.REGD
        return f

    def reveal(self, s, a):
        return {"CNT-definition": cnt_definition(s, a.self.e, kw_event(s, a.kwargs))}

    def _applied(self, s0, s, a, upto, lst):
        """Wrappers among the first `upto` whose condition holds were each invoked once, in order,
        seeing the state of entry; `lst` holds their values at the matching positions."""
        arr, h, t = exec_abs(s0, a.self.e)
        ev = kw_event(s0, a.kwargs)
        c0 = s0.g("ncb")
        p = z3.Const("p!ap", Int)
        w = z3.Select(arr, p)
        pos = CNT(a.self.e, ev, p)
        applicable = COND(s0.sel("CallbackWrapper.condition", w), ev)
        facts = [z3.Select(s.g("cb_who"), c0 + pos) == w,
                 z3.Select(s.g("cb_ms"), c0 + pos) == mstate(s0),
                 z3.Select(s.g("cb_ks"), c0 + pos) == kw_state(s0, a.kwargs)]
        if lst is not None:
            facts.append(z3.Select(s.sel("list.arr", lst), pos) == conv(s0, w, CB_FINAL(c0 + pos)))
        return z3.ForAll([p], z3.Implies(z3.And(p >= h, p < h + upto, applicable), z3.And(*facts)),
                         patterns=[CNT(a.self.e, ev, p)])

    def post(self, s0, s, a, r):
        item, n, _ = exec_items(s0, a.self.e)
        ev = kw_event(s0, a.kwargs)
        c0 = s0.g("ncb")
        rl = z3.And(rtc(s0), locked(s0))
        k = z3.Const("k!ec", Int)
        m = CNT(a.self.e, ev, exec_abs(s0, a.self.e)[2])
        f = dict(env_effect(s0, s))
        f["cb-log-prefix-kept"] = cb_log_prefix_kept(s0, s)
        f["result:fresh-list"] = z3.And(r.e >= s0["ghost.alloc"], r.e < s["ghost.alloc"], s.sel("list.len", r) >= 0)
        f["C03|result:never-the-private-sentinel"] = z3.ForAll([k], z3.Implies(
            z3.And(k >= 0, k < s.sel("list.len", r)), z3.Select(s.sel("list.arr", r), k) != W.SENT))
        f["C02,C12|rtc:exactly-the-applicable-callbacks-once-each"] = z3.Implies(rl, z3.And(
            s.g("ncb") == c0 + m, s.g("ng") == s0.g("ng")))
        f["C02,C12|rtc:in-executor-order-with-entry-state"] = z3.Implies(rl, self._applied(s0, s, a, n, None))
        f["C14|rtc:result-is-their-values-in-order"] = z3.Implies(rl, z3.And(
            s.sel("list.len", r) == m, self._applied(s0, s, a, n, r.e)))
        f["C04|a-failing-callback-is-not-swallowed"] = none_swallowed(s0, s)
        f["C11|empty-executor:nothing-happens"] = z3.Implies(n == 0, z3.And(
            s.sel("list.len", r) == 0, untouched(s0, s)))
        return f

    def exc_post(self, s0, s, a, x):
        f = dict(env_effect(s0, s))
        f["cb-log-prefix-kept"] = cb_log_prefix_kept(s0, s)
        f["rtc:no-group-record"] = z3.Implies(z3.And(rtc(s0), locked(s0)), s.g("ng") == s0.g("ng"))
        f["C11|empty-executor:cannot-raise"] = exec_items(s0, a.self.e)[1] != 0
        return f

    def _inv(self, s0, s, a, l):
        ev = kw_event(s0, a.kwargs)
        c0 = s0.g("ncb")
        rl = z3.And(rtc(s0), locked(s0))
        acc = l.acc.e
        k = z3.Const("k!ei", Int)
        ci = CNT(a.self.e, ev, exec_abs(s0, a.self.e)[1] + l.i)
        f = dict(env_effect(s0, s))
        f["cb-log-prefix-kept"] = cb_log_prefix_kept(s0, s)
        f["count-bounds"] = z3.And(ci >= 0, ci <= l.i)
        f["acc:fresh"] = z3.And(acc >= s0["ghost.alloc"], acc < s["ghost.alloc"], s.sel("list.len", acc) >= 0)
        f["acc:no-sentinel"] = z3.ForAll([k], z3.Implies(
            z3.And(k >= 0, k < s.sel("list.len", acc)), z3.Select(s.sel("list.arr", acc), k) != W.SENT))
        f["rtc:one-record-per-applicable-callback"] = z3.Implies(rl, z3.And(
            s.g("ncb") == c0 + ci, s.sel("list.len", acc) == ci, s.g("ng") == s0.g("ng")))
        f["rtc:records-in-order"] = z3.Implies(rl, self._applied(s0, s, a, l.i, None))
        f["rtc:values-in-order"] = z3.Implies(rl, self._applied(s0, s, a, l.i, acc))
        f["lock-still-held"] = z3.Implies(rtc(s0), locked(s) == locked(s0))
        f["C04|none-swallowed-so-far"] = none_swallowed(s0, s)
        f["nothing-happens-before-the-first-callback"] = z3.Implies(l.i == 0, z3.And(
            s.sel("list.len", acc) == 0, untouched(s0, s)))
        return f

    @property
    def loops(self):
        return {0: LoopSpec(self._inv, elem="Val")}


@register
class SyncExecCall(ExecCall):
    pass


class ExecAll(Contract):
    """CallbacksExecutor.all / async_all (C01, C08: a transition is enabled iff EVERY guard entry
    gives its expected verdict; sync: evaluated in order up to and including the first failure)."""

    qualnames = [CBQ + "CallbacksExecutor.all"]
    params = ExecCall.params
    returns = "bool"
    raises = True
    modifies = CB_MODIFIES
    properties = ["C01", "C04", "C05", "C08", "C12"]

    pre = ExecCall.pre

    def verdict(self, s0, a, j):
        """verdict of the j-th guard (relative index): its expected verdict on the value of invocation c0+j"""
        arr, h, t = exec_abs(s0, a.self.e)
        return truthy(conv(s0, z3.Select(arr, h + j), CB_FINAL(s0.g("ncb") + j)))

    def _evaluated(self, s0, s, a, upto):
        arr, h, t = exec_abs(s0, a.self.e)
        c0 = s0.g("ncb")
        p = z3.Const("p!ea", Int)
        return z3.ForAll([p], z3.Implies(z3.And(p >= h, p < h + upto), z3.And(
            z3.Select(s.g("cb_who"), c0 + (p - h)) == z3.Select(arr, p), z3.Select(s.g("cb_ms"), c0 + (p - h)) == mstate(s0),
            z3.Select(s.g("cb_ks"), c0 + (p - h)) == kw_state(s0, a.kwargs))), patterns=[z3.Select(arr, p)])

    def _all_pass(self, s0, a, upto):
        arr, h, t = exec_abs(s0, a.self.e)
        c0 = s0.g("ncb")
        p = z3.Const("p!eap", Int)
        return z3.ForAll([p], z3.Implies(z3.And(p >= h, p < h + upto),
                                         truthy(conv(s0, z3.Select(arr, p), CB_FINAL(c0 + (p - h))))),
                         patterns=[z3.Select(arr, p)])

    def post(self, s0, s, a, r):
        item, n, _ = exec_items(s0, a.self.e)
        c0 = s0.g("ncb")
        rl = z3.And(rtc(s0), locked(s0))
        m = s.g("ncb") - c0
        f = dict(env_effect(s0, s))
        f["cb-log-prefix-kept"] = cb_log_prefix_kept(s0, s)
        f["C01,C08|rtc:enabled-iff-every-guard-gives-its-expected-verdict"] = z3.Implies(
            rl, r.e == self._all_pass(s0, a, n))
        f["C04|a-failing-guard-is-not-swallowed"] = none_swallowed(s0, s)
        f["C11|empty-executor:true-and-nothing-happens"] = z3.Implies(n == 0, z3.And(r.e, untouched(s0, s)))
        f["C01,C02|rtc:evaluated-in-order-up-to-first-failure"] = z3.Implies(rl, z3.And(
            m >= 0, m <= n, self._evaluated(s0, s, a, m), self._all_pass(s0, a, m - 1),
            z3.Implies(r.e, m == n), z3.Implies(z3.Not(r.e), z3.And(m >= 1, z3.Not(self.verdict(s0, a, m - 1)))),
            s.g("ng") == s0.g("ng")))
        return f

    exc_post = ExecCall.exc_post

    def _inv(self, s0, s, a, l):
        c0 = s0.g("ncb")
        rl = z3.And(rtc(s0), locked(s0))
        f = dict(env_effect(s0, s))
        f["cb-log-prefix-kept"] = cb_log_prefix_kept(s0, s)
        f["rtc:one-record-per-guard"] = z3.Implies(rl, z3.And(s.g("ncb") == c0 + l.i, s.g("ng") == s0.g("ng")))
        f["rtc:evaluated-in-order"] = z3.Implies(rl, self._evaluated(s0, s, a, l.i))
        f["rtc:all-so-far-passed"] = z3.Implies(rl, self._all_pass(s0, a, l.i))
        f["lock-still-held"] = z3.Implies(rtc(s0), locked(s) == locked(s0))
        f["C04|none-swallowed-so-far"] = none_swallowed(s0, s)
        f["nothing-happens-before-the-first-guard"] = z3.Implies(l.i == 0, untouched(s0, s))
        return f

    @property
    def loops(self):
        return {0: LoopSpec(self._inv)}


@register
class SyncExecAll(ExecAll):
    pass


@register
class AsyncExecCall(AsyncBinding, ExecCall):
    qualnames = [CBQ + "CallbacksExecutor.async_call"]


@register
class AsyncExecAll(AsyncBinding, ExecAll):
    """Same contract as the sync `all`.  Loop 0 is the list of started guard coroutines, loop 1
    the as_completed loop that awaits them."""

    qualnames = [CBQ + "CallbacksExecutor.async_all"]

    @property
    def loops(self):
        return {0: LoopSpec(None, coro_list=True), 1: LoopSpec(self._inv)}


# =========================================================================== CallbacksRegistry.check
KEY = z3.Function("KEY", Int, Int, Str)  # CallbackGroup.build_key: f"{group.name}@{id(specs)}" (injective, assumed)


from pyvc.models import model as _model  # noqa: E402


@_model
def group_build_key(ex, path, recv, ca, node):
    return [(path, S(KEY(recv.e, ref_of(ca.pos[0]))))]


ClassModel("CallbackGroup", methods={"build_key": group_build_key})
_CL["CallbackSpec"].fields.update({"func": "Val", "names_not_found": "Val"})
_CL["CallbackSpec"].fields["group"] = "CallbackGroup"
from pyvc.core import HEAP_SORTS as _HS  # noqa: E402
for _f in ("func", "names_not_found"):
    _HS.setdefault("CallbackSpec." + _f, z3.ArraySort(Int, Int))


def spec_eq(ex, path, a, b):
    """CallbackSpec.__eq__: the real body (func and group)."""
    outs = ex.call_inline(path, CBQ + "CallbackSpec.__eq__", a, __import__("pyvc.execu", fromlist=["CallArgs"]).CallArgs([b], {}))
    from pyvc.core import truth_of
    return [(p, r if isinstance(r, __import__("pyvc.execu", fromlist=["Raise"]).Raise) else truth_of(p, r)) for p, r in outs]


_CL["CallbackSpec"].eq_fn = spec_eq
_CL["CallbackSpecList"].iter_fn = lambda ex, path, v: O(path.sel("CallbackSpecList.items", v.e), "list[CallbackSpec]")
_CL["CallbacksRegistry"].methods["__getitem__"] = INL(CBQ + "CallbacksRegistry.__getitem__")
_CL["CallbacksRegistry"].methods["check"] = C(CBQ + "CallbacksRegistry.check")
from pyvc.execu import CONTRACTS as _CT  # noqa: E402
_CT[CBQ + "CallbacksRegistry.__getitem__"] = type("InlGetitem", (Contract,), {"qualnames": [CBQ + "CallbacksRegistry.__getitem__"], "inline": True})()


def same_spec(s, x, y):
    """What CallbackSpec.__eq__ decides: same func and same group."""
    return z3.And(s.sel("CallbackSpec.func", x) == s.sel("CallbackSpec.func", y),
                  s.sel("CallbackSpec.group", x) == s.sel("CallbackSpec.group", y))


def spec_resolved(s, specs, sp):
    """Some wrapper registered under the spec's (group, list) key was built from an equal spec."""
    key = KEY(s.sel("CallbackSpec.group", sp), specs)
    ex = reg_exec(s, key)
    arr, h, t = exec_abs(s, ex)
    p = z3.Const("p!sr", Int)
    return z3.And(reg_has(s, key), z3.Exists([p], z3.And(
        p >= h, p < t, same_spec(s, s.sel("CallbackWrapper.meta", z3.Select(arr, p)), sp))))


@register
class RegistryCheck(Contract):
    """CallbacksRegistry.check(specs) (C08): a spec that is not a naming-convention default and for
    which nothing was registered (unknown name, or an expression naming something no provider has)
    raises AttrNotFound — an InvalidDefinition — when the machine is instantiated."""

    qualnames = [CBQ + "CallbacksRegistry.check"]
    params = [("self", "CallbacksRegistry"), ("specs", "CallbackSpecList")]
    returns = "None"
    raises = True
    exc_classes = ["AttrNotFound"]
    modifies = ["dict.has", "dict.val", "CallbacksExecutor.items+", "CallbacksExecutor.items_already_seen+",
                "deque.arr+", "deque.head+", "deque.tail+", "set.has+", "list.arr+", "list.len+"]
    properties = ["C08"]

    def pre(self, s, a):
        f = dict(wf_world(s))
        f["self-is-registry"] = a.self.e == W.REG
        f["registry-wf"] = wf_registry(s)
        lst = s.sel("CallbackSpecList.items", a.specs.e)
        k = z3.Const("k!rcp", Int)
        f["specs-valid"] = z3.And(lst >= FIRST_ADDR, lst < s["ghost.alloc"], z3.ForAll([k], z3.Implies(
            z3.And(k >= 0, k < s.sel("list.len", lst)), z3.And(z3.Select(s.sel("list.arr", lst), k) >= FIRST_ADDR,
                                                             z3.Select(s.sel("list.arr", lst), k) < s["ghost.alloc"]))))
        return f

    def _unresolved(self, s0, a, upto=None):
        lst = s0.sel("CallbackSpecList.items", a.specs.e)
        arr, n = s0.sel("list.arr", lst), s0.sel("list.len", lst)
        k = z3.Const("k!ru", Int)
        sp = z3.Select(arr, k)
        return z3.Exists([k], z3.And(k >= 0, k < (n if upto is None else upto),
                                     z3.Not(s0.sel("CallbackSpec.is_convention", sp)), z3.Not(spec_resolved(s0, a.specs.e, sp))))

    def post(self, s0, s, a, r):
        return {"C08|accepted-only-if-every-explicit-spec-was-resolved": z3.Not(self._unresolved(s0, a))}

    def exc_post(self, s0, s, a, x):
        return {"C08|rejected-only-for-an-unresolved-explicit-spec": self._unresolved(s0, a)}

    def _inv_outer(self, s0, s, a, l):
        from .model import registry_monotone
        kk = z3.Const("kk!rio", Str)
        a0, h0, t0 = exec_abs(s0, reg_exec(s0, kk))
        a1, h1, t1 = exec_abs(s, reg_exec(s, kk))
        return {"C08|none-unresolved-so-far": z3.Not(self._unresolved(s0, a, l.i)),
                "registered-executors-unchanged": z3.ForAll([kk], z3.Implies(reg_has(s0, kk), z3.And(
                    reg_has(s, kk), reg_exec(s, kk) == reg_exec(s0, kk), a1 == a0, h1 == h0, t1 == t0)),
                    patterns=[reg_has(s, kk)]),
                "new-groups-are-empty": z3.ForAll([kk], z3.Implies(z3.And(z3.Not(reg_has(s0, kk)), reg_has(s, kk)), t1 == h1),
                                                  patterns=[reg_has(s, kk)]),
                "registry-only-gains-empty-groups": registry_monotone(s0, s),
                "executors-kept": z3.And(others_kept("deque.arr", s0, s, NONE), others_kept("deque.head", s0, s, NONE),
                                         others_kept("deque.tail", s0, s, NONE), s["CallbackWrapper.meta"] == s0["CallbackWrapper.meta"])}

    def _inv_any(self, s0, s, a, l):
        p = z3.Const("p!ria", Int)
        key = KEY(s0.sel("CallbackSpec.group", l.meta.e), a.specs.e)
        arr, h, t = exec_abs(s, reg_exec(s, key))
        return {"iterating-the-registered-executor": z3.And(l.n == t - h, l.i >= 0, reg_has(s, key),
                                                            z3.Implies(l.i < l.n, l.seq(l.i) == z3.Select(arr, h + l.i))),
                "C08|no-equal-spec-among-the-first-i": z3.ForAll([p], z3.Implies(
                    z3.And(p >= h, p < h + l.i), z3.Not(same_spec(s0, s0.sel("CallbackWrapper.meta", z3.Select(arr, p)), l.meta.e))),
                    patterns=[z3.Select(arr, p)])}

    @property
    def loops(self):
        lm = ["dict.has", "dict.val", "CallbacksExecutor.items+", "CallbacksExecutor.items_already_seen+", "deque.arr+",
              "deque.head+", "deque.tail+", "set.has+", "list.arr+", "list.len+"]
        return {0: LoopSpec(self._inv_outer, modifies=lm), 1: LoopSpec(self._inv_any, modifies=[])}
