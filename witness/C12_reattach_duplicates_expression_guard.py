"""C12 witness (#13): attaching a constructor listener again with add_listener must not duplicate its
calls; for a guard referenced through a boolean-expression-capable cond the key depends on the set
of providers, so the guard is registered (and called) twice.  Exit 1 while present."""
import sys
import warnings
from statemachine import State, StateMachine

warnings.simplefilter("ignore")
calls = []


class Guard:
    def allowed(self):
        calls.append("allowed")
        return True


class M(StateMachine):
    a = State(initial=True)
    b = State()
    go = a.to(b, cond="allowed")
    back = b.to(a)

    def allowed(self):
        return True


g = Guard()
sm = M(listeners=[g])
sm.add_listener(g)
calls.clear()
sm.go()
if calls.count("allowed") != 1:
    print(f"C12 VIOLATED (recorded finding): listener guard called {calls.count('allowed')} times after re-attaching the listener")
    sys.exit(1)
print("ok")
