"""Contracts of statemachine/signature.py (C07): SignatureAdapter.bind_expected against a spec
written from the property, plus EventData.extended_kwargs (built-ins win over user kwargs)."""
from __future__ import annotations

import z3

from pyvc.core import (
    B, CLASSES, EXC_CODE, Exc, I, NONE, NoneV, O, Py, S, T, Int, Bool, Str, ref_of, truthy, FIRST_ADDR,
    ClassModel, MethodSpec, Unsupported, fresh,
)
from pyvc.execu import CONTRACTS, GLOBAL_NAMES, CallArgs, Contract, LoopSpec, Raise, register
from pyvc.models import model

from .model import C, INL, valid_obj

SQ = "statemachine.signature:SignatureAdapter."
PO, PK, VP, KO, VK = 0, 1, 2, 3, 4  # inspect._ParameterKind values
EMPTY = z3.Int("PARAM_EMPTY")  # inspect.Parameter.empty

ClassModel("Parameter", fields={"kind": "int", "name": "str", "default": "Val"},
           py_fields={"POSITIONAL_ONLY": I(z3.IntVal(PO)), "POSITIONAL_OR_KEYWORD": I(z3.IntVal(PK)),
                      "VAR_POSITIONAL": I(z3.IntVal(VP)), "KEYWORD_ONLY": I(z3.IntVal(KO)),
                      "VAR_KEYWORD": I(z3.IntVal(VK)), "empty": O(EMPTY, "Val")})
GLOBAL_NAMES["Parameter"] = Py(("class", "Parameter"))


@model
def parammap_values(ex, path, recv, ca, node):
    return [(path, O(path.sel("ParamMap.order", recv.e), "list[Parameter]"))]


ClassModel("ParamMap", fields={"order": "list[Parameter]"}, methods={"values": parammap_values})
ClassModel("SignatureAdapter", fields={"parameters": "ParamMap", "is_coroutine": "bool"})
ba = ClassModel("BoundArguments", fields={"signature": "SignatureAdapter", "arguments": "dict[str,Val]"})


def ba_ctor(ex, path, ca, node):
    o = path.alloc("BoundArguments", "ba")
    path.store("BoundArguments.signature", o.e, ref_of(ca.pos[0]))
    path.store("BoundArguments.arguments", o.e, ref_of(ca.pos[1]))
    return [(path, o)]


ba.ctor = ba_ctor
GLOBAL_NAMES["BoundArguments"] = Py(("class", "BoundArguments"))


class Sig:
    """Accessors over the entry state."""

    def __init__(self, s0, a):
        self.s0, self.a = s0, a
        order = s0.sel("ParamMap.order", s0.sel("SignatureAdapter.parameters", a.self.e))
        self.order = order
        self.P, self.np = s0.sel("list.arr", order), s0.sel("list.len", order)
        self.A, self.na = s0.sel("list.arr", a.args.e), s0.sel("list.len", a.args.e)
        self.has0, self.val0 = s0.sel("dict.has", a.kwargs.e), s0.sel("dict.val", a.kwargs.e)

    def p(self, j):
        return z3.Select(self.P, j)

    def kind(self, j):
        return self.s0.sel("Parameter.kind", self.p(j))

    def name(self, j):
        return self.s0.sel("Parameter.name", self.p(j))

    def in_kw(self, j):
        return z3.Select(self.has0, self.name(j))

    def kwval(self, j):
        return z3.Select(self.val0, self.name(j))

    def arg(self, j):
        return z3.Select(self.A, j)

    def filled_positionally(self, j):
        """Parameter j is a positional slot that a positional argument reaches."""
        return z3.And(self.kind(j) <= PK, j < self.na)


def valid_sig(s0, a):
    """inspect.Signature validity (checked by inspect itself): kinds in the order PO* PK* [VP] KO*
    [VK], names pairwise distinct, at most one *args and one **kwargs."""
    g = Sig(s0, a)
    j, j2 = z3.Const("j!vs", Int), z3.Const("j2!vs", Int)
    return z3.And(
        g.np >= 0, g.na >= 0, valid_obj(s0, g.order), a.kwargs.e != a.args.e,
        z3.ForAll([j], z3.Implies(z3.And(j >= 0, j < g.np), z3.And(g.kind(j) >= PO, g.kind(j) <= VK, valid_obj(s0, g.p(j))))),
        z3.ForAll([j, j2], z3.Implies(z3.And(0 <= j, j < j2, j2 < g.np), z3.And(
            g.kind(j) <= g.kind(j2), g.name(j) != g.name(j2), g.p(j) != g.p(j2),
            z3.Implies(g.kind(j) == VP, g.kind(j2) > VP), g.kind(j) != VK))),
    )


@register
class BindExpected(Contract):
    """SignatureAdapter.bind_expected(*args, **kwargs) (C07).  Spec, from the property ("slot"
    reading, the one the repository's own table pins): a positional parameter reached by a
    positional argument takes the same-named keyword if there is one (and it may be passed by
    keyword), else that argument; every other named parameter takes its same-named keyword if
    present; nothing that is not a parameter name is ever bound; the only TypeError is a
    positional-only parameter given by keyword."""

    qualnames = [SQ + "bind_expected"]
    params = [("self", "SignatureAdapter"), ("*args", "list[Val]"), ("**kwargs", "dict[str,Val]")]
    returns = "BoundArguments"
    raises = True
    exc_classes = ["TypeError"]
    modifies = ["dict.has", "dict.val", "iter.arr+", "iter.pos+", "iter.len+", "list.arr+", "list.len+",
                "BoundArguments.signature+", "BoundArguments.arguments+"]
    properties = ["C07"]
    local_types = {}

    def pre(self, s, a):
        return {"valid-signature": valid_sig(s, a)}

    # ---- the spec ---------------------------------------------------------------------------
    def post(self, s0, s, a, r):
        g = Sig(s0, a)
        d = s.sel("BoundArguments.arguments", r.e)
        has, val = s.sel("dict.has", d), s.sel("dict.val", d)
        j, j2 = z3.Const("j!bp", Int), z3.Const("j2!bp", Int)
        key = z3.Const("key!bp", Str)
        inr = z3.And(j >= 0, j < g.np)
        bound = lambda jj: z3.Select(has, g.name(jj))  # noqa: E731
        value = lambda jj: z3.Select(val, g.name(jj))  # noqa: E731
        return {
            "C07|a-fresh-binding-object-of-this-signature": z3.And(r.e >= s0["ghost.alloc"], r.e < s["ghost.alloc"],
                                                                   s.sel("BoundArguments.signature", r.e) == a.self.e),
            "C07|positional-slot:keyword-if-given-else-the-positional-argument": z3.ForAll([j], z3.Implies(
                z3.And(inr, g.filled_positionally(j)),
                z3.And(bound(j), value(j) == z3.If(z3.And(g.in_kw(j), g.kind(j) != PO), g.kwval(j), g.arg(j))))),
            "C07|named-parameter-receives-its-same-named-keyword": z3.ForAll([j], z3.Implies(
                z3.And(inr, z3.Or(g.kind(j) == PK, g.kind(j) == KO), z3.Not(g.filled_positionally(j)), g.in_kw(j)),
                z3.And(bound(j), value(j) == g.kwval(j)))),
            "C07|named-parameter-without-data-stays-unbound": z3.ForAll([j], z3.Implies(
                z3.And(inr, z3.Or(g.kind(j) == PK, g.kind(j) == KO, g.kind(j) == PO), z3.Not(g.filled_positionally(j)),
                       z3.Not(g.in_kw(j))), z3.Not(bound(j)))),
            "C07|nothing-undeclared-is-bound": z3.ForAll([key], z3.Implies(
                z3.Select(has, key), z3.Exists([j], z3.And(inr, g.name(j) == key)))),
            "C07|var-positional-gets-the-surplus-only-if-there-is-one": z3.ForAll([j], z3.Implies(
                z3.And(inr, g.kind(j) == VP), bound(j) == (g.na > j))),
            # the property's literal words: "remaining positional parameters receive the event's
            # positional arguments in order" — so an argument that reaches a positional slot is
            # received by SOME parameter.  The code (and tests/test_signature.py) drop it when the
            # slot is taken by a same-named keyword/built-in: recorded finding R2.
            "C07|literal:a-positional-argument-that-reaches-a-slot-is-received-by-some-parameter": z3.ForAll([j], z3.Implies(
                z3.And(inr, g.filled_positionally(j)),
                z3.Exists([j2], z3.And(j2 >= 0, j2 < g.np, bound(j2), value(j2) == g.arg(j))))),
        }

    def exc_post(self, s0, s, a, x):
        g = Sig(s0, a)
        j = z3.Const("j!bx", Int)
        return {"C07|TypeError-only-for-a-positional-only-parameter-passed-by-keyword": z3.Exists([j], z3.And(
            j >= 0, j < g.np, g.kind(j) == PO, g.in_kw(j), j >= g.na))}

    # ---- loop 0: walking positional arguments and parameters in lock step ---------------------
    def _kw_consumed(self, g, k, key):
        j = z3.Const("j!kc", Int)
        return z3.Exists([j], z3.And(j >= 0, j < k, g.name(j) == key, g.kind(j) == PK, g.in_kw(j)))

    def _inv0(self, s0, s, a, l):
        g = Sig(s0, a)
        pit, ait = l.parameters.e, l.arg_vals.e
        k = s.sel("iter.pos", pit)
        d = l.arguments.e
        has, val = s.sel("dict.has", d), s.sel("dict.val", d)
        khas, kval = s.sel("dict.has", a.kwargs.e), s.sel("dict.val", a.kwargs.e)
        j = z3.Const("j!i0", Int)
        key = z3.Const("key!i0", Str)
        return {
            "iterators-in-lock-step": z3.And(
                s.sel("iter.pos", ait) == k, k >= 0, k <= g.np, k <= g.na, pit != ait,
                s.sel("iter.len", pit) == g.np, s.sel("iter.len", ait) == g.na,
                z3.ForAll([j], z3.Implies(z3.And(j >= 0, j < g.np), z3.Select(s.sel("iter.arr", pit), j) == g.p(j))),
                z3.ForAll([j], z3.Implies(z3.And(j >= 0, j < g.na), z3.Select(s.sel("iter.arr", ait), j) == g.arg(j)))),
            "objects-distinct": z3.And(d != a.kwargs.e, d >= s0["ghost.alloc"], valid_obj(s, pit), valid_obj(s, ait)),
            "consumed-parameters-are-positional": z3.ForAll([j], z3.Implies(z3.And(j >= 0, j < k), g.kind(j) <= PK)),
            "C07|arguments-so-far": z3.And(
                z3.ForAll([key], z3.Implies(z3.Select(has, key), z3.Exists([j], z3.And(j >= 0, j < k, g.name(j) == key))),
                          patterns=[z3.Select(has, key)]),
                z3.ForAll([j], z3.Implies(z3.And(j >= 0, j < k), z3.And(
                    z3.Select(has, g.name(j)),
                    z3.Select(val, g.name(j)) == z3.If(z3.And(g.in_kw(j), g.kind(j) != PO), g.kwval(j), g.arg(j)))),
                    patterns=[g.p(j)])),
            "C07|kwargs-so-far": z3.And(
                kval == g.val0,
                z3.ForAll([key], z3.Implies(z3.Select(khas, key), z3.Select(g.has0, key)), patterns=[z3.Select(khas, key)]),
                z3.ForAll([key], z3.Implies(z3.And(z3.Select(g.has0, key), z3.Not(z3.Select(khas, key))), self._kw_consumed(g, k, key)),
                          patterns=[z3.Select(khas, key)]),
                z3.ForAll([j], z3.Implies(z3.And(j >= 0, j < k, g.kind(j) == PK, g.in_kw(j)), z3.Not(z3.Select(khas, g.name(j)))),
                          patterns=[g.p(j)])),
            "no-kwargs-param-yet": ref_of(l.kwargs_param) == NONE,
        }

    # ---- loop 1: remaining parameters take their keywords -------------------------------------
    def _inv1(self, s0, s, a, l):
        g = Sig(s0, a)
        E = l.at_entry
        d = l.arguments.e
        has, val = s.sel("dict.has", d), s.sel("dict.val", d)
        hasE, valE = E.sel("dict.has", d), E.sel("dict.val", d)
        khas, kval = s.sel("dict.has", a.kwargs.e), s.sel("dict.val", a.kwargs.e)
        khasE = E.sel("dict.has", a.kwargs.e)
        m, j = z3.Const("m!i1", Int), z3.Const("j!i1", Int)
        key = z3.Const("key!i1", Str)
        base = g.np - l.n  # the chain is the suffix P[base:] of the parameter list
        named = lambda jj: z3.And(g.kind(jj) != VP, g.kind(jj) != VK)  # noqa: E731
        done = lambda jj: z3.And(jj >= base, jj < base + l.i)  # noqa: E731
        seen = lambda kk: z3.Exists([j], z3.And(done(j), named(j), g.name(j) == kk))  # noqa: E731
        return {
            "chain-is-a-suffix-of-the-parameter-list": z3.And(base >= 0, z3.ForAll([m], z3.Implies(
                z3.And(m >= 0, m < l.n), l.seq(m) == g.p(base + m)), patterns=[l.seq(m)])),
            "C07|arguments-grow-by-the-keywords-of-the-parameters-seen": z3.And(
                z3.ForAll([key], z3.Implies(z3.Select(has, key), z3.Or(z3.Select(hasE, key), z3.And(seen(key), z3.Select(khasE, key)))),
                          patterns=[z3.Select(has, key)]),
                z3.ForAll([key], z3.Implies(z3.Select(hasE, key), z3.And(z3.Select(has, key), z3.Select(val, key) == z3.Select(valE, key))),
                          patterns=[z3.Select(hasE, key)]),
                z3.ForAll([j], z3.Implies(
                    z3.And(done(j), named(j), z3.Select(khasE, g.name(j)), z3.Not(z3.Select(hasE, g.name(j)))),
                    z3.And(z3.Select(has, g.name(j)), z3.Select(val, g.name(j)) == z3.Select(g.val0, g.name(j)))),
                    patterns=[g.p(j)])),
            "C07|kwargs-shrink-by-the-same-names": z3.And(
                kval == g.val0,
                z3.ForAll([key], z3.Implies(z3.Select(khas, key), z3.Select(khasE, key)), patterns=[z3.Select(khas, key)]),
                z3.ForAll([key], z3.Implies(z3.And(z3.Select(khasE, key), z3.Not(z3.Select(khas, key))), seen(key)),
                          patterns=[z3.Select(khas, key)]),
                z3.ForAll([j], z3.Implies(z3.And(done(j), named(j)), z3.Not(z3.Select(khas, g.name(j)))),
                          patterns=[g.p(j)])),
            "kwargs-param-is-a-parameter": z3.Or(ref_of(l.kwargs_param) == NONE, z3.Exists([m], z3.And(
                m >= 0, m < g.np, g.p(m) == ref_of(l.kwargs_param), g.kind(m) == VK))),
            "objects-distinct": z3.And(d != a.kwargs.e, d >= s0["ghost.alloc"]),
        }

    @property
    def loops(self):
        lm = ["dict.has", "dict.val", "iter.arr+", "iter.pos+", "iter.len+", "list.arr+", "list.len+"]
        return {0: LoopSpec(self._inv0, modifies=lm, types={"kwargs_param": "Opt[Parameter]"},
                            written=lambda s0, a, l: [l.parameters.e, l.arg_vals.e]),
                1: LoopSpec(self._inv1, modifies=["dict.has", "dict.val"], types={"kwargs_param": "Opt[Parameter]"})}


# =========================================================================== extended_kwargs
EDQ = "statemachine.event_data:EventData."
BUILTIN_NAMES = ["event_data", "machine", "event", "model", "transition", "state", "source", "target"]  # the property's list


@register
class ExtendedKwargs(Contract):
    """EventData.extended_kwargs (C07): user keyword arguments with the eight built-in names laid
    over them — built-ins always describe the event being processed and cannot be overridden."""

    qualnames = [EDQ + "extended_kwargs#spec"]
    params = [("self", "EventData")]
    returns = "dict[str,Val]"
    modifies = ["dict.has+", "dict.val+"]
    properties = ["C07"]

    def post(self, s0, s, a, r):
        ed = a.self.e
        td = s0.sel("EventData.trigger_data", ed)
        user = s0.sel("TriggerData.kwargs", td)
        has, val = s.sel("dict.has", r), s.sel("dict.val", r)
        k = z3.Const("k!ek", Str)
        builtin = z3.Or(*[k == z3.StringVal(n) for n in BUILTIN_NAMES])
        expect = {
            "event_data": ed, "machine": s0.sel("TriggerData.machine", td), "event": s0.sel("TriggerData.event", td),
            "model": s0.sel("TriggerData.model", td), "transition": s0.sel("EventData.transition", ed),
            "state": s0.sel("EventData.state", ed), "source": s0.sel("EventData.source", ed),
            "target": s0.sel("EventData.target", ed)}
        return {
            "C07|a-fresh-dict": r.e >= s0["ghost.alloc"],
            "C07|built-in-names-always-describe-this-event": z3.And(*[
                z3.And(z3.Select(has, z3.StringVal(n)), z3.Select(val, z3.StringVal(n)) == v) for n, v in expect.items()]),
            "C07|everything-else-is-the-users-kwargs": z3.ForAll([k], z3.Implies(z3.Not(builtin), z3.And(
                z3.Select(has, k) == z3.Select(s0.sel("dict.has", user), k),
                z3.Select(val, k) == z3.Select(s0.sel("dict.val", user), k)))),
        }


def scan_signature_cache_key():
    """Cache-key lemma (C07 'binding depends only on the callback's own signature', C16): the key
    computed by _make_key must determine everything the cached adapter depends on.  The adapter
    is a function of the callable's full signature (kinds, defaults) and of iscoroutinefunction;
    the key reads only the attributes found by this scan."""
    import ast
    from pyvc.core import Obligation, load_function
    node, _ = load_function("statemachine.signature:_make_key")
    attrs = sorted({n.attr for n in ast.walk(node) if isinstance(n, ast.Attribute)})
    determines_signature = any(a in attrs for a in ("__signature__", "__defaults__", "__kwdefaults__", "co_flags",
                                                    "co_argcount", "co_kwonlyargcount", "co_posonlyargcount"))
    keyed_by_identity = any(isinstance(n, ast.Call) and getattr(n.func, "id", "") == "id" for n in ast.walk(node))
    ok = determines_signature or keyed_by_identity
    return [Obligation("lemma:C07,C16|signature-cache-key-determines-the-signature", "lemma", "lemma", [], z3.BoolVal(ok),
                       info={"attributes_read_by__make_key": attrs})]
