"""C11 witness (#18): with rtc=False, constructing a machine over a model that already holds a state,
or activating again, must be a no-op.  Exit 1 if the defect is present, 0 otherwise."""
import sys
from statemachine import State, StateMachine


class M(StateMachine):
    a = State(initial=True)
    b = State()
    go = a.to(b)
    back = b.to(a)


class Holder:
    state = "b"


bad = []
try:
    sm = M(Holder(), rtc=False)
    if sm.current_state.id != "b":
        bad.append(f"resumed in {sm.current_state.id!r}, expected 'b'")
except IndexError as e:
    bad.append(f"M(model_holding_state, rtc=False) raised IndexError: {e}")
try:
    sm2 = M(rtc=False)
    sm2.activate_initial_state()
    if sm2.current_state.id != "a":
        bad.append("re-activation changed the state")
except IndexError as e:
    bad.append(f"activate_initial_state() on an activated rtc=False machine raised IndexError: {e}")
if bad:
    print("C11 VIOLATED:", "; ".join(bad))
    sys.exit(1)
print("ok")
