"""Probe (C11, bounded): a machine created by MachineMixin over a model whose base class has already loaded a stored
state resumes silently (no callbacks, value untouched, also for falsy values), and over a fresh model runs exactly one
initial activation.  MachineMixin / the registry are not under contract.  Exit 1 = violated."""
import sys

try:  # the mixin registry autodiscovers django apps when django is importable
    import django
    from django.conf import settings
    settings.configure(INSTALLED_APPS=[])
    django.setup()
except Exception:  # noqa: BLE001
    pass

from statemachine import State, StateMachine
from statemachine.mixins import MachineMixin

LOG = []


class FlowC11p(StateMachine):
    draft = State(initial=True, value=0)
    review = State(value=1)
    done = State(final=True, value=2)
    submit = draft.to(review)
    publish = review.to(done)

    def on_enter_state(self, state):
        LOG.append("enter_" + state.id)


class StoredC11p:
    def __init__(self, step=None):
        self.step = step  # what persistence loaded


class DocC11p(MachineMixin, StoredC11p):
    state_machine_name = "__main__.FlowC11p"
    state_machine_attr = "sm"
    state_field_name = "step"


errors = []
for stored, sid in ((1, "review"), (0, "draft"), (2, "done")):
    del LOG[:]
    doc = DocC11p(step=stored)
    if LOG:
        errors.append(f"stored {stored!r}: callbacks ran while resuming: {LOG}")
    if doc.step != stored or doc.sm.current_state.id != sid:
        errors.append(f"stored {stored!r}: model holds {doc.step!r}, machine is in {doc.sm.current_state.id!r}")
del LOG[:]
fresh = DocC11p()
if LOG != ["enter_draft"] or fresh.step != 0:
    errors.append(f"fresh model: log {LOG}, field {fresh.step!r} (expected one activation of draft, value 0)")
for e in errors:
    print("VIOLATED:", e)
print("ok" if not errors else f"{len(errors)} problems")
sys.exit(1 if errors else 0)
