"""C08, bounded lexical layer (DESIGN 4.C08): the text -> AST step (operator-spelling regex, the
plain-name fast path, CPython's tokenizer) is a string algorithm outside the verifier's reach.
Stand-in, labelled bounded: every well-formed expression of the documented grammar up to a token
budget, rendered with three spacings, is parsed by the REAL parse_boolean_expr and the resulting
closure is compared with CPython's own evaluation of the Python spelling over all valuations.

Two regions are recorded findings (known_findings.jsonl) and reported separately, never as
agreement:  R7 = an expression without any space and without '!' that is not a plain name (the
fast path takes it for a name);  R8 = a string literal containing 'v' (as a word), '^' or '!'
(the operator regex rewrites inside literals).
"""
from __future__ import annotations

import itertools
import json
import re
import sys
import time

NAMES = ["a", "v1", "nova", "not_x", "dev"]  # `dev` ends, `v1` starts with the letter that spells `or`
LITERALS = ["True", "0", "'v'", "'a^b'", "1"]
CMPS = ["==", "!=", ">", ">=", "<", "<="]
VALUES = [True, False, 0, 1, "v", ""]


def atoms():
    for n in NAMES:
        yield ("name", n)
    for l in LITERALS:
        yield ("lit", l)


def exprs(budget):
    """Trees with at most `budget` tokens (names, literals and operators all count 1; parens 2)."""
    memo = {}

    def gen(b):
        if b in memo:
            return memo[b]
        out = []
        if b >= 1:
            out += list(atoms())
        if b >= 2:
            for e in gen(b - 1):
                out.append(("not", e))
        if b >= 3:
            for lb in range(1, b - 1):
                for l in gen(lb):
                    for r in gen(b - 1 - lb):
                        if cost(l) + cost(r) + 1 != b:
                            continue
                        out.append(("and", l, r))
                        out.append(("or", l, r))
                        if l[0] in ("name", "lit") and r[0] in ("name", "lit"):
                            for c in CMPS:
                                out.append(("cmp", c, l, r))
            for e in gen(b - 2):
                if cost(e) == b - 2 and e[0] in ("and", "or", "name"):
                    out.append(("paren", e))
        memo[b] = out
        return out

    seen = set()
    for b in range(1, budget + 1):
        for e in gen(b):
            if cost(e) == b and e not in seen:
                seen.add(e)
                yield e


def chains():
    """Flat chains of 3 and 4 operands (`a and b and c`, `a ^ b v c ^ d`, with some operands negated): longer than the
    token budget reaches, and exactly where an n-ary AST node (ast.BoolOp has a LIST of values) differs from a binary one."""
    names = [("name", n) for n in NAMES]
    for n in (3, 4):
        for ops in itertools.product(("and", "or"), repeat=n - 1):
            for negs in itertools.product((False, True), repeat=n):
                if sum(negs) > 1:
                    continue
                operands = [("not", names[k]) if negs[k] else names[k] for k in range(n)]
                e = operands[0]
                for op, right in zip(ops, operands[1:]):
                    e = (op, e, right)  # left-associative, as both grammars parse a flat chain
                yield e


def cost(e):
    k = e[0]
    if k in ("name", "lit"):
        return 1
    if k == "not":
        return 1 + cost(e[1])
    if k in ("and", "or"):
        return 1 + cost(e[1]) + cost(e[2])
    if k == "cmp":
        return 1 + cost(e[2]) + cost(e[3])
    if k == "paren":
        return 2 + cost(e[1])
    raise ValueError(k)


def render(e, style, classic):
    """style 0: no optional whitespace; 1: single spaces; 2: mixed.  classic: use ! ^ v spellings."""
    sp = {0: "", 1: " ", 2: "  "}[style]
    k = e[0]
    prec = {"or": 1, "and": 2, "not": 3, "cmp": 4, "name": 5, "lit": 5, "paren": 5}

    def sub(x, need):
        t = render(x, style, classic)
        return f"({t})" if prec[x[0]] < need else t

    if k in ("name", "lit"):
        return e[1]
    if k == "not":
        inner = sub(e[1], 3)
        return ("!" + inner) if classic else ("not " + inner)
    if k in ("and", "or"):
        # left-associative: the right operand needs parentheses at equal precedence too
        l, r = sub(e[1], prec[k]), sub(e[2], prec[k] + 1)
        if classic:
            op = "^" if k == "and" else "v"
            # 'v' needs word boundaries to be an operator at all; '^' does not
            gap = sp if op == "^" else (sp or " ")
            return f"{l}{gap}{op}{gap}{r}"
        return f"{l} {k} {r}"
    if k == "cmp":
        return f"{render(e[2], style, classic)}{sp}{e[1]}{sp}{render(e[3], style, classic)}"
    if k == "paren":
        return f"({render(e[1], style, classic)})"
    raise ValueError(k)


def python_spelling(e):
    k = e[0]
    if k in ("name", "lit"):
        return e[1]
    if k == "not":
        return f"(not {python_spelling(e[1])})"
    if k in ("and", "or"):
        return f"({python_spelling(e[1])} {k} {python_spelling(e[2])})"
    if k == "cmp":
        return f"({python_spelling(e[2])} {e[1]} {python_spelling(e[3])})"
    if k == "paren":
        return f"({python_spelling(e[1])})"


def names_of(e):
    if e[0] == "name":
        return {e[1]}
    out = set()
    for x in e[1:]:
        if isinstance(x, tuple):
            out |= names_of(x)
    return out


def region(text, e):
    if " " not in text and "!" not in text and e[0] != "name":
        return "R7"
    for lit in re.findall(r"'[^']*'", text):
        if re.search(r"\bv\b|\^|!", lit):
            return "R8"
    return None


def run(budget, limit_s, seed):
    from statemachine.spec_parser import operator_mapping, parse_boolean_expr
    t0 = time.time()
    n_expr = n_cases = 0
    known = {"R7": 0, "R8": 0}
    samples = []
    gp = guard_pairs()
    if gp:
        return {"expressions": 0, "cases": 30, "known_region_hits": known, "violation": gp}
    for e in itertools.chain(chains(), exprs(budget)):
        if time.time() - t0 > limit_s:
            break
        n_expr += 1
        py = python_spelling(e)
        used = sorted(names_of(e))
        for style, classic in itertools.product((0, 1, 2), (False, True)):
            text = render(e, style, classic)
            reg = region(text, e)
            env = {}
            try:
                fn = parse_boolean_expr(text, lambda nm: (lambda *a, _n=nm, **k: env[_n]), operator_mapping)
                parsed = True
            except Exception as ex:  # noqa: BLE001
                fn, parsed, perr = None, False, f"{type(ex).__name__}: {ex}"
            for vals in itertools.product(VALUES, repeat=len(used)):
                env.clear()
                env.update(dict(zip(used, vals)))
                n_cases += 1
                try:
                    want = ("ok", bool(eval(py, {}, dict(env))))
                except TypeError:
                    want = ("TypeError",)
                if not parsed:
                    got = ("rejected", perr)
                else:
                    try:
                        got = ("ok", bool(fn()))
                    except TypeError:
                        got = ("TypeError",)
                    except KeyError as ex:
                        got = ("rejected", f"unknown name {ex}")
                if got != want:
                    if reg:
                        known[reg] += 1
                        break
                    return {"expressions": n_expr, "cases": n_cases, "known_region_hits": known,
                            "violation": {"text": text, "python": py, "valuation": dict(env), "library": got, "python_eval": want}}
        if len(samples) < 3 and n_expr % 97 == 1:
            samples.append(render(e, 1, True))
    return {"expressions": n_expr, "cases": n_cases, "known_region_hits": known, "violation": None, "samples": samples,
            "seconds": round(time.time() - t0, 1), "exhaustive": time.time() - t0 <= limit_s}


def guard_pairs():
    """cond and unless of ONE transition that differ only in the comparison operator are two different guards: the machine
    is a valid definition and fires iff the first comparison holds and the second does not."""
    import warnings
    from statemachine import State, StateMachine
    from statemachine.exceptions import TransitionNotAllowed
    warnings.simplefilter("ignore")
    import operator
    ops = {"==": operator.eq, "!=": operator.ne, ">": operator.gt, ">=": operator.ge, "<": operator.lt, "<=": operator.le}
    k = 0
    for o1, o2 in itertools.permutations(ops, 2):
        k += 1
        ns = {"a": State(initial=True), "b": State(final=True)}
        ns["go"] = ns["a"].to(ns["b"], cond=f"level {o1} threshold", unless=f"level {o2} threshold")
        ns["level"], ns["threshold"] = 0, 0
        try:
            cls = type(f"Pair{k}", (StateMachine,), ns)
            for lv, th in ((1, 2), (2, 2), (3, 2)):
                sm = cls()
                sm.level, sm.threshold = lv, th
                try:
                    sm.go()
                    fired = True
                except TransitionNotAllowed:
                    fired = False
                want = ops[o1](lv, th) and not ops[o2](lv, th)
                if fired != want:
                    return {"text": f"cond='level {o1} threshold', unless='level {o2} threshold'", "python": f"(level {o1} threshold) and not (level {o2} threshold)",
                            "valuation": {"level": lv, "threshold": th}, "library": ("ok", fired), "python_eval": ("ok", want), "kind": "guard-pair"}
        except Exception as e:  # noqa: BLE001
            return {"text": f"cond='level {o1} threshold', unless='level {o2} threshold'", "python": "a valid definition", "valuation": {},
                    "library": ("rejected/raised", f"{type(e).__name__}: {str(e)[:120]}"), "python_eval": ("ok", "accepted"), "kind": "guard-pair"}
    # the same operator with different right operands: two different guards as well
    for o1 in ops:
        k += 1
        ns = {"a": State(initial=True), "b": State(final=True)}
        ns["go"] = ns["a"].to(ns["b"], cond=f"level {o1} low", unless=f"level {o1} high")
        ns["level"], ns["low"], ns["high"] = 0, 10, 30
        try:
            cls = type(f"PairR{k}", (StateMachine,), ns)
            for lv in (5, 10, 20, 30, 40):
                sm = cls()
                sm.level = lv
                try:
                    sm.go()
                    fired = True
                except TransitionNotAllowed:
                    fired = False
                want = ops[o1](lv, 10) and not ops[o1](lv, 30)
                if fired != want:
                    return {"text": f"cond='level {o1} low', unless='level {o1} high'", "python": f"(level {o1} 10) and not (level {o1} 30)",
                            "valuation": {"level": lv}, "library": ("ok", fired), "python_eval": ("ok", want), "kind": "guard-pair"}
        except Exception as e:  # noqa: BLE001
            return {"text": f"cond='level {o1} low', unless='level {o1} high'", "python": "a valid definition", "valuation": {},
                    "library": ("rejected/raised", f"{type(e).__name__}: {str(e)[:120]}"), "python_eval": ("ok", "accepted"), "kind": "guard-pair"}
    return None


REPLAY = '''"""Replay (C08 lexical layer): the real parse_boolean_expr disagrees with CPython's evaluation."""
import sys
if {kind!r} == "guard-pair":
    sys.path.insert(0, "/verif")
    from runtime import expr_enum
    gp = expr_enum.guard_pairs()
    print(gp)
    sys.exit(1 if gp else 0)
from statemachine.spec_parser import operator_mapping, parse_boolean_expr
env = {env!r}
text, py = {text!r}, {py!r}
try:
    fn = parse_boolean_expr(text, lambda nm: (lambda *a, **k: env[nm]), operator_mapping)
    got = ("ok", bool(fn()))
except Exception as e:
    got = ("rejected/raised", type(e).__name__, str(e))
want = ("ok", bool(eval(py, {{}}, dict(env))))
print("expression", repr(text), "valuation", env, "library", got, "python", want)
sys.exit(0 if got == want else 1)
'''

if __name__ == "__main__":
    budget = int(sys.argv[1]) if len(sys.argv) > 1 else 5
    limit = float(sys.argv[2]) if len(sys.argv) > 2 else 30
    res = run(budget, limit, 0)
    if res["violation"]:
        import os
        v = res["violation"]
        os.makedirs("/verif/replays", exist_ok=True)
        path = f"/verif/replays/C08-expr-{abs(hash(v['text'])) % 10**8}.py"
        open(path, "w").write(REPLAY.format(env=v["valuation"], text=v["text"], py=v["python"], kind=v.get("kind", "expression")))
        res["replay"] = path
    print(json.dumps(res, default=str))
    sys.exit(1 if res["violation"] else 0)
