"""Contracts of statemachine/callbacks.py (registry -> executor -> wrapper -> user callable)."""
from __future__ import annotations

import z3

from pyvc.core import B, EXC_CODE, Exc, I, NONE, NoneV, O, S, T, Int, Bool, Str, ref_of, truthy, FIRST_ADDR
from pyvc.execu import Contract, LoopSpec, register

from .model import (
    CBQ, ENV_MODIFIES, GK_ALL, GK_CALL, W, env_effect, kw_state, locked, mstate, others_kept,
    prefix_kept, qarr, qh, qt, rtc, wf_world,
)


def reg_has(s, key):
    return z3.Select(s.sel("dict.has", W.REGD), key)


def glog_record(s0, s, key, kwargs, kind):
    g0 = s0.g("ng")
    rl = z3.And(rtc(s0), locked(s0))
    return {
        "glog:key": z3.Select(s.g("g_key"), g0) == key,
        "glog:model-state-at-start": z3.Select(s.g("g_ms"), g0) == mstate(s0),
        "glog:kwargs-state-at-start": z3.Select(s.g("g_ks"), g0) == kw_state(s0, kwargs),
        "glog:kind": z3.Select(s.g("g_kind"), g0) == kind,
        "glog:rtc-one-record": z3.Implies(rl, s.g("ng") == g0 + 1),
        "glog:grows": s.g("ng") >= g0 + 1,
    }


def nothing_happens(s0, s):
    """No callback ran: engine-visible state is exactly as before (apart from the log record)."""
    return z3.And(qh(s) == qh(s0), qt(s) == qt(s0), qarr(s) == qarr(s0), mstate(s) == mstate(s0),
                  s.g("ntrig") == s0.g("ntrig"), s.g("ng") == s0.g("ng") + 1)


class RegCall(Contract):
    """CallbacksRegistry.call(key, *args, **kwargs): run the action group registered under `key`.
    One group-level log record; the callbacks themselves obey EnvCB."""

    qualnames = [CBQ + "CallbacksRegistry.call"]
    params = [("self", "CallbacksRegistry"), ("key", "str"), ("*args", "tuple"), ("**kwargs", "dict[str,Val]")]
    returns = "list[Val]"
    raises = True
    modifies = ENV_MODIFIES
    properties = ["C02", "C04", "C14"]
    kind = GK_CALL

    def pre(self, s, a):
        f = dict(wf_world(s))
        f["self-is-registry"] = a.self.e == W.REG
        return f

    def ghost_entry(self, path, a):
        g = path.hget("ghost.ng")
        s = path.view()
        path.hset("ghost.g_key", z3.Store(path.hget("ghost.g_key"), g, a.key.e))
        path.hset("ghost.g_ms", z3.Store(path.hget("ghost.g_ms"), g, mstate(s)))
        path.hset("ghost.g_ks", z3.Store(path.hget("ghost.g_ks"), g, kw_state(s, a.kwargs)))
        path.hset("ghost.g_kind", z3.Store(path.hget("ghost.g_kind"), g, z3.IntVal(self.kind)))
        path.hset("ghost.ng", g + 1)

    def post(self, s0, s, a, r):
        g0 = s0.g("ng")
        k = z3.Const("k!rc", Int)
        f = glog_record(s0, s, a.key.e, a.kwargs, self.kind)
        f.update(env_effect(s0, s))
        f.update({
            "result:fresh-list": z3.And(r.e >= s0["ghost.alloc"], r.e < s["ghost.alloc"], s.sel("list.len", r) >= 0),
            "result:logged": z3.And(z3.Select(s.g("g_reslen"), g0) == s.sel("list.len", r),
                                    z3.Select(s.g("g_res"), g0) == s.sel("list.arr", r)),
            "result:never-the-private-sentinel": z3.ForAll([k], z3.Implies(
                z3.And(k >= 0, k < s.sel("list.len", r)), z3.Select(s.sel("list.arr", r), k) != W.SENT)),
            "absent-key:no-callback-runs": z3.Implies(z3.Not(reg_has(s0, a.key.e)), z3.And(
                s.sel("list.len", r) == 0, nothing_happens(s0, s))),
        })
        return f

    def exc_post(self, s0, s, a, x):
        f = glog_record(s0, s, a.key.e, a.kwargs, self.kind)
        f.update(env_effect(s0, s))
        f["absent-key:cannot-raise"] = reg_has(s0, a.key.e)
        return f


@register
class SyncRegCall(RegCall):
    pass


@register
class AsyncRegCall(RegCall):
    qualnames = [CBQ + "CallbacksRegistry.async_call"]
    is_async = True


class RegAll(Contract):
    """CallbacksRegistry.all(key, ...): conjunction of the guard group registered under `key`."""

    qualnames = [CBQ + "CallbacksRegistry.all"]
    params = RegCall.params
    returns = "bool"
    raises = True
    modifies = ENV_MODIFIES
    properties = ["C01", "C08"]
    kind = GK_ALL

    pre = RegCall.pre
    ghost_entry = RegCall.ghost_entry

    def post(self, s0, s, a, r):
        g0 = s0.g("ng")
        f = glog_record(s0, s, a.key.e, a.kwargs, self.kind)
        f.update(env_effect(s0, s))
        f["result:logged"] = z3.Select(s.g("g_ok"), g0) == r.e
        f["absent-key:true-and-no-callback-runs"] = z3.Implies(
            z3.Not(reg_has(s0, a.key.e)), z3.And(r.e, nothing_happens(s0, s)))
        return f

    exc_post = RegCall.exc_post


@register
class SyncRegAll(RegAll):
    pass


@register
class AsyncRegAll(RegAll):
    qualnames = [CBQ + "CallbacksRegistry.async_all"]
    is_async = True
