"""Contracts of StateMachine.__getstate__ / __setstate__ (C17).

The machine's instance attributes are modelled as its __dict__ (a str-keyed dict), exactly what
copy/pickle serialise.  `_register_callbacks`, `add_listener` and `_get_engine` are used through
abstract contracts of what they do to the registry's `has_async_callbacks` flag and to the
engine: those are the facts the round-trip property depends on."""
from __future__ import annotations

import z3

from pyvc.core import (
    A_II, B, CLASSES, EXC_CODE, Exc, I, NONE, NoneV, O, Py, S, T, Int, Bool, Str, ref_of, truthy, FIRST_ADDR,
    ClassModel, MethodSpec, Unsupported, HEAP_SORTS, boxb, fresh,
)
from pyvc.execu import CONTRACTS, GLOBAL_NAMES, CallArgs, Contract, LoopSpec, Raise, register
from pyvc.models import model

from .model import C, INL, SMQ, valid_obj

DROPPED = ["_callbacks", "_states_for_instance", "_engine"]  # from the property: registry, state cache, engine are rebuilt

ASYNC_MM = z3.Bool("ASYNC_MACHINE_OR_MODEL")  # the machine or its model define coroutine callbacks
# The saved `_listeners` mapping (listener object -> how it was attached) and the collections made from it are abstract:
L_HAS = z3.Function("LISTENERS_HAS", Int, Int, Bool)  # the mapping has this listener
L_FLAG = z3.Function("LISTENERS_FLAG", Int, Int, Int)  # ... with this value (truthy: given to the constructor)
MEMBER = z3.Function("COLL_MEMBER", Int, Int, Bool)  # a collection of listeners contains this one
ASYNC_OBJ = z3.Function("ASYNC_LISTENER_OBJ", Int, Bool)  # this listener defines coroutine callbacks
ASYNC_C = z3.Function("ASYNC_COLL", Int, Bool)  # some member of the collection does
ASYNC_L = z3.Function("ASYNC_LISTENERS", Int, Bool)  # some listener of the mapping does
WIT_C = z3.Function("ASYNC_COLL_WITNESS", Int, Int)
WIT_L = z3.Function("ASYNC_LISTENERS_WITNESS", Int, Int)
EMPTY_COLL = z3.Int("EMPTY_COLLECTION")
from pyvc.core import GLOBAL_AXIOMS  # noqa: E402
_c, _o = z3.Const("c!la", Int), z3.Const("o!la", Int)
GLOBAL_AXIOMS.extend([
    # definitions of the two existentials, in both directions (Skolem witnesses)
    z3.ForAll([_c, _o], z3.Implies(z3.And(MEMBER(_c, _o), ASYNC_OBJ(_o)), ASYNC_C(_c)), patterns=[z3.MultiPattern(MEMBER(_c, _o), ASYNC_OBJ(_o))]),
    z3.ForAll([_c], z3.Implies(ASYNC_C(_c), z3.And(MEMBER(_c, WIT_C(_c)), ASYNC_OBJ(WIT_C(_c)))), patterns=[ASYNC_C(_c)]),
    z3.ForAll([_c, _o], z3.Implies(z3.And(L_HAS(_c, _o), ASYNC_OBJ(_o)), ASYNC_L(_c)), patterns=[z3.MultiPattern(L_HAS(_c, _o), ASYNC_OBJ(_o))]),
    z3.ForAll([_c], z3.Implies(ASYNC_L(_c), z3.And(L_HAS(_c, WIT_L(_c)), ASYNC_OBJ(WIT_L(_c)))), patterns=[ASYNC_L(_c)]),
    z3.ForAll([_o], z3.Not(MEMBER(EMPTY_COLL, _o)), patterns=[MEMBER(EMPTY_COLL, _o)]),
])

HEAP_SORTS["PSM.__dict__"] = A_II
HEAP_SORTS["PEngine.is_async"] = z3.ArraySort(Int, Bool)
HEAP_SORTS["PEngine.rtc"] = z3.ArraySort(Int, Bool)
HEAP_SORTS["PEngine.pending_initial"] = z3.ArraySort(Int, Bool)
HEAP_SORTS["PRegistry.has_async"] = z3.ArraySort(Int, Bool)
HEAP_SORTS["PRegistry.init_coll"] = A_II  # listeners registered together with machine and model (_register_callbacks)
HEAP_SORTS["PRegistry.added_coll"] = A_II  # listeners attached afterwards (add_listener)

psm = ClassModel("PSM", heapname="PSM", fields={"__dict__": "dict[str,Val]"},
                 methods={"_register_callbacks": C("pickle:_register_callbacks"), "add_listener": C("pickle:add_listener"),
                          "_get_engine": C("pickle:_get_engine")})
psm.dyn_attrs = {"_engine": "PEngine", "_callbacks": "PRegistry", "_states_for_instance": "Val", "_listeners": "Val",
                 "model": "Val", "state_field": "Val", "start_value": "Val", "allow_event_without_transition": "Val"}
ClassModel("PEngine", fields={"_rtc": "bool"}, methods={"start": C("pickle:engine.start")})
HEAP_SORTS["PEngine._rtc"] = z3.ArraySort(Int, Bool)
ClassModel("PRegistry", fields={}, methods={"async_or_sync": C("pickle:async_or_sync")})


def preg_ctor(ex, path, ca, node):
    r = path.alloc("PRegistry", "registry")
    path.store("PRegistry.has_async", r.e, z3.BoolVal(False))
    path.store("PRegistry.init_coll", r.e, EMPTY_COLL)
    path.store("PRegistry.added_coll", r.e, EMPTY_COLL)
    return [(path, r)]


CLASSES["PRegistry"].ctor = preg_ctor
GLOBAL_NAMES["statemachine.statemachine:CallbacksRegistry"] = Py(("class", "PRegistry"))


ClassModel("LMap")  # the saved `_listeners` dict
ClassModel("LColl")  # a list / generator of listener objects built from it


def _items_filter_hook(ex, node, path, kind):
    """[o for o, flag in L.items() if flag]  /  (o for o, flag in L.items() if not flag)  on the abstract listener
    mapping: a collection defined pointwise, MEMBER(c, o) == L_HAS(L, o) and (not) truthy(L_FLAG(L, o))."""
    import ast
    if len(node.generators) != 1:
        return None
    gen = node.generators[0]
    it, tgt = gen.iter, gen.target
    if not (isinstance(it, ast.Call) and isinstance(it.func, ast.Attribute) and it.func.attr == "items" and not it.args
            and isinstance(tgt, ast.Tuple) and len(tgt.elts) == 2 and all(isinstance(e, ast.Name) for e in tgt.elts)):
        return None
    kname, vname = tgt.elts[0].id, tgt.elts[1].id
    if not (isinstance(node.elt, ast.Name) and node.elt.id == kname and len(gen.ifs) <= 1):
        return None
    neg = None
    if gen.ifs:
        c = gen.ifs[0]
        if isinstance(c, ast.Name) and c.id == vname:
            neg = False
        elif isinstance(c, ast.UnaryOp) and isinstance(c.op, ast.Not) and isinstance(c.operand, ast.Name) and c.operand.id == vname:
            neg = True
        else:
            return None
    out = []
    for p, d in ex.ev(it.func.value, path):
        if isinstance(d, Raise):
            out.append((p, d))
            continue
        if not (isinstance(d, O) and d.cls == "LMap"):
            return None
        coll = p.alloc("LColl", "coll")
        o = z3.Const("o!ifh", Int)
        keep = z3.BoolVal(True) if neg is None else (z3.Not(truthy(L_FLAG(d.e, o))) if neg else truthy(L_FLAG(d.e, o)))
        p.assume(z3.ForAll([o], MEMBER(coll.e, o) == z3.And(L_HAS(d.e, o), keep), patterns=[MEMBER(coll.e, o)]))
        out.append((p, coll))
    return out


from pyvc.execu import COMPREHENSION_HOOKS  # noqa: E402
COMPREHENSION_HOOKS.append(_items_filter_hook)


@model
def lmap_keys(ex, path, recv, ca, node):
    """listeners.keys(): every listener of the mapping."""
    coll = path.alloc("LColl", "coll")
    o = z3.Const("o!lk", Int)
    path.assume(z3.ForAll([o], MEMBER(coll.e, o) == L_HAS(recv.e, o), patterns=[MEMBER(coll.e, o)]))
    return [(path, coll)]


CLASSES["LMap"].methods["keys"] = lmap_keys
CLASSES["LMap"].list_fn = lambda ex, path, v, node: lmap_keys.target(ex, path, v, CallArgs([], {}), node)  # list(d): its keys
CLASSES["LColl"].list_fn = lambda ex, path, v, node: [(path, v)]


@model
def b_list_of_coll(ex, path, recv, ca, node):
    return [(path, recv)]


def D(s, me):
    return s.sel("PSM.__dict__", me)


def attr(s, me, name):
    return z3.Select(s.sel("dict.val", D(s, me)), z3.StringVal(name))


MODEL_NO_STATE = z3.Bool("MODEL_HOLDS_NO_STATE")  # the (copied) model holds no state yet
NO_STATE_FLAG = MODEL_NO_STATE


def model_has_state(s, me):
    return z3.Not(MODEL_NO_STATE)


@register
class PRegisterCallbacks(Contract):
    """_register_callbacks(listeners) — abstract, read off its body: resolves machine, model and the given
    listeners TOGETHER (one Listeners object, every reference kind allowed), then sets has_async_callbacks
    from everything registered so far (callbacks.async_or_sync())."""
    qualnames = ["pickle:_register_callbacks"]
    params = [("self", "PSM"), ("listeners", "LColl")]
    returns = "None"
    modifies = ["PRegistry.has_async", "PRegistry.init_coll", "list.arr+", "list.len+"]
    trusted = True

    def post(self, s0, s, a, r):
        reg = attr(s0, a.self.e, "_callbacks")
        o = z3.Const("o!prc", Int)
        return {"flag-from-machine-model-and-everything-registered": s.sel("PRegistry.has_async", reg) == z3.Or(
                    ASYNC_MM, ASYNC_C(a.listeners.e), ASYNC_C(s0.sel("PRegistry.added_coll", reg))),
                "registered-with-the-machine": s.sel("PRegistry.init_coll", reg) == a.listeners.e,
                "other-registries-untouched": z3.ForAll([o], z3.Implies(o != reg, z3.And(
                    z3.Select(s["PRegistry.has_async"], o) == z3.Select(s0["PRegistry.has_async"], o),
                    z3.Select(s["PRegistry.init_coll"], o) == z3.Select(s0["PRegistry.init_coll"], o))))}

    def assumptions(self):
        return ["StateMachine._register_callbacks: abstract contract (registers the given listeners together with machine and model; "
                "flag := machine/model/registered listeners async), own contract under C12"]


@register
class PAddListener(Contract):
    """add_listener(*listeners) — abstract, from its real body: resolves the listeners' callbacks
    into the registry AFTER what is there (safe references only); it does NOT call async_or_sync()."""
    qualnames = ["pickle:add_listener"]
    params = [("self", "PSM"), ("*listeners", "LColl")]
    returns = "Val"
    modifies = ["PRegistry.added_coll"]
    trusted = True

    def pre(self, s, a):
        return {"first-add-on-this-registry": s.sel("PRegistry.added_coll", attr(s, a.self.e, "_callbacks")) == EMPTY_COLL}

    def post(self, s0, s, a, r):
        reg = attr(s0, a.self.e, "_callbacks")
        o = z3.Const("o!pal", Int)
        return {"listeners-attached-afterwards": s.sel("PRegistry.added_coll", reg) == a.listeners.e,
                "other-registries-untouched": z3.ForAll([o], z3.Implies(o != reg, z3.Select(s["PRegistry.added_coll"], o)
                                                                        == z3.Select(s0["PRegistry.added_coll"], o)))}

    def assumptions(self):
        return ["StateMachine.add_listener: abstract contract (attaches listeners after the registered ones, leaves has_async_callbacks alone), read off its body"]


@register
class PGetEngine(Contract):
    """_get_engine(rtc) — from its body: AsyncEngine iff the registry's flag is set; a NEW engine has
    an empty queue (nothing pending) until start() is called."""
    qualnames = ["pickle:_get_engine"]
    params = [("self", "PSM"), ("rtc", "Val")]
    returns = "PEngine"
    modifies = ["PEngine.is_async+", "PEngine.rtc+", "PEngine.pending_initial+", "PEngine._rtc+"]
    trusted = True

    def post(self, s0, s, a, r):
        reg = attr(s0, a.self.e, "_callbacks")
        return {"engine": z3.And(
            r.e >= s0["ghost.alloc"], s.sel("PEngine.is_async", r) == s0.sel("PRegistry.has_async", reg),
            s.sel("PEngine._rtc", r) == truthy(a.rtc.e), z3.Not(s.sel("PEngine.pending_initial", r)))}


@register
class PAsyncOrSync(Contract):
    """CallbacksRegistry.async_or_sync() — abstract, from its body: the flag becomes 'some registered
    callback is a coroutine', over everything registered so far."""
    qualnames = ["pickle:async_or_sync"]
    params = [("self", "PRegistry")]
    returns = "None"
    modifies = ["PRegistry.has_async"]
    trusted = True

    def post(self, s0, s, a, r):
        return {"flag-recomputed": z3.And(
            s.sel("PRegistry.has_async", a.self.e) == z3.Or(ASYNC_MM, ASYNC_C(s0.sel("PRegistry.init_coll", a.self.e)),
                                                            ASYNC_C(s0.sel("PRegistry.added_coll", a.self.e))),
            z3.ForAll([z3.Const("o!aos", Int)], z3.Implies(z3.Const("o!aos", Int) != a.self.e, z3.Select(
                s["PRegistry.has_async"], z3.Const("o!aos", Int)) == z3.Select(s0["PRegistry.has_async"], z3.Const("o!aos", Int)))))}


@register
class PEngineStart(Contract):
    """engine.start() — abstract (own contracts under C11): no stored state => the initial
    activation is queued (async: pending until the first loop entry)."""
    qualnames = ["pickle:engine.start"]
    params = [("self", "PEngine")]
    returns = "None"
    modifies = ["PEngine.pending_initial"]
    trusted = True

    def post(self, s0, s, a, r):
        o = z3.Const("o!es", Int)
        return {"pending": z3.And(
            s.sel("PEngine.pending_initial", a.self.e) == z3.And(s0.sel("PEngine.is_async", a.self.e), z3.Not(NO_STATE_FLAG)) if False else
            s.sel("PEngine.pending_initial", a.self.e) == z3.And(s0.sel("PEngine.is_async", a.self.e), MODEL_NO_STATE),
            z3.ForAll([o], z3.Implies(o != a.self.e, z3.Select(s["PEngine.pending_initial"], o) == z3.Select(s0["PEngine.pending_initial"], o))))}


@register
class GetState(Contract):
    """__getstate__ (C17): everything in __dict__ except the registry, the state cache and the
    engine, plus the engine's rtc option."""

    qualnames = [SMQ + "__getstate__"]
    params = [("self", "PSM")]
    returns = "dict[str,Val]"
    modifies = ["dict.has+", "dict.val+"]
    properties = ["C17"]

    def pre(self, s, a):
        d = D(s, a.self.e)
        return {"constructed": z3.And(valid_obj(s, d), *[z3.Select(s.sel("dict.has", d), z3.StringVal(n)) for n in DROPPED],
                                      valid_obj(s, attr(s, a.self.e, "_engine")))}

    def post(self, s0, s, a, r):
        d = D(s0, a.self.e)
        k = z3.Const("k!gs", Str)
        dropped = z3.Or(*[k == z3.StringVal(n) for n in DROPPED])
        has, val = s.sel("dict.has", r), s.sel("dict.val", r)
        return {
            "C17|a-copy-not-the-live-dict": z3.And(r.e >= s0["ghost.alloc"], s.sel("dict.has", d) == s0.sel("dict.has", d)),
            "C17|every-option-and-attribute-survives": z3.ForAll([k], z3.Implies(z3.And(z3.Not(dropped), k != z3.StringVal("_rtc")), z3.And(
                z3.Select(has, k) == z3.Select(s0.sel("dict.has", d), k), z3.Select(val, k) == z3.Select(s0.sel("dict.val", d), k)))),
            "C17|rebuilt-parts-are-left-out": z3.And(*[z3.Not(z3.Select(has, z3.StringVal(n))) for n in DROPPED]),
            "C17|rtc-option-carried": z3.And(z3.Select(has, z3.StringVal("_rtc")),
                                             truthy(z3.Select(val, z3.StringVal("_rtc"))) == s0.sel("PEngine._rtc", attr(s0, a.self.e, "_engine"))),
        }


@register
class SetState(Contract):
    """__setstate__ (C17): the clone has the serialised attributes and options, the same listeners
    re-attached, an engine of the same kind as the original's, and the same pending activation."""

    qualnames = [SMQ + "__setstate__"]
    params = [("self", "PSM"), ("state", "dict[str,Val]")]
    returns = "None"
    raises = False
    modifies = ["dict.has", "dict.val", "PRegistry.has_async", "PRegistry.init_coll", "PRegistry.added_coll", "PEngine.is_async+", "PEngine.rtc+",
                "PEngine.pending_initial", "PEngine._rtc+", "list.arr+", "list.len+"]
    properties = ["C17"]
    local_types = {"listeners": "LMap"}

    def pre(self, s, a):
        d = D(s, a.self.e)
        st = a.state.e
        return {"blank-instance-and-a-state-from-getstate": z3.And(
            valid_obj(s, d), d != st,
            z3.Select(s.sel("dict.has", st), z3.StringVal("_listeners")), z3.Select(s.sel("dict.has", st), z3.StringVal("_rtc")),
            *[z3.Not(z3.Select(s.sel("dict.has", st), z3.StringVal(n))) for n in DROPPED])}

    def post(self, s0, s, a, r):
        me, st = a.self.e, a.state.e
        d = D(s0, me)
        k = z3.Const("k!ss", Str)
        special = z3.Or(*[k == z3.StringVal(n) for n in DROPPED + ["_listeners", "_rtc"]])
        eng = attr(s, me, "_engine")
        o_ = z3.Const("o!ssl", Int)
        listeners = z3.Select(s0.sel("dict.val", st), z3.StringVal("_listeners"))
        rtc = truthy(z3.Select(s0.sel("dict.val", st), z3.StringVal("_rtc")))
        # what the ORIGINAL machine's engine was: chosen at construction from machine, model AND listeners
        orig_async = z3.Or(ASYNC_MM, ASYNC_L(listeners))
        return {
            "C17|attributes-and-options-restored": z3.ForAll([k], z3.Implies(
                z3.And(z3.Not(special), z3.Select(s0.sel("dict.has", st), k)),
                z3.And(z3.Select(s.sel("dict.has", d), k), z3.Select(s.sel("dict.val", d), k) == z3.Select(s0.sel("dict.val", st), k)))),
            "C17|fresh-registry-cache-and-engine": z3.And(
                attr(s, me, "_callbacks") >= s0["ghost.alloc"], eng >= s0["ghost.alloc"],
                *[z3.Select(s.sel("dict.has", d), z3.StringVal(n)) for n in DROPPED + ["_listeners"]]),
            # equivalence needs the SAME registration order: constructor listeners are resolved together with the machine
            # and the model (interleaved per callback spec), later ones after everything else
            "C17|constructor-listeners-re-registered-with-the-machine": z3.ForAll([o_], MEMBER(s.sel("PRegistry.init_coll", attr(s, me, "_callbacks")), o_)
                                                                                == z3.And(L_HAS(listeners, o_), truthy(L_FLAG(listeners, o_))),
                                                                                patterns=[L_HAS(listeners, o_)]),
            "C17|added-listeners-re-attached-afterwards": z3.ForAll([o_], MEMBER(s.sel("PRegistry.added_coll", attr(s, me, "_callbacks")), o_)
                                                                  == z3.And(L_HAS(listeners, o_), z3.Not(truthy(L_FLAG(listeners, o_)))),
                                                                  patterns=[L_HAS(listeners, o_)]),
            "C17|rtc-option-restored": s.sel("PEngine._rtc", eng) == rtc,
            "C17|same-kind-of-engine-as-the-original": s.sel("PEngine.is_async", eng) == orig_async,
            "C17|same-pending-activation-as-the-original": s.sel("PEngine.pending_initial", eng) == z3.And(
                orig_async, z3.Not(model_has_state(s, me))),
        }
