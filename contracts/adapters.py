"""Contracts of the argument-delivery layer in statemachine/dispatcher.py (C07, C05): `callable_method`
and the two `signature_adapter` closures it returns (the `async def` one for coroutine functions, the
plain one otherwise).  The adapter is what CallbackWrapper._callback really is for a user callable, so
"a callback receives exactly the arguments it declares" passes through it:

    adapter(*args, **kwargs)  ==  a_callable(*ba.args, **ba.kwargs)   with
    ba = SignatureAdapter.from_callable(a_callable).bind_expected(*args, **kwargs)

The user callable is an oracle that only LOGS how it was invoked (who, positional bundle, keyword
bundle); its own effects on the heap are outside this contract (they are EnvCB's business one level
up, contracts/callbacks.py).  `inspect.BoundArguments.args/.kwargs` (stdlib) are modelled as two
attributes of the BoundArguments object.
"""
from __future__ import annotations

import ast
from types import SimpleNamespace

import z3

from pyvc.core import (
    A_II, B, BM, CLASSES, Clo, ClassModel, HEAP_SORTS, Int, NONE, O, Py, S, Str, declare_ghost, truthy,
)
from pyvc.execu import GLOBAL_NAMES, Contract, register

from .model import C, valid_obj
from .signature import BindExpected, valid_sig

DQ = "statemachine.dispatcher:"

declare_ghost("nuc", Int)  # number of invocations of raw user callables so far
declare_ghost("uc_who", A_II)  # k-th invocation: the callable ...
declare_ghost("uc_args", A_II)  # ... its positional bundle ...
declare_ghost("uc_kwargs", A_II)  # ... its keyword bundle
declare_ghost("nua", Int)  # number of awaits of results of raw user callables
declare_ghost("ua_what", A_II)  # k-th await: the awaited object
UC_LOG = ["ghost.nuc", "ghost.uc_who", "ghost.uc_args", "ghost.uc_kwargs"]
UA_LOG = ["ghost.nua", "ghost.ua_what"]
RAW_VAL = z3.Function("RAW_VAL", Int, Int)  # what the k-th invocation returned
RAW_FINAL = z3.Function("RAW_FINAL", Int, Int)  # what awaiting that yields
SIG_OF = z3.Function("SIG_OF", Int, Int)  # the SignatureAdapter of a callable

ClassModel("RawResult", methods={"__await__": C("user:raw-await")})
rc = ClassModel("RawCallable", fields={"is_partial": "bool", "func": "RawCallable", "__name__": "str", "__doc__": "Val"},
                methods={"__call__": C("user:raw-call")})
rc.isinstance_fn = lambda path, v, cls: path.sel("RawCallable.is_partial", v.e) if cls == "partial" else z3.BoolVal(cls == "RawCallable")
# `partial` stays the builtin model of contracts/dispatcher.py; isinstance(x, partial) asks the class model (isinstance_fn)

CLASSES["BoundArguments"].fields.update({"args": "list[Val]", "kwargs": "dict[str,Val]"})
HEAP_SORTS.setdefault("BoundArguments.args", A_II)
HEAP_SORTS.setdefault("BoundArguments.kwargs", A_II)
CLASSES["SignatureAdapter"].methods["bind_expected"] = C("statemachine.signature:SignatureAdapter.bind_expected")
CLASSES["SignatureAdapter"].py_fields["from_callable"] = Py(("func", "sig:from_callable"))
GLOBAL_NAMES["SignatureAdapter"] = Py(("class", "SignatureAdapter"))


@register
class RawCall(Contract):
    """ORACLE: one invocation of the user's own callable: logged, returns RAW_VAL(k) or raises."""

    qualnames = ["user:raw-call"]
    params = [("self", "RawCallable"), ("*args", "list[Val]"), ("**kwargs", "dict[str,Val]")]
    returns = "RawResult"
    raises = True
    modifies = UC_LOG
    trusted = True

    def _logged(self, s0, s, a):
        k = s0.g("nuc")
        return {"logged": z3.And(s.g("nuc") == k + 1, s.g("uc_who") == z3.Store(s0.g("uc_who"), k, a.self.e),
                                 s.g("uc_args") == z3.Store(s0.g("uc_args"), k, a.args.e),
                                 s.g("uc_kwargs") == z3.Store(s0.g("uc_kwargs"), k, a.kwargs.e))}

    def post(self, s0, s, a, r):
        return {**self._logged(s0, s, a), "value": r.e == RAW_VAL(s0.g("nuc"))}

    def exc_post(self, s0, s, a, x):
        return self._logged(s0, s, a)

    def assumptions(self):
        return ["the user's callable behind a signature adapter is an oracle that is only observed through how it is invoked; "
                "its own heap effects are not part of the adapter contract (EnvCB covers them at the wrapper level)"]


@register
class RawAwait(Contract):
    """ORACLE: awaiting what a user coroutine function returned."""

    qualnames = ["user:raw-await"]
    params = [("self", "RawResult")]
    returns = "Val"
    raises = True
    modifies = UA_LOG
    trusted = True
    is_async = False

    def _logged(self, s0, s, a):
        k = s0.g("nua")
        return {"logged": z3.And(s.g("nua") == k + 1, s.g("ua_what") == z3.Store(s0.g("ua_what"), k, a.self.e))}

    def post(self, s0, s, a, r):
        return {**self._logged(s0, s, a), "value": r.e == RAW_FINAL(a.self.e)}

    def exc_post(self, s0, s, a, x):
        return self._logged(s0, s, a)

    def assumptions(self):
        return []


@register
class FromCallable(Contract):
    """SignatureAdapter.from_callable(f) — ASSUMED: the signature of f (SIG_OF(f)), a valid signature
    object.  The real function goes through a process-wide cache whose key does not determine the
    signature: that is the recorded finding `signature-cache-key` (C07/C16), not hidden by this model."""

    qualnames = ["sig:from_callable"]
    params = [("method", "RawCallable")]
    returns = "SignatureAdapter"
    modifies = []
    trusted = True

    def post(self, s0, s, a, r):
        return {"the-callables-own-signature": z3.And(r.e == SIG_OF(a.method.e), valid_obj(s, r.e))}

    def assumptions(self):
        return ["SignatureAdapter.from_callable(f) returns f's own signature (modulo the recorded cache-key finding)"]


def _sig_ns(a):
    return SimpleNamespace(self=a.sig, args=a.args, kwargs=a.kwargs)


class _Adapter(Contract):
    """callable_method(f).<locals>.signature_adapter(*args, **kwargs): bind_expected of the captured
    signature is applied to exactly these arguments; if it binds, the captured callable is invoked
    exactly once with the positional and keyword parts of that binding, and its value is returned
    (awaited once first in the coroutine variant); if binding raises, the callable is not invoked."""

    params = [("sig", "SignatureAdapter"), ("a_callable", "RawCallable"), ("*args", "list[Val]"), ("**kwargs", "dict[str,Val]")]
    returns = "Val"
    raises = True
    exc_classes = None
    modifies = BindExpected.modifies + UC_LOG + UA_LOG
    properties = ["C07", "C05"]
    awaited = False

    def pre(self, s, a):
        return {"valid-signature": valid_sig(s, _sig_ns(a)), "log-cursors": z3.And(s.g("nuc") >= 0, s.g("nua") >= 0)}

    def reveal(self, s, a):
        # stdlib: `BoundArguments.args` builds its own tuple for its own object, so the bundle identifies the binding
        b = z3.Const("b!ba", Int)
        return {"ba-args-identify-their-binding": z3.ForAll([b], BA_OF_ARGS(z3.Select(s["BoundArguments.args"], b)) == b,
                                                            patterns=[z3.Select(s["BoundArguments.args"], b)])}

    def ghost_entry(self, path, a):
        # the closure's free variable `sig_bind_expected` is the bound method of the captured signature
        path.env["sig_bind_expected"] = BM(a.sig, "bind_expected")

    def _invoked(self, s0, s, a):
        k = s0.g("nuc")
        args_of, kwargs_of = s["BoundArguments.args"], s["BoundArguments.kwargs"]
        ba = BA_OF_ARGS(z3.Select(s.g("uc_args"), k))
        be = BindExpected()
        f = {
            "C07|the-captured-callable-is-invoked-exactly-once": z3.And(s.g("nuc") == k + 1, z3.Select(s.g("uc_who"), k) == a.a_callable.e),
            "C07|with-the-positional-and-keyword-parts-of-one-fresh-binding": z3.And(
                ba >= s0["ghost.alloc"], ba < s["ghost.alloc"],
                z3.Select(s.g("uc_args"), k) == z3.Select(args_of, ba), z3.Select(s.g("uc_kwargs"), k) == z3.Select(kwargs_of, ba)),
            "C07|bound-by-the-captured-signature": s.sel("BoundArguments.signature", ba) == a.sig.e,
        }
        for name, clause in be.post(s0, s, _sig_ns(a), O(ba, "BoundArguments")).items():
            if "literal:" in name:
                continue  # the recorded finding R2 is reported on bind_expected itself
            f["C07|binding-of-exactly-these-arguments:" + name.split("|")[-1]] = clause
        return f

    def post(self, s0, s, a, r):
        k = s0.g("nuc")
        f = self._invoked(s0, s, a)
        if self.awaited:
            f["C05,C07|the-coroutine-is-awaited-once-and-its-outcome-returned"] = z3.And(
                s.g("nua") == s0.g("nua") + 1, z3.Select(s.g("ua_what"), s0.g("nua")) == RAW_VAL(k), r.e == RAW_FINAL(RAW_VAL(k)))
        else:
            f["C05,C07|the-callables-own-value-is-returned-unawaited"] = z3.And(s.g("nua") == s0.g("nua"), r.e == RAW_VAL(k))
        return f

    def exc_post(self, s0, s, a, x):
        k = s0.g("nuc")
        inv = self._invoked(s0, s, a)
        return {"C07|a-binding-error-means-the-callable-was-not-invoked-otherwise-it-was-invoked-as-specified": z3.Or(
            z3.And(s.g("nuc") == k, s.g("nua") == s0.g("nua")), z3.And(*inv.values()))}


# ba.args identifies its BoundArguments object (a fresh list per binding in CPython: `args` builds a new tuple)
BA_OF_ARGS = z3.Function("BA_OF_ARGS", Int, Int)


@register
class AsyncAdapter(_Adapter):
    qualnames = [DQ + "callable_method.<locals>.signature_adapter#0"]
    awaited = True
    is_async = True


@register
class SyncAdapter(_Adapter):
    qualnames = [DQ + "callable_method.<locals>.signature_adapter#1"]
    awaited = False


@register
class CallableMethod(Contract):
    """callable_method(f): the adapter closed over f ITSELF and over the bound `bind_expected` of f's OWN
    signature (for a functools.partial: the partial's, whose pre-bound parameters are already removed,
    not the wrapped function's); the coroutine variant iff that signature says coroutine; `is_coroutine`
    copied; the name comes from the wrapped function."""

    qualnames = [DQ + "callable_method"]
    params = [("a_callable", "RawCallable")]
    returns = "any"
    modifies = []
    properties = ["C07", "C05"]

    def pre(self, s, a):
        return {"callable-valid": valid_obj(s, a.a_callable.e)}

    def post(self, s0, s, a, r):
        f_ = a.a_callable.e
        sig = SIG_OF(f_)
        if not isinstance(r, Clo):
            return {"C07|returns-the-signature-adapter-closure": z3.BoolVal(False)}
        cap_f = r.env.get("a_callable")
        cap_b = r.env.get("sig_bind_expected")
        is_async_def = isinstance(r.node, ast.AsyncFunctionDef)
        coro = s0.sel("SignatureAdapter.is_coroutine", sig)
        meta = z3.If(s0.sel("RawCallable.is_partial", f_), s0.sel("RawCallable.func", f_), f_)
        nm = r.attrs.get("__name__")
        ic = r.attrs.get("is_coroutine")
        return {
            "C07|returns-the-signature-adapter-closure": z3.BoolVal(getattr(r.node, "name", None) == "signature_adapter"),
            "C07|closed-over-the-callable-itself": (cap_f.e == f_) if isinstance(cap_f, O) else z3.BoolVal(False),
            "C07|binds-with-the-callables-own-signature": (
                z3.And(cap_b.recv.e == sig, z3.BoolVal(cap_b.name == "bind_expected"))
                if isinstance(cap_b, BM) and isinstance(cap_b.recv, O) else z3.BoolVal(False)),
            "C05|coroutine-variant-iff-the-signature-is-a-coroutines": z3.BoolVal(is_async_def) == coro,
            "C05|is_coroutine-flag-copied": (ic.e == coro) if isinstance(ic, B) else z3.BoolVal(False),
            "name-from-the-wrapped-function": (nm.e == s0.sel("RawCallable.__name__", meta)) if isinstance(nm, S) else z3.BoolVal(False),
        }
