#!/bin/bash
# tools/confirm_seed.sh <dir with patch.diff demo.py notes.txt> <property> <name>
# Confirms a seeded change in a scratch worktree of /repo (suite still passes with it; demo fails with it, passes
# without it) and stores it under /verif/seeded/<name>/ with meta.json.  The worktree is removed afterwards.
set -u
src="$1"; prop="$2"; name="$3"
wt=$(mktemp -d /tmp/seedchk.XXXXXX)
rmdir "$wt"
git -C /repo worktree add -q "$wt" HEAD || exit 9
cleanup(){ git -C /repo worktree remove --force "$wt" 2>/dev/null; rm -rf "$wt"; }
trap cleanup EXIT
cd "$wt"
demo0=$(PYTHONPATH="$wt" /venv/bin/python "$src/demo.py" >/dev/null 2>&1; echo $?)
if ! git apply "$src/patch.diff" 2>/dev/null; then echo "$name: patch does not apply to current /repo HEAD"; exit 9; fi
suite=$(/venv/bin/python -m pytest -q -p no:cacheprovider --timeout=900 2>&1 | tail -1)
demo1=$(PYTHONPATH="$wt" /venv/bin/python "$src/demo.py" >/dev/null 2>&1; echo $?)
ok=no
case "$suite" in *"348 passed"*) [ "$demo0" = 0 ] && [ "$demo1" = 1 ] && ok=yes;; esac
echo "$name: suite='$suite' demo_without=$demo0 demo_with=$demo1 confirmed=$ok"
if [ $ok = yes ]; then
  d=/verif/seeded/$name; mkdir -p "$d"
  cp "$src/patch.diff" "$src/demo.py" "$d/"; cp "$src/notes.txt" "$d/notes.txt" 2>/dev/null
  python3 - "$d" "$prop" "$suite" "$demo0" "$demo1" <<'PY'
import json, sys
d, prop, suite, d0, d1 = sys.argv[1:6]
notes = open(d + "/notes.txt").read() if __import__("os").path.exists(d + "/notes.txt") else ""
json.dump({"property": prop, "breaks": prop, "needs_to_manifest": notes.strip().splitlines()[:8],
           "confirmed": {"how": "tools/confirm_seed.sh in a scratch worktree of /repo HEAD (removed afterwards)",
                         "suite_with_change": suite, "demo_exit_without_change": int(d0), "demo_exit_with_change": int(d1)},
           "source": "independent sub-agent given only the property text and its own worktree"},
          open(d + "/meta.json", "w"), indent=1)
PY
fi
