"""Sidecar contracts for python-statemachine (nothing in /repo is edited).
Importing this package registers every class model and contract."""
from . import model  # noqa: F401  class tables, ghost state, shared predicates
from . import engines  # noqa: F401
from . import callbacks  # noqa: F401
from . import statemachine  # noqa: F401
from . import events  # noqa: F401
from . import entry  # noqa: F401
from . import construct  # noqa: F401
from . import graph  # noqa: F401
from . import signature  # noqa: F401
from . import specparser  # noqa: F401
from . import diagram  # noqa: F401
from . import pickling  # noqa: F401
from . import declaration  # noqa: F401
from . import dispatcher  # noqa: F401
from . import adapters  # noqa: F401
from . import registration  # noqa: F401
