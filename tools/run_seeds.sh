#!/bin/bash
# tools/run_seeds.sh [name-prefix] : apply each seeded change to /repo, run the check of the property it breaks, undo.
# Full output of every run is kept in ${SEEDLOGS:-/tmp/seedlogs}/<seed>.log (scratch, not needed by any registered command).
cd /verif
logs=${SEEDLOGS:-/tmp/seedlogs}; mkdir -p "$logs"
for d in seeded/${1:-}*/; do
  n=$(basename $d); [ -f $d/meta.json ] || continue
  p=$(python3 -c "import json;print(json.load(open('$d/meta.json'))['property'])")
  tools/try_patch.sh $PWD/$d/patch.diff $p > "$logs/$n.log" 2>&1
  ex=$(grep -o "exit [0-9]*" "$logs/$n.log" | tail -1)
  first=$(grep -m1 "failed obligation" "$logs/$n.log")
  echo "$n [$p] -> $ex | $first"
done
