"""Built-in models: containers, Lock, iterators and the builtin functions the repo code uses.
Each model is an *assumed contract* of a CPython primitive (DESIGN 6.4); the list of models that a
function check actually touched is reported in the evidence."""
from __future__ import annotations

import ast

import z3

from .core import (
    B, BM, CLASSES, Clo, Coro, Exc, I, NONE, NoneV, O, Py, S, T, V, ClassModel, MethodSpec, Unsupported,
    boxb, class_model, fresh, ref_of, split_generic, truth_of, truthy, wrap, Int, Bool, Str,
)
from .execu import BINOPS, BUILTINS, GLOBAL_NAMES, STR_METHODS, CallArgs, Norm, Raise, builtin

USED_MODELS = set()


def model(fn):
    def w(ex, path, recv, ca, node=None):
        USED_MODELS.add(fn.__name__)
        return fn(ex, path, recv, ca, node)
    return MethodSpec("model", w)


def _elem(cls, k=0, default="Val"):
    targs = split_generic(cls)[1]
    return targs[k] if len(targs) > k else default


# --------------------------------------------------------------------------- deque
@model
def deque_append(ex, path, q, ca, node):
    t = path.sel("deque.tail", q.e)
    path.store("deque.arr", q.e, z3.Store(path.sel("deque.arr", q.e), t, ref_of(ca.pos[0])))
    path.store("deque.tail", q.e, t + 1)
    return [(path, NoneV())]


@model
def deque_popleft(ex, path, q, ca, node):
    h, t = path.sel("deque.head", q.e), path.sel("deque.tail", q.e)
    out = []
    for p, ok in ex.branch(path, h < t):
        if ok:
            v = z3.Select(p.sel("deque.arr", q.e), h)
            p.store("deque.head", q.e, h + 1)
            out.append((p, wrap(_elem(q.cls), v)))
        else:
            out.append((p, Raise(Exc("IndexError", origin="deque.popleft"))))
    return out


@model
def deque_pop(ex, path, q, ca, node):
    h, t = path.sel("deque.head", q.e), path.sel("deque.tail", q.e)
    out = []
    for p, ok in ex.branch(path, h < t):
        if ok:
            v = z3.Select(p.sel("deque.arr", q.e), t - 1)
            p.store("deque.tail", q.e, t - 1)
            out.append((p, wrap(_elem(q.cls), v)))
        else:
            out.append((p, Raise(Exc("IndexError", origin="deque.pop"))))
    return out


@model
def deque_clear(ex, path, q, ca, node):
    path.store("deque.head", q.e, path.sel("deque.tail", q.e))
    return [(path, NoneV())]


@model
def deque_extend(ex, path, q, ca, node):
    src = ca.pos[0]
    if isinstance(src, Py) and src.obj[0] == "genexp":
        # extend(f(x) for x in xs): element-wise map, no filter, pure element expression
        gnode, env = src.obj[1], src.obj[2]
        gen = gnode.generators[0]
        if gen.ifs or len(gnode.generators) != 1:
            raise Unsupported("deque.extend of filtered generator")
        saved = path.env
        path.env = dict(env)
        its = ex.ev(gen.iter, path)
        if len(its) != 1 or isinstance(its[0][1], Raise):
            raise Unsupported("deque.extend iterable")
        sv = ex.seq_view(path, its[0][1], node)
        if sv[0] == "unroll":
            raise Unsupported("deque.extend over tuple")
        elem, n, et = sv
        k = fresh("k", Int)
        path.env[gen.target.id] = wrap(et, elem(k))
        rs = ex.ev(gnode.elt, path)
        path.env = saved
        if len(rs) != 1 or isinstance(rs[0][1], Raise):
            raise Unsupported("deque.extend element expression with effects")
        mapped = ref_of(rs[0][1])
        t = path.sel("deque.tail", q.e)
        old = path.sel("deque.arr", q.e)
        new = fresh("dq_arr", old.sort())
        path.assume(n >= 0)
        pp = fresh("p", Int)
        # one pointwise definition, triggered by Select(new, p)
        path.assume(z3.ForAll([pp], z3.Implies(
            pp < t + n,
            z3.Select(new, pp) == z3.If(pp < t, z3.Select(old, pp), z3.substitute(mapped, (k, pp - t)))),
            patterns=[z3.Select(new, pp)]))
        # the same fact indexed from the source side, triggered by the source element
        path.assume(z3.ForAll([k], z3.Implies(z3.And(k >= 0, k < n), z3.Select(new, t + k) == mapped),
                              patterns=[elem(k)]))
        path.store("deque.arr", q.e, new)
        path.store("deque.tail", q.e, t + n)
        return [(path, NoneV())]
    raise Unsupported("deque.extend of non-generator")


def deque_truthy(path, q):
    return path.sel("deque.head", q.e) < path.sel("deque.tail", q.e)


def deque_ctor(ex, path, ca, node):
    if ca.pos or set(ca.kw) - {"maxlen"}:
        raise Unsupported("deque(iterable)")
    if "maxlen" in ca.kw and not isinstance(ca.kw["maxlen"], NoneV):
        # the model (append never drops anything) is the model of an UNBOUNDED deque: that is its precondition
        ex.run.oblige(path, "builtin", f"deque-is-unbounded(maxlen=None)@{getattr(node, 'lineno', 0)}", z3.BoolVal(False))
    q = path.alloc("deque[Val]", "dq")
    path.store("deque.head", q.e, z3.IntVal(0))
    path.store("deque.tail", q.e, z3.IntVal(0))
    return [(path, q)]


m = ClassModel("deque", methods={"append": deque_append, "popleft": deque_popleft, "pop": deque_pop,
                                 "clear": deque_clear, "extend": deque_extend}, truthy_fn=deque_truthy)
m.ctor = deque_ctor
GLOBAL_NAMES["deque"] = Py(("class", "deque"))


# --------------------------------------------------------------------------- Lock
@model
def lock_acquire(ex, path, lk, ca, node):
    blocking = ca.kw.get("blocking", ca.pos[0] if ca.pos else B(z3.BoolVal(True)))
    if not (isinstance(blocking, B) and z3.is_false(z3.simplify(blocking.e))):
        raise Unsupported("blocking acquire")
    out = []
    for p, locked in ex.branch(path, path.sel("Lock.locked", lk.e)):
        if locked:
            out.append((p, B(z3.BoolVal(False))))
        else:
            p.store("Lock.locked", lk.e, z3.BoolVal(True))
            out.append((p, B(z3.BoolVal(True))))
    return out


@model
def lock_release(ex, path, lk, ca, node):
    out = []
    for p, locked in ex.branch(path, path.sel("Lock.locked", lk.e)):
        if locked:
            p.store("Lock.locked", lk.e, z3.BoolVal(False))
            out.append((p, NoneV()))
        else:
            out.append((p, Raise(Exc("RuntimeError", origin="Lock.release of unlocked lock"))))
    return out


@model
def lock_locked(ex, path, lk, ca, node):
    return [(path, B(path.sel("Lock.locked", lk.e)))]


m = ClassModel("Lock", methods={"acquire": lock_acquire, "release": lock_release, "locked": lock_locked})


def lock_ctor(ex, path, ca, node):
    lk = path.alloc("Lock", "lock")
    path.store("Lock.locked", lk.e, z3.BoolVal(False))
    return [(path, lk)]


m.ctor = lock_ctor
GLOBAL_NAMES["Lock"] = Py(("class", "Lock"))


# --------------------------------------------------------------------------- list
@model
def list_append(ex, path, l, ca, node):
    n = path.sel("list.len", l.e)
    item = ca.pos[0]
    if isinstance(item, Exc):
        item = path.alloc("Val", "excobj")  # an exception object stored as a value
    path.store("list.arr", l.e, z3.Store(path.sel("list.arr", l.e), n, ref_of(item)))
    path.store("list.len", l.e, n + 1)
    return [(path, NoneV())]


@model
def list_extend(ex, path, l, ca, node):
    src = ca.pos[0]
    sv = ex.seq_view(path, src, node)
    n0 = path.sel("list.len", l.e)
    old = path.sel("list.arr", l.e)
    if sv[0] == "unroll":
        arr = old
        for k, it in enumerate(sv[1]):
            arr = z3.Store(arr, n0 + k, ref_of(it))
        path.store("list.arr", l.e, arr)
        path.store("list.len", l.e, n0 + len(sv[1]))
        return [(path, NoneV())]
    elem, n, et = sv
    new = fresh("l_arr", old.sort())
    j = fresh("j", Int)
    path.assume(n >= 0)
    # one pointwise definition, triggered by Select(new, j)
    path.assume(z3.ForAll([j], z3.Implies(
        z3.And(j >= 0, j < n0 + n),
        z3.Select(new, j) == z3.If(j < n0, z3.Select(old, j), elem(j - n0))),
        patterns=[z3.Select(new, j)]))
    path.store("list.arr", l.e, new)
    path.store("list.len", l.e, n0 + n)
    return [(path, NoneV())]


def list_truthy(path, l):
    return path.sel("list.len", l.e) > 0


ClassModel("list", methods={"append": list_append, "extend": list_extend}, truthy_fn=list_truthy)


def list_concat(ex, path, a, b):
    res = ex.new_list(path, [])
    res = O(res.e, a.cls)
    for src in (a, b):
        list_extend.target(ex, path, res, CallArgs([src], {}), None)
    return [(path, res)]


BINOPS[("Add", "list")] = list_concat


# --------------------------------------------------------------------------- dict / set
@model
def dict_copy(ex, path, d, ca, node):
    nd = path.alloc(d.cls, "dcopy")
    base = split_generic(d.cls)[0]
    path.store(f"{base}.has", nd.e, path.sel(f"{base}.has", d.e))
    path.store(f"{base}.val", nd.e, path.sel(f"{base}.val", d.e))
    return [(path, nd)]


@model
def dict_pop(ex, path, d, ca, node):
    k = ca.pos[0]
    if not isinstance(k, S):
        raise Unsupported("dict.pop non-str key")
    has = z3.Select(path.sel("dict.has", d.e), k.e)
    if len(ca.pos) > 1 and isinstance(ca.pos[1], (O, NoneV, B, I)):
        # pop(key, default): one path, the value is a conditional (no fork)
        v = z3.If(has, z3.Select(path.sel("dict.val", d.e), k.e), ref_of(ca.pos[1]))
        path.store("dict.has", d.e, z3.Store(path.sel("dict.has", d.e), k.e, False))
        dflt = ca.pos[1]
        t = dflt.cls if isinstance(dflt, O) and dflt.cls not in ("Val",) else _elem(d.cls, 1)
        return [(path, wrap(t if t != "bool" else "Val", v))]
    out = []
    for p, bv in ex.branch(path, has):
        if bv:
            v = z3.Select(p.sel("dict.val", d.e), k.e)
            p.store("dict.has", d.e, z3.Store(p.sel("dict.has", d.e), k.e, False))
            out.append((p, wrap(_elem(d.cls, 1), v)))
        elif len(ca.pos) > 1:
            out.append((p, ca.pos[1]))
        else:
            out.append((p, Raise(Exc("KeyError", {"key": k}))))
    return out


@model
def dict_get(ex, path, d, ca, node):
    k = ca.pos[0]
    dflt = ca.pos[1] if len(ca.pos) > 1 else NoneV()
    base = split_generic(d.cls)[0]
    base = "dict" if base == "ddict" else base
    ke = k.e if base == "dict" else ref_of(k)
    has = z3.Select(path.sel(f"{base}.has", d.e), ke)
    v = z3.Select(path.sel(f"{base}.val", d.e), ke)
    return [(path, wrap(_elem(d.cls, 1), z3.If(has, v, ref_of(dflt))))]


def dict_truthy(path, d):
    base = split_generic(d.cls)[0]
    base = "dict" if base == "ddict" else base
    ks = Str if base == "dict" else Int
    k = z3.Const("k!dt", ks)
    return z3.Exists([k], z3.Select(path.sel(f"{base}.has", d.e), k))


ClassModel("dict", methods={"copy": dict_copy, "pop": dict_pop, "get": dict_get}, truthy_fn=dict_truthy)
ClassModel("idict", methods={"copy": dict_copy, "get": dict_get}, truthy_fn=dict_truthy)
ClassModel("ddict", methods={"get": dict_get}, truthy_fn=dict_truthy)


def ctor_from_init(qualclass: str, clsname: str):
    """Constructor = allocate + run the real __init__ body symbolically."""
    def ctor(ex, path, ca, node):
        obj = path.alloc(clsname, clsname.lower())
        outs = ex.call_inline(path, f"{qualclass}.__init__", obj, ca, node)
        return [(p, r if isinstance(r, Raise) else obj) for p, r in outs]
    return ctor


@model
def set_add(ex, path, s, ca, node):
    base = split_generic(s.cls)[0]
    k = ca.pos[0]
    ke = k.e if base == "sset" else ref_of(k)
    path.store(f"{base}.has", s.e, z3.Store(path.sel(f"{base}.has", s.e), ke, True))
    return [(path, NoneV())]


ClassModel("set", methods={"add": set_add})
ClassModel("sset", methods={"add": set_add})


def set_ctor(ex, path, ca, node):
    if ca.pos:
        raise Unsupported("set(iterable) – use a contract")
    s = path.alloc("set[Val]", "set")
    path.store("set.has", s.e, z3.K(Int, False))
    return [(path, s)]


CLASSES["set"].ctor = set_ctor
GLOBAL_NAMES["set"] = Py(("class", "set"))

ClassModel("tuple")
ClassModel("object")
ClassModel("Val", truthy_fn=lambda path, v: truthy(v.e))


# --------------------------------------------------------------------------- iterators
def make_iter(ex, path, v, node=None):
    sv = ex.seq_view(path, v, node)
    if sv[0] == "unroll":
        items = sv[1]
        it = path.alloc("iter[Val]", "it")
        arr = z3.K(Int, NONE)
        for k, x in enumerate(items):
            arr = z3.Store(arr, k, ref_of(x))
        path.store("iter.arr", it.e, arr)
        path.store("iter.len", it.e, z3.IntVal(len(items)))
        path.store("iter.pos", it.e, z3.IntVal(0))
        if items and isinstance(items[0], O):
            it = O(it.e, f"iter[{items[0].cls}]")
        return it
    elem, n, et = sv
    it = path.alloc(f"iter[{et}]", "it")
    arr = fresh("it_arr", z3.ArraySort(Int, Int))
    k = fresh("k", Int)
    path.assume(z3.ForAll([k], z3.Implies(z3.And(k >= 0, k < n), z3.Select(arr, k) == elem(k))))
    path.assume(n >= 0)
    path.store("iter.arr", it.e, arr)
    path.store("iter.len", it.e, n)
    path.store("iter.pos", it.e, z3.IntVal(0))
    return it


def iter_seq_view(ex, path, it):
    # remaining items of the iterator
    arr, pos, n = path.sel("iter.arr", it.e), path.sel("iter.pos", it.e), path.sel("iter.len", it.e)
    return arr, pos, n


ClassModel("iter")


@builtin("iter")
def b_iter(ex, path, ca, node):
    return [(path, make_iter(ex, path, ca.pos[0], node))]


@builtin("next")
def b_next(ex, path, ca, node):
    it = ca.pos[0]
    if not (isinstance(it, O) and split_generic(it.cls)[0] == "iter"):
        raise Unsupported("next() of non-iterator")
    pos, n = path.sel("iter.pos", it.e), path.sel("iter.len", it.e)
    out = []
    for p, more in ex.branch(path, pos < n):
        if more:
            v = z3.Select(p.sel("iter.arr", it.e), pos)
            p.store("iter.pos", it.e, pos + 1)
            out.append((p, wrap(_elem(it.cls), v)))
        elif len(ca.pos) > 1:
            out.append((p, ca.pos[1]))
        else:
            out.append((p, Raise(Exc("StopIteration"))))
    return out


# --------------------------------------------------------------------------- builtin functions
@builtin("len")
def b_len(ex, path, ca, node):
    v = ca.pos[0]
    if isinstance(v, T):
        return [(path, I(z3.IntVal(len(v.items))))]
    if isinstance(v, S):
        return [(path, I(z3.Length(v.e)))]
    if isinstance(v, O):
        base = split_generic(v.cls)[0]
        if base == "list":
            return [(path, I(path.sel("list.len", v.e)))]
        if base == "deque":
            return [(path, I(path.sel("deque.tail", v.e) - path.sel("deque.head", v.e)))]
        m = class_model(v.cls)
        me = m._find("methods", "__len__")
        if me is not None:
            return ex.invoke_spec(path, me[1], v, CallArgs([], {}), f"{m.name}.__len__", node)
    raise Unsupported(f"len of {v}")


@builtin("bool")
def b_bool(ex, path, ca, node):
    return [(path, B(truth_of(path, ca.pos[0])))]


@builtin("isinstance")
def b_isinstance(ex, path, ca, node):
    v, c = ca.pos
    classes = list(c.items) if isinstance(c, T) else [c]
    names = []
    for k in classes:
        if not (isinstance(k, Py) and k.obj[0] in ("class", "exc", "astclass", "builtin")):
            raise Unsupported(f"isinstance against {k}")
        # a callable modelled as a builtin that is also a type (functools.partial): its name is the class name
        names.append(("class", k.obj[1]) if k.obj[0] == "builtin" else k.obj)
    if isinstance(v, (S,)):
        return [(path, B(z3.BoolVal(any(n == ("class", "str") for n in names))))]
    if isinstance(v, NoneV):
        return [(path, B(z3.BoolVal(False)))]
    if isinstance(v, Exc) and isinstance(v.tag, str):
        from .core import exc_is_sub_static
        return [(path, B(z3.BoolVal(any(n[0] == "exc" and exc_is_sub_static(v.tag, n[1]) for n in names))))]
    if isinstance(v, O):
        m = class_model(v.cls)
        dyn = getattr(m, "isinstance_fn", None)
        if dyn is not None:
            return [(path, B(z3.Or(*[dyn(path, v, n[1]) for n in names])))]
        if v.cls.startswith("Opt["):
            st = any(n[0] == "class" and m.isinstance_of(n[1]) for n in names)
            return [(path, B(z3.And(v.e != NONE, st)))]
        return [(path, B(z3.BoolVal(any(n[0] == "class" and m.isinstance_of(n[1]) for n in names))))]
    if isinstance(v, (Clo, BM)):
        return [(path, B(z3.BoolVal(False)))]
    raise Unsupported(f"isinstance of {v}")


@builtin("isawaitable")
def b_isawaitable(ex, path, ca, node):
    v = ca.pos[0]
    if isinstance(v, Coro):
        return [(path, B(z3.BoolVal(True)))]
    if isinstance(v, O):
        m = class_model(v.cls)
        fn = getattr(m, "awaitable_fn", None)
        if fn is not None:
            return [(path, B(fn(path, v)))]
        return [(path, B(z3.BoolVal(False)))]
    return [(path, B(z3.BoolVal(False)))]


@builtin("id")
def b_id(ex, path, ca, node):
    return [(path, I(ref_of(ca.pos[0])))]


@builtin("tuple")
def b_tuple(ex, path, ca, node):
    if not ca.pos:
        return [(path, T(()))]
    v = ca.pos[0]
    if isinstance(v, T):
        return [(path, v)]
    if isinstance(v, O) and split_generic(v.cls)[0] == "list":
        # tuple(list): an immutable snapshot with the same items
        t = path.alloc(v.cls, "tup")
        path.store("list.arr", t.e, path.sel("list.arr", v.e))
        path.store("list.len", t.e, path.sel("list.len", v.e))
        return [(path, t)]
    raise Unsupported("tuple(iterable)")


@builtin("list")
def b_list(ex, path, ca, node):
    if not ca.pos:
        return [(path, ex.new_list(path, []))]
    v = ca.pos[0]
    if isinstance(v, Py) and v.obj[0] == "genexp":
        return ex.comprehension(v.obj[1], path, "list", env=v.obj[2])
    if isinstance(v, O):
        fn = getattr(class_model(v.cls), "list_fn", None)  # an abstract collection defines list(x) itself
        if fn is not None:
            return fn(ex, path, v, node)
    sv = ex.seq_view(path, v, node)
    if sv[0] == "unroll":
        return [(path, ex.new_list(path, sv[1]))]
    elem, n, et = sv
    res = O(ex.new_list(path, []).e, f"list[{et}]")
    list_extend.target(ex, path, res, CallArgs([v], {}), node)
    return [(path, res)]


def _consume_genexp(ex, path, gv, node, early_value: bool):
    """any()/all() over a generator expression, desugared to an early-exit loop.
    any: return True at the first truthy element, else False (early_value=True);
    all: return False at the first falsy element, else True."""
    gnode, env = gv.obj[1], gv.obj[2]
    if len(gnode.generators) != 1:
        raise Unsupported("multi-clause generator")
    gen = gnode.generators[0]
    test = gnode.elt if early_value else ast.UnaryOp(ast.Not(), gnode.elt)
    body = ast.If(test, [ast.Return(ast.Constant(early_value))], [])
    for cond in reversed(gen.ifs):
        body = ast.If(cond, [body], [])
    loop = ast.For(gen.target, gen.iter, [body], [])
    ast.copy_location(loop, gnode)
    ast.fix_missing_locations(loop)
    ex.loop_ids[id(loop)] = ex.loop_ids[id(gnode)]
    saved = path.env
    path.env = dict(env)
    out = []
    from .execu import Ret
    for p, oc in ex.exec_For(loop, path):
        p.env = saved
        if isinstance(oc, Ret):
            out.append((p, oc.v))
        elif isinstance(oc, Raise):
            out.append((p, oc))
        elif isinstance(oc, Norm):
            out.append((p, B(z3.BoolVal(not early_value))))
        else:
            raise Unsupported("control flow in generator")
    return out


@builtin("any")
def b_any(ex, path, ca, node):
    v = ca.pos[0]
    if isinstance(v, Py) and v.obj[0] == "genexp":
        return _consume_genexp(ex, path, v, node, True)
    raise Unsupported("any() of non-generator")


@builtin("all")
def b_all(ex, path, ca, node):
    v = ca.pos[0]
    if isinstance(v, Py) and v.obj[0] == "genexp":
        return _consume_genexp(ex, path, v, node, False)
    raise Unsupported("all() of non-generator")


@builtin("str")
def b_str(ex, path, ca, node):
    v = ca.pos[0]
    if isinstance(v, S):
        return [(path, v)]
    if isinstance(v, O):
        fn = getattr(class_model(v.cls), "as_str", None)
        if fn is not None:
            return [(path, S(fn(path, v)))]
    raise Unsupported(f"str() of {v}")


@builtin("callable")
def b_callable(ex, path, ca, node):
    v = ca.pos[0]
    if isinstance(v, (Clo, BM)):
        return [(path, B(z3.BoolVal(True)))]
    if isinstance(v, NoneV):
        return [(path, B(z3.BoolVal(False)))]
    if isinstance(v, O):
        m = class_model(v.cls)
        fn = getattr(m, "callable_fn", None)
        if fn is not None:
            return [(path, B(fn(path, v)))]
        if m._find("methods", "__call__") is not None:  # the modelled class defines __call__
            return [(path, B(v.e != NONE if v.cls.startswith("Opt[") else z3.BoolVal(True)))]
    raise Unsupported(f"callable() of {v}")


@builtin("hasattr")
def b_hasattr(ex, path, ca, node):
    v, name = ca.pos
    if isinstance(v, O):
        fn = getattr(class_model(v.cls), "hasattr_fn", None)
        if fn is not None:
            return [(path, B(fn(path, v, name)))]
    if isinstance(v, Clo) and isinstance(name, S) and z3.is_string_value(name.e):
        return [(path, B(z3.BoolVal(name.e.as_string() in v.attrs)))]
    raise Unsupported(f"hasattr of {v}")


@builtin("getattr")
def b_getattr(ex, path, ca, node):
    v, name = ca.pos[0], ca.pos[1]
    if isinstance(v, O):
        fn = getattr(class_model(v.cls), "getattr_fn", None)
        if fn is not None:
            return fn(ex, path, v, name, ca.pos[2] if len(ca.pos) > 2 else None, node)
    if isinstance(name, S) and z3.is_string_value(name.e):
        nm = name.e.as_string()
        if isinstance(v, Clo):
            if nm in v.attrs:
                return [(path, v.attrs[nm])]
            if len(ca.pos) > 2:
                return [(path, ca.pos[2])]
        if isinstance(v, O):
            return ex.getattr_v(path, v, nm, node)
    raise Unsupported(f"getattr of {v}")


@builtin("setattr")
def b_setattr(ex, path, ca, node):
    v, name, val = ca.pos
    if isinstance(v, O):
        fn = getattr(class_model(v.cls), "setattr_fn", None)
        if fn is not None:
            return fn(ex, path, v, name, val, node)
    raise Unsupported(f"setattr on {v}")


# --------------------------------------------------------------------------- asyncio (assumed contracts)
from .core import Coro  # noqa: E402

GLOBAL_NAMES["asyncio"] = Py(("module", "asyncio"))


class CoroList(V):
    """A list of coroutine objects built by `[f(x) for x in xs]` where f is a coroutine function:
    creation has no effect; element k is run when (and only when) it is awaited."""

    def __init__(self, node, env, ordinal):
        self.node, self.env, self.ordinal = node, env, ordinal


def _gather(ex, path, ca, node):
    """asyncio.gather(*aws) — ASSUMED CONTRACT: starts every awaitable, returns when all have
    completed, results in argument order.  Modelled as awaiting them one after the other in
    argument order: the order of effects *inside* one callback group is left unconstrained by the
    properties (C02), so any interleaving of the group is represented by this one up to EnvCB.
    On an exception the first one propagates (the others are left running: not modelled)."""
    USED_MODELS.add("asyncio.gather")
    star = ca.star
    swallow = False
    kw = dict(ca.kw)
    if "return_exceptions" in kw:
        re_ = kw.pop("return_exceptions")
        if not isinstance(re_, B) or not (z3.is_true(z3.simplify(re_.e)) or z3.is_false(z3.simplify(re_.e))):
            raise Unsupported("gather(return_exceptions=<symbolic>)")
        swallow = z3.is_true(z3.simplify(re_.e))
    if not (isinstance(star, Py) and star.obj[0] == "genexp") or ca.pos or kw:
        raise Unsupported("asyncio.gather of anything but one starred generator expression")
    gnode, env = star.obj[1], star.obj[2]
    ident = next(ex.run.coro_counter)
    path.coros[ident] = "asyncio.gather"

    def thunk(p):
        lc = ast.ListComp(ast.Await(gnode.elt), gnode.generators)
        ast.copy_location(lc, gnode)
        ast.fix_missing_locations(lc)
        ex.loop_ids[id(lc)] = ex.loop_ids[id(gnode)]
        # return_exceptions=True: an exception raised by an awaitable becomes its result
        return ex.comprehension(lc, p, "list", env=env, swallow=swallow)

    return [(path, Coro(thunk, ident))]


BUILTINS["asyncio.gather"] = _gather
GLOBAL_NAMES["asyncio.gather"] = Py(("builtin", "asyncio.gather"))


def _as_completed(ex, path, ca, node):
    """asyncio.as_completed(coros) — ASSUMED CONTRACT: starts all of them and yields them in
    completion order.  Modelled as yielding them in list order (one representative completion
    order; guards of one group are independent up to EnvCB)."""
    USED_MODELS.add("asyncio.as_completed")
    v = ca.pos[0]
    if not isinstance(v, CoroList):
        raise Unsupported("asyncio.as_completed of anything but a list of coroutine calls")
    return [(path, v)]


BUILTINS["asyncio.as_completed"] = _as_completed
GLOBAL_NAMES["asyncio.as_completed"] = Py(("builtin", "asyncio.as_completed"))


# --------------------------------------------------------------------------- str methods
def _as_z3str(path, v):
    if isinstance(v, S):
        return v.e
    if isinstance(v, O):
        fn = getattr(class_model(v.cls), "as_str", None)
        if fn is not None:
            return fn(path, v)
    raise Unsupported(f"not a string: {v}")


def _str_startswith(ex, path, recv, ca, node):
    return [(path, B(z3.PrefixOf(_as_z3str(path, ca.pos[0]), recv.e)))]


def _str_endswith(ex, path, recv, ca, node):
    return [(path, B(z3.SuffixOf(_as_z3str(path, ca.pos[0]), recv.e)))]


def _str_strip(ex, path, recv, ca, node):
    raise Unsupported("str.strip")


STR_METHODS["startswith"] = _str_startswith
STR_METHODS["endswith"] = _str_endswith


@builtin("super")
def b_super(ex, path, ca, node):
    """super() inside a method: the same object seen through its first base class."""
    me = path.env.get("self")
    if not isinstance(me, O) or ca.pos:
        raise Unsupported("super() outside a modelled method")
    m = class_model(me.cls)
    if not m.bases:
        raise Unsupported(f"super() in {me.cls}: no modelled base")
    return [(path, O(me.e, m.bases[0]))]


@builtin("run_async_from_sync")
def b_run_async_from_sync(ex, path, ca, node):
    """statemachine.utils.run_async_from_sync — ASSUMED CONTRACT (asyncio): the coroutine is run to
    completion exactly once: by the awaiting caller when a loop is running (it is returned as
    is), otherwise here on the thread's cached loop.  Both are represented by handing the
    coroutine on; contracts of coroutine-returning functions are checked on the awaited result."""
    USED_MODELS.add("run_async_from_sync")
    v = ca.pos[0]
    if isinstance(v, Coro):
        return [(path, v)]
    return ex.await_value(path, v, node)


@builtin("_")
def b_gettext(ex, path, ca, node):
    """i18n `_()`: identity on control flow (DESIGN 2.3)."""
    return [(path, ca.pos[0])]


def _str_format(ex, path, recv, ca, node):
    # message text only: an uninterpreted string of the arguments
    return [(path, S(fresh("formatted", Str)))]


def _str_join(ex, path, recv, ca, node):
    return [(path, S(fresh("joined", Str)))]


STR_METHODS["format"] = _str_format
STR_METHODS["join"] = _str_join


# --------------------------------------------------------------------------- sets from iterables, set difference
def set_from_seq(ex, path, v, node=None):
    """set(iterable): membership = occurrence in the sequence."""
    sv = ex.seq_view(path, v, node)
    st = path.alloc("set[Val]", "set")
    if sv[0] == "unroll":
        has = z3.K(Int, False)
        for it in sv[1]:
            has = z3.Store(has, ref_of(it), True)
        path.store("set.has", st.e, has)
        return st
    elem, n, et = sv
    has = fresh("set_has", z3.ArraySort(Int, Bool))
    x, k = fresh("x", Int), fresh("k", Int)
    path.assume(n >= 0)
    path.assume(z3.ForAll([k], z3.Implies(z3.And(k >= 0, k < n), z3.Select(has, elem(k))), patterns=[elem(k)]))
    path.assume(z3.ForAll([x], z3.Implies(z3.Select(has, x), z3.Exists([k], z3.And(k >= 0, k < n, elem(k) == x))),
                          patterns=[z3.Select(has, x)]))
    path.store("set.has", st.e, has)
    return O(st.e, f"set[{et}]")


def _set_ctor2(ex, path, ca, node):
    if not ca.pos:
        return set_ctor(ex, path, ca, node)
    return [(path, set_from_seq(ex, path, ca.pos[0], node))]


CLASSES["set"].ctor = _set_ctor2


def set_sub(ex, path, a, b):
    r = path.alloc(a.cls, "setdiff")
    ha, hb = path.sel("set.has", a.e), path.sel("set.has", b.e)
    has = fresh("diff_has", ha.sort())
    x = fresh("x", Int)
    path.assume(z3.ForAll([x], z3.Select(has, x) == z3.And(z3.Select(ha, x), z3.Not(z3.Select(hb, x))),
                          patterns=[z3.Select(has, x)]))
    path.store("set.has", r.e, has)
    return [(path, r)]


BINOPS[("Sub", "set")] = set_sub


def set_truthy(path, v):
    x = z3.Const("x!st", Int)
    return z3.Exists([x], z3.Select(path.sel("set.has", v.e), x))


CLASSES["set"].truthy_fn = set_truthy

GLOBAL_NAMES["warnings"] = Py(("module", "warnings"))


def _warn(ex, path, ca, node):
    path.hset("ghost.nwarn", path.hget("ghost.nwarn") + 1)
    return [(path, NoneV())]


BUILTINS["warnings.warn"] = _warn
GLOBAL_NAMES["warnings.warn"] = Py(("builtin", "warnings.warn"))
GLOBAL_NAMES["UserWarning"] = Py(("const", "UserWarning"))
GLOBAL_NAMES["DeprecationWarning"] = Py(("const", "DeprecationWarning"))


@builtin("chain")
def b_chain(ex, path, ca, node):
    """itertools.chain(a, b): a fresh iterator over the items of a, then the remaining items of b
    (b itself is not advanced in this model: the repo never uses b again afterwards)."""
    USED_MODELS.add("itertools.chain")
    if len(ca.pos) != 2:
        raise Unsupported("chain() of other than two iterables")
    a, b = ca.pos
    sva, svb = ex.seq_view(path, a, node), ex.seq_view(path, b, node)
    if sva[0] != "unroll" or svb[0] == "unroll":
        raise Unsupported("chain(<symbolic>, ...) / chain(..., <tuple>)")
    items = sva[1]
    elem, n, et = svb
    it = path.alloc(f"iter[{et}]", "chain")
    arr = fresh("chain_arr", z3.ArraySort(Int, Int))
    m = len(items)
    for k, x in enumerate(items):
        path.assume(z3.Select(arr, k) == ref_of(x))
    kk = fresh("k", Int)
    path.assume(n >= 0)
    path.assume(z3.ForAll([kk], z3.Implies(z3.And(kk >= m, kk < m + n), z3.Select(arr, kk) == elem(kk - m)),
                          patterns=[z3.Select(arr, kk)]))
    path.store("iter.arr", it.e, arr)
    path.store("iter.len", it.e, m + n)
    path.store("iter.pos", it.e, z3.IntVal(0))
    return [(path, it)]


@model
def dict_update(ex, path, d, ca, node):
    """d.update(other) for str-keyed dicts: other's entries win."""
    o = ca.pos[0]
    has, val = path.sel("dict.has", d.e), path.sel("dict.val", d.e)
    oh, ov = path.sel("dict.has", o.e), path.sel("dict.val", o.e)
    nh, nv = fresh("upd_has", has.sort()), fresh("upd_val", val.sort())
    k = fresh("k", Str)
    path.assume(z3.ForAll([k], z3.And(
        z3.Select(nh, k) == z3.Or(z3.Select(has, k), z3.Select(oh, k)),
        z3.Select(nv, k) == z3.If(z3.Select(oh, k), z3.Select(ov, k), z3.Select(val, k)))))
    path.store("dict.has", d.e, nh)
    path.store("dict.val", d.e, nv)
    return [(path, NoneV())]


@model
def dict_keys(ex, path, d, ca, node):
    """dict.keys() of an opaque-keyed dict used only to be forwarded: an opaque view object."""
    return [(path, O(d.e, "Val"))]


CLASSES["dict"].methods["update"] = dict_update
CLASSES["dict"].methods["keys"] = dict_keys
