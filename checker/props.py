"""Per-property wiring: lemmas, frame scans, bounded stand-ins, replay search, assumptions.
Which functions a property depends on comes from `Contract.properties`; which obligations of
those functions count for it comes from the `Cxx|` tags in obligation labels (untagged
obligations — callee preconditions, frames, well-formedness — count for every property of the
function)."""
from __future__ import annotations

COMMON_ASSUMPTIONS = [
    "EnvCB (DESIGN 3.4): user callbacks touch engine state only through the public API; in RTC mode with the lock held a nested send only appends to the queue",
    "WF(cls) (DESIGN 3.3): transition lists hold pairwise distinct well-formed transitions; state values are pairwise distinct and mapped",
    "single-machine world: contracts speak about one machine/engine/registry/model; other machines are covered by the frame",
    "termination is not proved (partial correctness)",
    "left-to-right evaluation order, id() injective on live objects, weakref.proxy/ref transparent (DESIGN 2.3)",
]

PROPERTIES = {
    "C01": {},
    "C02": {},
    "C03": {},
    "C04": {},
    "C14": {},
}
