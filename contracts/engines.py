"""Contracts of the two engines.  The sync and async functions are bound to the SAME contract
classes (the async binding only sets is_async), which is what makes C05 relational."""
from __future__ import annotations

import z3

from pyvc.core import B, EXC_CODE, Exc, I, NONE, NoneV, O, S, T, Int, Bool, Str, ref_of, truthy, FIRST_ADDR
from pyvc.execu import Contract, LoopSpec, register

from .model import (
    ASYN, BASE, ENV_MODIFIES, GK_ALL, GK_CALL, INITIAL_ID, MATCH, SYNC, W, env_effect, kw_state, locked,
    mstate, others_kept, prefix_kept, qarr, qh, qt, rtc, wf_world, queue_items_valid, AsyncBinding, wf_registry, dicts_kept, wf_cache,
)


def _ns(s0, s, when):
    from .callbacks import none_swallowed
    return none_swallowed(s0, s, when)


def is_exception(x: Exc):
    """z3 Bool / python bool: the escaping exception is an instance of `Exception`."""
    r = x.is_sub("Exception")
    return z3.BoolVal(r) if isinstance(r, bool) else r


def td_valid(s, td):
    return {
        "td:machine": s.sel("TriggerData.machine", td) == W.SM,
        "td:model": s.sel("TriggerData.model", td) == W.MODEL,
        "td:event-valid": z3.And(s.sel("TriggerData.event", td) >= FIRST_ADDR,
                                 s.sel("TriggerData.event", td) < s["ghost.alloc"]),
    }


# =========================================================================== processing_loop
class ProcessingLoop(Contract):
    """C03 / C04 / C06 / C11: the drain loop.

    case (a) rtc and the lock is busy  -> nested call: nothing happens, result None
    case (b) rtc and the lock is free  -> this call drains the queue FIFO, releases the lock
    case (c) not rtc                   -> pops one item and triggers it immediately
    """

    qualnames = [SYNC + "processing_loop"]
    params = [("self", "SyncEngine")]
    returns = "Val"
    raises = True
    modifies = ENV_MODIFIES + ["Lock.locked"]
    properties = ["C03", "C04", "C06", "C11", "C14"]

    def pre(self, s, a):
        f = dict(wf_world(s))
        f["self-is-engine"] = a.self.e == W.ENG
        f["registry-wf"] = wf_registry(s)
        f["state-cache-wf"] = wf_cache(s)
        f["queue-items-valid"] = queue_items_valid(s)
        from .model import wf_class
        f.update(wf_class(s))
        return f

    def post(self, s0, s, a, r):
        res = ref_of(r)
        nested = z3.And(rtc(s0), locked(s0))
        outer = z3.And(rtc(s0), z3.Not(locked(s0)))
        n0, h0, t0 = s0.g("ntrig"), qh(s0), qt(s0)
        nonrtc = z3.And(z3.Not(rtc(s0)), h0 < t0)
        k = z3.Const("k!pl", Int)
        m = z3.Const("m!pl", Int)
        f = {
            # (c') non-RTC with nothing queued (re-activation, resume over a stored state): a no-op
            "C11|nonrtc-empty:no-op": z3.Implies(z3.And(z3.Not(rtc(s0)), h0 == t0), z3.And(
                res == NONE, s.g("ntrig") == n0, s.g("ng") == s0.g("ng"), mstate(s) == mstate(s0),
                qh(s) == h0, qt(s) == t0, locked(s) == locked(s0))),
            # (a) nested send: queued, not started, returns None
            "nested:returns-None": z3.Implies(nested, res == NONE),
            "nested:nothing-triggered": z3.Implies(nested, z3.And(
                s.g("ntrig") == n0, s.g("ng") == s0.g("ng"), mstate(s) == mstate(s0))),
            "nested:queue-untouched": z3.Implies(nested, z3.And(
                qh(s) == h0, qt(s) == t0, qarr(s) == qarr(s0))),
            "nested:lock-untouched": z3.Implies(nested, locked(s)),
            # (b) outermost call: everything drained, FIFO, lock released
            "outer:queue-drained": z3.Implies(outer, qh(s) == qt(s)),
            "outer:lock-released": z3.Implies(outer, z3.Not(locked(s))),
            "outer:every-item-triggered-once": z3.Implies(outer, s.g("ntrig") - n0 == qt(s) - h0),
            "outer:fifo": z3.Implies(outer, z3.ForAll([k], z3.Implies(
                z3.And(k >= h0, k < qt(s)),
                z3.Select(s.g("trig_log"), n0 + k - h0) == z3.Select(qarr(s), k)))),
            "outer:sent-log-append-only": z3.Implies(outer, z3.And(
                qt(s) >= t0, prefix_kept(qarr(s0), qarr(s), t0))),
            "outer:sentinel-never-escapes": z3.Implies(outer, res != W.SENT),
            "C04|outer:a-failing-callback-is-not-swallowed": _ns(s0, s, outer),
            "C11|outer:empty-queue-is-a-no-op": z3.Implies(z3.And(outer, h0 == t0), z3.And(
                s.g("ntrig") == n0, s.g("ng") == s0.g("ng"), s.g("ncb") == s0.g("ncb"), mstate(s) == mstate(s0),
                qt(s) == t0, res == NONE)),
            "C03,C14|outer:result-is-first-non-sentinel-result": z3.Implies(outer, z3.Or(
                z3.And(res == NONE, z3.ForAll([k], z3.Implies(
                    z3.And(k >= n0, k < s.g("ntrig")),
                    z3.Select(s.g("trig_res"), k) == W.SENT))),
                z3.Exists([m], z3.And(
                    m >= n0, m < s.g("ntrig"), z3.Select(s.g("trig_res"), m) == res,
                    z3.ForAll([k], z3.Implies(z3.And(k >= n0, k < m),
                                              z3.Select(s.g("trig_res"), k) == W.SENT)))))),
            # (c) non-RTC: immediate, depth-first
            "nonrtc:triggers-head-item-now": z3.Implies(nonrtc, z3.And(
                s.g("ntrig") >= n0 + 1, z3.Select(s.g("trig_log"), n0) == z3.Select(qarr(s0), h0))),
            "C03,C14|nonrtc:returns-its-own-result": z3.Implies(nonrtc, z3.Select(s.g("trig_res"), n0) == res),
            "nonrtc:queue-balanced": z3.Implies(nonrtc, qt(s) - qh(s) == t0 - h0 - 1),
            "nonrtc:lock-untouched": z3.Implies(nonrtc, locked(s) == locked(s0)),
            "sent-log-append-only": z3.And(qt(s) >= t0, prefix_kept(qarr(s0), qarr(s), t0, "sl2")),
            "dicts-of-old-objects-kept": dicts_kept(s0, s),
        }
        return f

    def exc_post(self, s0, s, a, x):
        nested = z3.And(rtc(s0), locked(s0))
        outer = z3.And(rtc(s0), z3.Not(locked(s0)))
        nonrtc = z3.And(z3.Not(rtc(s0)), qh(s0) < qt(s0))
        return {
            "C11|nonrtc-empty:never-raises": z3.Not(z3.And(z3.Not(rtc(s0)), qh(s0) == qt(s0))),
            "nested:never-raises": z3.Not(nested),
            "outer:lock-released-on-any-exception": z3.Implies(outer, z3.Not(locked(s))),
            "outer:queue-cleared-on-Exception": z3.Implies(z3.And(outer, is_exception(x)), qh(s) == qt(s)),
            "outer:at-least-one-triggered": z3.Implies(outer, s.g("ntrig") > s0.g("ntrig")),
            "C11|outer:empty-queue-never-raises": z3.Implies(outer, qh(s0) < qt(s0)),
            "sent-log-append-only": z3.And(qt(s) >= qt(s0), prefix_kept(qarr(s0), qarr(s), qt(s0), "sl3")),
            "dicts-of-old-objects-kept": dicts_kept(s0, s),
            "nonrtc:queue-balanced": z3.Implies(nonrtc, qt(s) - qh(s) == qt(s0) - qh(s0) - 1),
            "nonrtc:lock-untouched": z3.Implies(nonrtc, locked(s) == locked(s0)),
        }

    def _inv(self, s0, s, a, l):
        n0, h0, t0 = s0.g("ntrig"), qh(s0), qt(s0)
        k = z3.Const("k!inv", Int)
        m = z3.Const("m!inv", Int)
        fr = ref_of(l.first_result)
        return {
            "lock-held": locked(s),
            "cursors": z3.And(h0 <= qh(s), qh(s) <= qt(s), t0 <= qt(s)),
            "sent-log-append-only": prefix_kept(qarr(s0), qarr(s), t0),
            "one-trigger-per-pop": s.g("ntrig") - n0 == qh(s) - h0,
            "fifo": z3.ForAll([k], z3.Implies(
                z3.And(k >= h0, k < qh(s)),
                z3.Select(s.g("trig_log"), n0 + k - h0) == z3.Select(qarr(s), k))),
            "C03,C14|first-result": z3.Or(
                z3.And(fr == W.SENT, z3.ForAll([k], z3.Implies(
                    z3.And(k >= n0, k < s.g("ntrig")), z3.Select(s.g("trig_res"), k) == W.SENT))),
                z3.And(fr != W.SENT, z3.Exists([m], z3.And(
                    m >= n0, m < s.g("ntrig"), z3.Select(s.g("trig_res"), m) == fr,
                    z3.ForAll([k], z3.Implies(z3.And(k >= n0, k < m),
                                              z3.Select(s.g("trig_res"), k) == W.SENT)))))),
            "queue-items-valid": queue_items_valid(s),
            "C11|nothing-popped-yet-means-nothing-happened": z3.Implies(s.g("ntrig") == n0, z3.And(
                qh(s) == h0, qt(s) == t0, s.g("ng") == s0.g("ng"), s.g("ncb") == s0.g("ncb"), mstate(s) == mstate(s0))),
            "C11|something-popped-means-the-queue-was-not-empty": z3.Implies(s.g("ntrig") > n0, h0 < t0),
            "C04|none-swallowed-so-far": _ns(s0, s, rtc(s0)),
            "log-cursors": z3.And(s.g("ntrig") >= 0, s.g("ng") >= 0, s.g("ncb") >= 0),
            "state-map-untouched": z3.And(others_kept("idict.has", s0, s, W.CACHE), others_kept("idict.val", s0, s, W.CACHE)),
            "registry-wf": wf_registry(s),
            "state-cache-wf": wf_cache(s),
            "dicts-of-old-objects-kept": dicts_kept(s0, s),
        }

    @property
    def loops(self):
        return {0: LoopSpec(self._inv)}


@register
class SyncProcessingLoop(ProcessingLoop):
    pass


@register
class AsyncProcessingLoop(AsyncBinding, ProcessingLoop):
    qualnames = [ASYN + "processing_loop"]
    params = [("self", "AsyncEngine")]


# =========================================================================== _trigger
def cur_transitions(s0):
    """Transitions leaving the state the machine is in at entry (array, length, state ref)."""
    from .model import smap_val, state_transitions
    st = smap_val(s0, mstate(s0))
    arr, n = state_transitions(s0, st)
    return arr, n, st


def ev_id(s, td):
    return s.sel("Event.id", s.sel("TriggerData.event", td))


def cell(s, name, td, t):
    return z3.Select(z3.Select(s.g(name), td), t)


class Trigger(Contract):
    """C01 (selection), C03 (one log entry per event), C04 (exceptional state), C11 (__initial__),
    C14 (result)."""

    qualnames = [SYNC + "_trigger"]
    params = [("self", "SyncEngine"), ("trigger_data", "TriggerData")]
    returns = "Val"
    raises = True
    modifies = ENV_MODIFIES + [
        "EventData.trigger_data+", "EventData.transition+", "EventData.state+", "EventData.source+",
        "EventData.target+", "EventData.result+", "EventData.executed+", "EventData.machine+",
        "Transition.source+", "Transition.target+", "Transition.internal+", "Transition._events+",
        "Transition._specs+", "Transition.validators+", "Transition.before+", "Transition.on+",
        "Transition.after+", "Transition.cond+", "State.name+", "State.value+", "State._initial+",
        "State._final+", "State._id+", "State.transitions+", "State._specs+", "State.enter+", "State.exit+",
        "SpecListGrouper.key+", "SpecListGrouper.list+", "SpecListGrouper.group+"]
    properties = ["C01", "C03", "C04", "C11", "C14"]

    def pre(self, s, a):
        from .model import wf_class
        f = dict(wf_world(s))
        f.update(wf_class(s))
        f["self-is-engine"] = a.self.e == W.ENG
        f["registry-wf"] = wf_registry(s)
        f["state-cache-wf"] = wf_cache(s)
        f["rtc-implies-lock-held"] = z3.Implies(rtc(s), locked(s))
        f.update(td_valid(s, a.trigger_data))
        return f

    def ghost_entry(self, path, a):
        n = path.hget("ghost.ntrig")
        path.hset("ghost.trig_log", z3.Store(path.hget("ghost.trig_log"), n, a.trigger_data.e))
        path.hset("ghost.ntrig", n + 1)

    def ghost_exit(self, path, a, r):
        n0 = path.run.init_heap_value("ghost.ntrig")
        path.hset("ghost.trig_res", z3.Store(path.hget("ghost.trig_res"), n0, ref_of(r)))

    # ---- shared pieces ------------------------------------------------------------------
    def _log_post(self, s0, s, a, r=None):
        n0 = s0.g("ntrig")
        rl = z3.And(rtc(s0), locked(s0))
        td = a.trigger_data.e
        f = {
            "C03|logged": z3.Select(s.g("trig_log"), n0) == td,
            "C03|rtc:exactly-one-trigger": z3.Implies(rl, z3.And(
                s.g("ntrig") == n0 + 1, s.g("trig_log") == z3.Store(s0.g("trig_log"), n0, td))),
            "C03|nonrtc:log-grows": z3.Implies(z3.Not(rtc(s0)), z3.And(
                s.g("ntrig") >= n0 + 1, prefix_kept(s0.g("trig_log"), s.g("trig_log"), n0, "tl2"))),
        }
        if r is not None:
            f["C03,C14|result-logged"] = z3.Select(s.g("trig_res"), n0) == ref_of(r)
            f["C03|rtc:result-log-exact"] = z3.Implies(rl, s.g("trig_res") == z3.Store(s0.g("trig_res"), n0, ref_of(r)))
        f.update(queue_effect(s0, s))
        return f

    def _selection(self, s0, s, a, upto, winner=None, winner_status=None):
        """Candidates before `upto` were each activated once and rejected; non-candidates and
        everything from `upto` on (except the winner) were never activated."""
        td = a.trigger_data.e
        arr, n, _ = cur_transitions(s0)
        ev = ev_id(s0, td)
        j = z3.Const("j!sel", Int)
        tj = z3.Select(arr, j)
        touched = z3.And(cell(s, "ac", td, tj) == cell(s0, "ac", td, tj) + 1)
        untouched = z3.And(cell(s, "ac", td, tj) == cell(s0, "ac", td, tj), cell(s, "st", td, tj) == cell(s0, "st", td, tj))
        fs = [
            z3.ForAll([j], z3.Implies(z3.And(j >= 0, j < upto, MATCH(tj, ev)),
                                      z3.And(touched, cell(s, "st", td, tj) == 1))),
            z3.ForAll([j], z3.Implies(z3.And(j >= 0, j < n, z3.Not(MATCH(tj, ev))), untouched)),
        ]
        if winner is None:
            fs.append(z3.ForAll([j], z3.Implies(z3.And(j >= upto, j < n), untouched)))
        else:
            fs.append(z3.ForAll([j], z3.Implies(z3.And(j > winner, j < n), untouched)))
            tw = z3.Select(arr, winner)
            fs.append(z3.And(MATCH(tw, ev), cell(s, "ac", td, tw) == cell(s0, "ac", td, tw) + 1,
                             cell(s, "st", td, tw) == winner_status))
        return z3.And(*fs)

    def post(self, s0, s, a, r):
        from .model import smap_has
        td = a.trigger_data.e
        rl = z3.And(rtc(s0), locked(s0))
        initial = ev_id(s0, td) == INITIAL_ID
        normal = z3.And(rl, z3.Not(initial))
        arr, n, st = cur_transitions(s0)
        k = z3.Const("k!tr", Int)
        tk = z3.Select(arr, k)
        res = ref_of(r)
        allow = s0.sel("StateMachine.allow_event_without_transition", W.SM)
        f = self._log_post(s0, s, a, r)
        f["C01|state-was-mapped"] = z3.Implies(z3.Not(initial), smap_has(s0, mstate(s0)))
        f["C01,C14|first-enabled-candidate-fires-and-its-result-is-returned-or-nothing-does"] = z3.Implies(normal, z3.Or(
            z3.Exists([k], z3.And(
                k >= 0, k < n, self._selection(s0, s, a, k, winner=k, winner_status=2),
                mstate(s) == s0.sel("State.value", s0.sel("Transition.target", tk)),
                res == cell(s, "ares", td, tk))),
            z3.And(self._selection(s0, s, a, n), mstate(s) == mstate(s0), allow, res == NONE)))
        f["C04|a-failing-callback-is-not-swallowed"] = none_swallowed(s0, s)
        f["C11|initial:returns-sentinel"] = z3.Implies(initial, res == W.SENT)
        f["C03,C11|sentinel-only-for-initial"] = z3.Implies(z3.Not(initial), res != W.SENT)
        return f

    def exc_post(self, s0, s, a, x):
        from .model import smap_has
        td = a.trigger_data.e
        rl = z3.And(rtc(s0), locked(s0))
        initial = ev_id(s0, td) == INITIAL_ID
        normal = z3.And(rl, z3.Not(initial), smap_has(s0, mstate(s0)))
        arr, n, st = cur_transitions(s0)
        k = z3.Const("k!trx", Int)
        tk = z3.Select(arr, k)
        allow = s0.sel("StateMachine.allow_event_without_transition", W.SM)
        f = self._log_post(s0, s, a)
        tna = x.is_sub("TransitionNotAllowed")
        tna = z3.BoolVal(tna) if isinstance(tna, bool) else tna
        if isinstance(x.tag, str) and x.tag == "TransitionNotAllowed":
            # raised by _trigger itself: carries the event and the state, nothing fired
            ev_arg, st_arg = x.fields["args"][0], x.fields["args"][1]
            f["C01|not-allowed:carries-event-and-state"] = z3.And(
                ref_of(ev_arg) == s0.sel("TriggerData.event", td),
                s.sel("IState._state", ref_of(st_arg)) == st)
            f["C01|not-allowed:no-candidate-enabled-state-unchanged"] = z3.Implies(normal, z3.And(
                self._selection(s0, s, a, n), mstate(s) == mstate(s0), z3.Not(allow)))
        elif isinstance(x.tag, str) and x.tag == "InvalidStateValue":
            f["C10|unmapped-state-value"] = z3.Implies(z3.Not(initial), z3.Not(smap_has(s0, mstate(s0))))
        else:
            # escaped from the activation of candidate k: earlier candidates rejected, later ones
            # never tried; C04: the state is the source, or k's target if it failed in enter/after
            f["C01,C04|failed-candidate-aborts-the-event"] = z3.Implies(normal, z3.Exists([k], z3.And(
                k >= 0, k < n, self._selection(s0, s, a, k, winner=k, winner_status=3),
                z3.Or(mstate(s) == mstate(s0),
                      mstate(s) == s0.sel("State.value", s0.sel("Transition.target", tk))))))
        return f

    def _inv(self, s0, s, a, l):
        rl = z3.And(rtc(s0), locked(s0))
        f = {
            "C01|not-executed-yet": z3.Not(l.executed.e),
            "C01|candidates-so-far-rejected": z3.Implies(rl, z3.And(
                self._selection(s0, s, a, l.i), mstate(s) == mstate(s0))),
            "C03|log": z3.And(*self._log_post(s0, s, a).values()),
            "C03|result-log-untouched": z3.Implies(rl, s.g("trig_res") == s0.g("trig_res")),
            "C04|none-swallowed-so-far": none_swallowed(s0, s),
        }
        return f

    @property
    def loops(self):
        return {0: LoopSpec(self._inv)}


def queue_effect(s0, s):
    """What a completed _activate/_trigger (i.e. some callback groups, EnvCB) did to engine state
    other than the model field and the group log: the queue, the trigger log, the state cache."""
    rl = z3.And(rtc(s0), locked(s0))
    return {
        "queue:others-kept": z3.And(others_kept("deque.arr", s0, s, W.Q), others_kept("deque.head", s0, s, W.Q),
                                    others_kept("deque.tail", s0, s, W.Q)),
        "queue:rtc-append-only": z3.Implies(rl, z3.And(
            qh(s) == qh(s0), qt(s) >= qt(s0), prefix_kept(qarr(s0), qarr(s), qt(s0)))),
        "queue:nonrtc-balanced": z3.Implies(z3.Not(rtc(s0)), z3.And(
            qt(s) - qh(s) == qt(s0) - qh(s0), qh(s) >= qh(s0), qh(s) <= qt(s))),
        "queue:sent-log-append-only": z3.And(qt(s) >= qt(s0), prefix_kept(qarr(s0), qarr(s), qt(s0), "sl")),
        "queue:items-valid": z3.Implies(queue_items_valid(s0), queue_items_valid(s)),
        "registry-stays-wf": z3.Implies(wf_registry(s0), wf_registry(s)),
        "state-cache-stays-wf": z3.Implies(wf_cache(s0), wf_cache(s)),
        "log-cursors": z3.And(s.g("ntrig") >= 0, s.g("ng") >= 0, s.g("ncb") >= s0.g("ncb")),
        "state-cache-only": z3.And(others_kept("idict.has", s0, s, W.CACHE), others_kept("idict.val", s0, s, W.CACHE)),
        "model-others-kept": others_kept("Model.state", s0, s, W.MODEL),
        "dicts-of-old-objects-kept": dicts_kept(s0, s),
    }


def no_nested_trigger(s0, s):
    """RTC: callbacks cannot start a _trigger (nested sends are queued).  Non-RTC: they can, so
    the trigger log may grow, but what was logged stays."""
    rl = z3.And(rtc(s0), locked(s0))
    return {
        "trigger-log:rtc-untouched": z3.Implies(rl, z3.And(
            s.g("ntrig") == s0.g("ntrig"), s.g("trig_log") == s0.g("trig_log"), s.g("trig_res") == s0.g("trig_res"))),
        "trigger-log:nonrtc-grows-only": z3.Implies(z3.Not(rtc(s0)), z3.And(
            s.g("ntrig") >= s0.g("ntrig"), prefix_kept(s0.g("trig_log"), s.g("trig_log"), s0.g("ntrig"), "tl3"))),
    }


@register
class SyncTrigger(Trigger):
    pass


@register
class AsyncTrigger(AsyncBinding, Trigger):
    qualnames = [ASYN + "_trigger"]
    params = [("self", "AsyncEngine"), ("trigger_data", "TriggerData")]


# =========================================================================== _activate
from .model import (  # noqa: E402
    SMQ, smap_has, smap_val, valid_obj, wf_class, wf_transition, grouper_key, state_transitions,
)
from .model import reg_has, group_empty  # noqa: E402
from .callbacks import none_swallowed  # noqa: E402


def activation_groups(s0, t):
    """The documented group sequence of one activation, as (key, model-state, kwargs-state) per
    position, for the three shapes: internal (5 groups), external with source (7), external
    without source (6).  `pos_assign` = number of groups that run before the state is assigned."""
    src = s0.sel("Transition.source", t)
    tgt = s0.sel("Transition.target", t)
    tv = s0.sel("State.value", tgt)
    cur = mstate(s0)
    K = lambda g: grouper_key(s0, s0.sel("Transition." + g, t))  # noqa: E731
    xk = grouper_key(s0, s0.sel("State.exit", src))
    ek = grouper_key(s0, s0.sel("State.enter", tgt))
    internal = s0.sel("Transition.internal", t)
    V, Cn, Bf, On, Af = K("validators"), K("cond"), K("before"), K("on"), K("after")
    pre_ = lambda k: (k, cur, src)  # noqa: E731  groups that see the source
    post_ = lambda k: (k, tv, tgt)  # noqa: E731  groups that see the target
    shapes = [
        (internal, [pre_(V), pre_(Cn), pre_(Bf), pre_(On), post_(Af)], 4, 2, 3),
        (z3.And(z3.Not(internal), src != NONE),
         [pre_(V), pre_(Cn), pre_(Bf), pre_(xk), pre_(On), post_(ek), post_(Af)], 5, 2, 4),
        (z3.And(z3.Not(internal), src == NONE),
         [pre_(V), pre_(Cn), pre_(Bf), pre_(On), post_(ek), post_(Af)], 4, 2, 3),
    ]
    return shapes  # (condition, groups, pos_assign, pos_before, pos_on)


class Activate(Contract):
    """C02 (group order and state view), C04 (state on failure), C14 (result), C01 (guards decide)."""

    qualnames = [SYNC + "_activate"]
    params = [("self", "SyncEngine"), ("trigger_data", "TriggerData"), ("transition", "Transition")]
    returns = ("tuple", ["bool", "Val"])
    raises = True
    modifies = ENV_MODIFIES + [
        "EventData.trigger_data+", "EventData.transition+", "EventData.state+", "EventData.source+",
        "EventData.target+", "EventData.result+", "EventData.executed+", "EventData.machine+"]
    properties = ["C01", "C02", "C04", "C14"]

    def pre(self, s, a):
        f = dict(wf_world(s))
        f["self-is-engine"] = a.self.e == W.ENG
        f["registry-wf"] = wf_registry(s)
        f["state-cache-wf"] = wf_cache(s)
        f["rtc-implies-lock-held"] = z3.Implies(rtc(s), locked(s))
        f.update(td_valid(s, a.trigger_data))
        f["transition-wf"] = wf_transition(s, a.transition.e)
        return f

    def ghost_entry(self, path, a):
        td, t = a.trigger_data.e, a.transition.e
        ac = path.hget("ghost.ac")
        row = z3.Select(ac, td)
        path.hset("ghost.ac", z3.Store(ac, td, z3.Store(row, t, z3.Select(row, t) + 1)))

    def _set_status(self, path, a, status):
        td, t = a.trigger_data.e, a.transition.e
        st = path.hget("ghost.st")
        path.hset("ghost.st", z3.Store(st, td, z3.Store(z3.Select(st, td), t, status)))

    def ghost_exit(self, path, a, r):
        self._set_status(path, a, z3.If(r.items[0].e, z3.IntVal(2), z3.IntVal(1)))
        td, t = a.trigger_data.e, a.transition.e
        ar = path.hget("ghost.ares")
        path.hset("ghost.ares", z3.Store(ar, td, z3.Store(z3.Select(ar, td), t, ref_of(r.items[1]))))

    def ghost_exc(self, path, a, x):
        self._set_status(path, a, z3.IntVal(3))

    def _status_post(self, s0, s, a, status):
        td, t = a.trigger_data.e, a.transition.e
        rl = z3.And(rtc(s0), locked(s0))
        ac0, st0 = s0.g("ac"), s0.g("st")
        return {
            "status:this-activation": z3.And(
                z3.Select(z3.Select(s.g("st"), td), t) == status,
                z3.Select(z3.Select(s.g("ac"), td), t) >= z3.Select(z3.Select(ac0, td), t) + 1),
            "status:rtc-only-this-cell-changes": z3.Implies(rl, z3.And(
                s.g("ac") == z3.Store(ac0, td, z3.Store(z3.Select(ac0, td), t, z3.Select(z3.Select(ac0, td), t) + 1)),
                s.g("st") == z3.Store(st0, td, z3.Store(z3.Select(st0, td), t, status)))),
        }

    def post(self, s0, s, a, r):
        executed, res = r.items[0].e, ref_of(r.items[1])
        t = a.transition.e
        g0 = s0.g("ng")
        rl = z3.And(rtc(s0), locked(s0))
        tv = s0.sel("State.value", s0.sel("Transition.target", t))
        f = self._status_post(s0, s, a, z3.If(executed, z3.IntVal(2), z3.IntVal(1)))
        f["C14|result-recorded"] = z3.And(
            cell(s, "ares", a.trigger_data.e, t) == res,
            z3.Implies(rl, s.g("ares") == z3.Store(s0.g("ares"), a.trigger_data.e, z3.Store(
                z3.Select(s0.g("ares"), a.trigger_data.e), t, res))))
        f.update(queue_effect(s0, s))
        f.update(no_nested_trigger(s0, s))
        f["C03|result-is-never-the-private-sentinel"] = res != W.SENT
        f["C04|a-failing-callback-is-not-swallowed"] = none_swallowed(s0, s)
        # ---- rejected candidate: validators and guards only, state unchanged, no result
        Vk = grouper_key(s0, s0.sel("Transition.validators", t))
        Ck = grouper_key(s0, s0.sel("Transition.cond", t))
        f["C01,C02|rejected:only-validators-and-guards-ran"] = z3.Implies(z3.And(rl, z3.Not(executed)), z3.And(
            s.g("ng") == g0 + 2, z3.Select(s.g("g_key"), g0) == Vk, z3.Select(s.g("g_key"), g0 + 1) == Ck,
            z3.Select(s.g("g_kind"), g0 + 1) == GK_ALL, z3.Not(z3.Select(s.g("g_ok"), g0 + 1))))
        f["C01|rejected:state-unchanged-result-None"] = z3.Implies(z3.Not(executed), z3.And(
            res == NONE, z3.Implies(rl, mstate(s) == mstate(s0))))
        # ---- executed: the documented sequence with the documented view of the state
        k = z3.Const("k!ac", Int)
        for ci, (cond, groups, pos_assign, pb, po) in enumerate(activation_groups(s0, t)):
            case = z3.And(rl, executed, cond)
            order = [s.g("ng") == g0 + len(groups)]
            for i, (key, ms, ks) in enumerate(groups):
                order.append(z3.Select(s.g("g_key"), g0 + i) == key)
            f[f"C02|executed:group-order[shape{ci}]"] = z3.Implies(case, z3.And(*order))
            f[f"C02|executed:state-view[shape{ci}]"] = z3.Implies(case, z3.And(*[
                z3.And(z3.Select(s.g("g_ms"), g0 + i) == ms, z3.Select(s.g("g_ks"), g0 + i) == ks)
                for i, (key, ms, ks) in enumerate(groups)]))
            f[f"C01|executed:guards-passed[shape{ci}]"] = z3.Implies(case, z3.And(
                z3.Select(s.g("g_kind"), g0 + 1) == GK_ALL, z3.Select(s.g("g_ok"), g0 + 1)))
            nb, no = z3.Select(s.g("g_reslen"), g0 + pb), z3.Select(s.g("g_reslen"), g0 + po)
            rb, ro = z3.Select(s.g("g_res"), g0 + pb), z3.Select(s.g("g_res"), g0 + po)
            f[f"C14|result:from-before-then-on-only[shape{ci}]"] = z3.Implies(case, z3.And(
                z3.Implies(nb + no == 0, res == NONE),
                z3.Implies(nb + no == 1, res == z3.If(nb == 1, z3.Select(rb, 0), z3.Select(ro, 0))),
                z3.Implies(nb + no >= 2, z3.And(
                    s.sel("list.len", res) == nb + no,
                    z3.ForAll([k], z3.Implies(z3.And(k >= 0, k < nb),
                                              z3.Select(s.sel("list.arr", res), k) == z3.Select(rb, k))),
                    z3.ForAll([k], z3.Implies(z3.And(k >= 0, k < no),
                                              z3.Select(s.sel("list.arr", res), nb + k) == z3.Select(ro, k))))),
            ))
        f["C01,C10|executed:state-is-target-value"] = z3.Implies(z3.And(rl, executed), mstate(s) == tv)
        return f

    def exc_post(self, s0, s, a, x):
        t = a.transition.e
        g0 = s0.g("ng")
        rl = z3.And(rtc(s0), locked(s0))
        tv = s0.sel("State.value", s0.sel("Transition.target", t))
        f = self._status_post(s0, s, a, z3.IntVal(3))
        f["C14|no-result-recorded"] = z3.Implies(rl, s.g("ares") == s0.g("ares"))
        f.update(queue_effect(s0, s))
        f.update(no_nested_trigger(s0, s))
        m = s.g("ng") - g0  # groups started; the last one raised
        for ci, (cond, groups, pos_assign, pb, po) in enumerate(activation_groups(s0, t)):
            case = z3.And(rl, cond)
            f[f"C04|failed:groups-are-a-prefix-of-the-sequence[shape{ci}]"] = z3.Implies(case, z3.And(
                m >= 1, m <= len(groups),
                *[z3.Implies(m > i, z3.Select(s.g("g_key"), g0 + i) == key) for i, (key, _, _) in enumerate(groups)]))
            f[f"C04|failed:state-is-source-before-assignment-target-after[shape{ci}]"] = z3.Implies(case, z3.And(
                z3.Implies(m <= pos_assign, mstate(s) == mstate(s0)),
                z3.Implies(m > pos_assign, mstate(s) == tv)))
        return f


@register
class SyncActivate(Activate):
    pass


@register
class AsyncActivate(AsyncBinding, Activate):
    qualnames = [ASYN + "_activate"]
    params = [("self", "AsyncEngine"), ("trigger_data", "TriggerData"), ("transition", "Transition")]


# =========================================================================== helpers of _trigger
TRANSITION_FRESH = [
    "Transition.source+", "Transition.target+", "Transition.internal+", "Transition._events+",
    "Transition._specs+", "Transition.validators+", "Transition.before+", "Transition.on+",
    "Transition.after+", "Transition.cond+", "State.name+", "State.value+", "State._initial+",
    "State._final+", "State._id+", "State.transitions+", "State._specs+", "State.enter+", "State.exit+",
    "SpecListGrouper.key+", "SpecListGrouper.list+", "SpecListGrouper.group+"]


def init_target(s):
    """The state initial activation enters (C10/C11): `start_value` when one is given (anything that
    is not None, falsy values included), otherwise the class's initial state."""
    sv = s.sel("StateMachine.start_value", W.SM)
    return z3.If(sv != NONE, smap_val(s, sv), s.sel("StateMachine.initial_state", W.SM))


@register
class InitialTransition(Contract):
    """BaseEngine._initial_transition: the pseudo-transition of `__initial__` (C02, C11): a fresh
    source state and a fresh transition whose callback groups are registered nowhere, so that
    activating it can only run the target state's enter group."""

    qualnames = [BASE + "_initial_transition"]
    params = [("self", "BaseEngine"), ("trigger_data", "TriggerData")]
    returns = "Transition"
    raises = True
    exc_classes = ["InvalidStateValue"]
    modifies = TRANSITION_FRESH
    properties = ["C02", "C11"]
    trusted = False

    def pre(self, s, a):
        from .model import wf_class
        f = dict(wf_world(s))
        f.update(wf_class(s))
        f["self-is-engine"] = a.self.e == W.ENG
        f["registry-wf"] = wf_registry(s)
        f["state-cache-wf"] = wf_cache(s)
        return f

    def post(self, s0, s, a, r):
        t = r.e
        src = s.sel("Transition.source", t)
        al0 = s0["ghost.alloc"]
        sv = s0.sel("StateMachine.start_value", W.SM)
        keys = [grouper_key(s, s.sel("Transition." + g, t)) for g in ("validators", "cond", "before", "on", "after")]
        keys.append(grouper_key(s, s.sel("State.exit", src)))
        return {
            "fresh-transition-and-source": z3.And(t >= al0, t < s["ghost.alloc"], src >= al0, src < s["ghost.alloc"], src != t),
            "external": z3.Not(s.sel("Transition.internal", t)),
            "target-is-start-state": s.sel("Transition.target", t) == init_target(s0),
            "start-value-mapped": z3.Implies(sv != NONE, smap_has(s0, sv)),
            "wf": wf_transition(s, t),
            "own-groups-have-no-callbacks": z3.And(*[group_empty(s, k2) for k2 in keys]),
        }

    def exc_post(self, s0, s, a, x):
        sv = s0.sel("StateMachine.start_value", W.SM)
        return {"start-value-unmapped": z3.And(sv != NONE, z3.Not(smap_has(s0, sv)))}

    def assumptions(self):
        return ["BaseEngine._initial_transition: assumed contract (fresh transition, groups registered nowhere)"]


@register
class TransitionMatch(Contract):
    """Transition.match(event): MATCH(t, id) is *defined* as 'some event of t has this id'."""

    qualnames = ["statemachine.transition:Transition.match"]
    params = [("self", "Transition"), ("event", "str")]
    returns = "bool"
    modifies = []
    properties = ["C01"]

    def post(self, s0, s, a, r):
        return {"C01|result-is-MATCH": r.e == MATCH(a.self.e, a.event.e)}
