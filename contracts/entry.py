"""Contracts of the public entry points: Event.__call__, StateMachine.send, engine start/put,
activate_initial_state (C03 nested case, C07 reserved names, C11 activation, C13 one entry point)."""
from __future__ import annotations

import z3

from pyvc.core import (
    B, CLASSES, EXC_CODE, Exc, I, NONE, NoneV, O, Py, S, T, Int, Bool, Str, ref_of, truthy, FIRST_ADDR,
    ClassModel, MethodSpec, Unsupported, fresh,
)
from pyvc.execu import CONTRACTS, GLOBAL_NAMES, CallArgs, Contract, LoopSpec, Raise, register
from pyvc.models import model

from .model import (
    ASYN, BASE, C, ENV_MODIFIES, INITIAL_ID, INL, SMQ, SYNC, W, AsyncBinding, locked, mstate, others_kept,
    prefix_kept, qarr, qh, qt, queue_items_valid, rtc, wf_class, wf_registry, wf_world, valid_obj, smap_has,
)
from .engines import ProcessingLoop, is_exception, queue_effect, td_valid

EVQ = "statemachine.event:"

# ---- BoundEvent(...) : ASSUMED constructor contract (Event.__new__ is a str subclass constructor
# using uuid4 for anonymous events; only the id / _sm plumbing matters here) -------------------


def event_ctor(clsname):
    def ctor(ex, path, ca, node):
        pos = list(ca.pos)
        kw = dict(ca.kw)
        names = ["transitions", "id", "name", "_sm"]
        vals = {}
        for n in names:
            if pos:
                vals[n] = pos.pop(0)
            elif n in kw:
                vals[n] = kw.pop(n)
            else:
                vals[n] = NoneV()
        if kw or pos:
            raise Unsupported("Event(...): unexpected arguments")
        ident = vals["id"]
        if isinstance(vals["transitions"], S):
            ident = vals["transitions"]
        elif isinstance(vals["transitions"], O) and vals["transitions"].cls in ("Event", "BoundEvent"):
            ident = S(path.sel("Event.id", vals["transitions"].e))
        if isinstance(ident, O) and ident.cls in ("Event", "BoundEvent", "Val"):
            ident = S(path.sel("Event.id", ident.e))
        if not isinstance(ident, S):
            raise Unsupported("Event(...): anonymous event (uuid id)")
        ev = path.alloc(clsname, "ev")
        path.store("Event.id", ev.e, ident.e)
        path.store("Event._has_real_id", ev.e, z3.BoolVal(True))
        path.store("Event._sm", ev.e, ref_of(vals["_sm"]))
        path.store("Event._transitions", ev.e, NONE)
        nm = vals["name"]
        if isinstance(nm, S):
            path.store("Event.name", ev.e, nm.e)
        elif isinstance(nm, O) and nm.cls in ("Event", "BoundEvent"):
            path.store("Event.name", ev.e, path.sel("Event.id", nm.e))
        return [(path, ev)]

    return ctor


CLASSES["Event"].ctor = event_ctor("Event")
CLASSES["BoundEvent"].ctor = event_ctor("BoundEvent")
GLOBAL_NAMES["Event"] = Py(("class", "Event"))
GLOBAL_NAMES["BoundEvent"] = Py(("class", "BoundEvent"))

CLASSES["BoundEvent"].methods["__call__"] = C(EVQ + "Event.__call__")
CLASSES["Event"].methods["__call__"] = C(EVQ + "Event.__call__")
CLASSES["StateMachine"].methods.update({
    "_put_nonblocking": INL(SMQ + "_put_nonblocking"),
    "_processing_loop": INL(SMQ + "_processing_loop"),
})
CLASSES["StateMachine"].fields["_engine"] = "SyncEngine"

for q in ("_put_nonblocking", "_processing_loop"):
    CONTRACTS[SMQ + q] = type("Inl_" + q, (Contract,), {"qualnames": [SMQ + q], "inline": True})()


def new_td_queued(s0, s, ev_id=None, ev_ref=None):
    """One fresh, valid TriggerData of this machine was appended at the tail; nothing else moved."""
    t0 = qt(s0)
    td = z3.Select(qarr(s), t0)
    f = [qt(s) == t0 + 1, qh(s) == qh(s0), prefix_kept(qarr(s0), qarr(s), t0),
         td >= s0["ghost.alloc"], td < s["ghost.alloc"],
         s.sel("TriggerData.machine", td) == W.SM, s.sel("TriggerData.model", td) == W.MODEL,
         valid_obj(s, s.sel("TriggerData.event", td))]
    if ev_id is not None:
        f.append(s.sel("Event.id", s.sel("TriggerData.event", td)) == ev_id)
    if ev_ref is not None:
        f.append(s.sel("TriggerData.event", td) == ev_ref)
    return z3.And(*f)


@register
class Put(Contract):
    qualnames = [BASE + "put"]
    params = [("self", "BaseEngine"), ("trigger_data", "TriggerData")]
    returns = "None"
    modifies = ["deque.arr", "deque.tail"]
    properties = ["C03", "C06", "C11"]

    def pre(self, s, a):
        f = dict(wf_world(s))
        f["self-is-engine"] = a.self.e == W.ENG
        return f

    def post(self, s0, s, a, r):
        t0 = qt(s0)
        return {
            "C03|appended-at-the-tail": z3.And(qt(s) == t0 + 1, qarr(s) == z3.Store(qarr(s0), t0, a.trigger_data.e)),
            "others-kept": z3.And(others_kept("deque.arr", s0, s, W.Q), others_kept("deque.tail", s0, s, W.Q)),
        }


START_MODIFIES = ["deque.arr", "deque.tail", "TriggerData.machine+", "TriggerData.event+", "TriggerData.model+",
                  "TriggerData.args+", "TriggerData.kwargs+", "Event.id+", "Event.name+", "Event._sm+",
                  "Event._has_real_id+", "Event._transitions+", "dict.has", "dict.val"]


@register
class BaseStart(Contract):
    """BaseEngine.start (C11): a stored state (anything that is not None) means nothing is queued;
    otherwise exactly one `__initial__` item is appended."""

    qualnames = [BASE + "start"]
    params = [("self", "BaseEngine")]
    returns = "None"
    modifies = START_MODIFIES
    properties = ["C11"]

    def pre(self, s, a):
        f = dict(wf_world(s))
        f["self-is-engine"] = a.self.e == W.ENG
        return f

    def post(self, s0, s, a, r):
        from .model import dicts_kept
        return {
            "C11|stored-state:nothing-queued": z3.Implies(mstate(s0) != NONE, z3.And(
                qt(s) == qt(s0), qarr(s) == qarr(s0))),
            "C11|no-state:one-initial-item-queued": z3.Implies(mstate(s0) == NONE, new_td_queued(s0, s, ev_id=INITIAL_ID)),
            "others-kept": z3.And(others_kept("deque.arr", s0, s, W.Q), others_kept("deque.tail", s0, s, W.Q)),
            "dicts-kept": dicts_kept(s0, s),
            "registry-kept": z3.And(s.sel("dict.has", W.REGD) == s0.sel("dict.has", W.REGD),
                                    s.sel("dict.val", W.REGD) == s0.sel("dict.val", W.REGD)),
        }
