"""Contracts of statemachine/contrib/diagram.py (C18).  pydot is assumed: Node/Edge store what they
are given, add_node/add_edge append.  Nodes and edges carry a ghost `origin` (the state /
transition they were made for), set by the contracts of the functions that build them."""
from __future__ import annotations

import z3

from pyvc.core import (
    A_II, B, CLASSES, EXC_CODE, Exc, I, NONE, NoneV, O, Py, S, T, Int, Bool, Str, ref_of, truthy, FIRST_ADDR,
    ClassModel, MethodSpec, Unsupported, HEAP_SORTS, fresh,
)
from pyvc.execu import CONTRACTS, GLOBAL_NAMES, CallArgs, Contract, LoopSpec, Raise, register
from pyvc.models import model

from .model import C, INL, valid_obj, state_transitions

DQ = "statemachine.contrib.diagram:DotGraphMachine."
INIT_NODE, INIT_EDGE = z3.Int("INIT_NODE_ORIGIN"), z3.Int("INIT_EDGE_ORIGIN")
ACTIVE_COLOR = z3.StringVal("turquoise")

GLOBAL_NAMES["pydot"] = Py(("module", "pydot"))


def _kw_str(path, ca, name, default=""):
    v = ca.kw.get(name)
    if isinstance(v, S):
        return v.e
    return z3.StringVal(default)


def node_ctor(ex, path, ca, node):
    n = path.alloc("PNode", "pnode")
    nm = ca.pos[0]
    path.store("PNode.name", n.e, nm.e if isinstance(nm, S) else z3.StringVal("?"))
    per = ca.kw.get("peripheries")
    path.store("PNode.peripheries", n.e, per.e if isinstance(per, I) else z3.IntVal(1))
    path.store("PNode.label", n.e, _kw_str(path, ca, "label"))
    path.store("PNode.fillcolor", n.e, z3.StringVal(""))
    path.store("PNode.origin", n.e, NONE)
    return [(path, n)]


STR_OF = z3.Function("STR_OF", Int, Str)  # str(x) of a non-str value handed to pydot as a name: nothing is known about it


def _name(v):
    from pyvc.core import ref_of
    return v.e if isinstance(v, S) else STR_OF(ref_of(v))


def edge_ctor(ex, path, ca, node):
    e = path.alloc("PEdge", "pedge")
    path.store("PEdge.src", e.e, _name(ca.pos[0]))
    path.store("PEdge.dst", e.e, _name(ca.pos[1]))
    path.store("PEdge.label", e.e, _kw_str(path, ca, "label"))
    path.store("PEdge.origin", e.e, NONE)
    return [(path, e)]


@model
def node_set_fillcolor(ex, path, recv, ca, node):
    path.store("PNode.fillcolor", recv.e, ca.pos[0].e)
    return [(path, NoneV())]


@model
def node_set_penwidth(ex, path, recv, ca, node):
    return [(path, NoneV())]


@model
def graph_add_node(ex, path, g, ca, node):
    n = ca.pos[0]
    org = path.sel("PNode.origin", n.e)
    cnt = path.sel("PGraph.ncount", g.e)
    path.store("PGraph.ncount", g.e, z3.Store(cnt, org, z3.Select(cnt, org) + 1))
    path.store("PGraph.nnodes", g.e, path.sel("PGraph.nnodes", g.e) + 1)
    return [(path, NoneV())]


@model
def graph_add_edge(ex, path, g, ca, node):
    e = ca.pos[0]
    org = path.sel("PEdge.origin", e.e)
    cnt = path.sel("PGraph.ecount", g.e)
    path.store("PGraph.ecount", g.e, z3.Store(cnt, org, z3.Select(cnt, org) + 1))
    path.store("PGraph.nedges", g.e, path.sel("PGraph.nedges", g.e) + 1)
    return [(path, NoneV())]


ClassModel("PNode", fields={"name": "str", "label": "str", "peripheries": "int", "fillcolor": "str", "origin": "Val"},
           methods={"set_fillcolor": node_set_fillcolor, "set_penwidth": node_set_penwidth})
ClassModel("PEdge", fields={"src": "str", "dst": "str", "label": "str", "origin": "Val"})
ClassModel("PGraph", fields={"nnodes": "int", "nedges": "int"}, methods={"add_node": graph_add_node, "add_edge": graph_add_edge})
HEAP_SORTS["PGraph.ncount"] = z3.ArraySort(Int, A_II)
HEAP_SORTS["PGraph.ecount"] = z3.ArraySort(Int, A_II)
CLASSES["PNode"].ctor = node_ctor
CLASSES["PEdge"].ctor = edge_ctor
GLOBAL_NAMES["pydot.Node"] = Py(("class", "PNode"))
GLOBAL_NAMES["pydot.Edge"] = Py(("class", "PEdge"))

ClassModel("DiagMachine", fields={"states": "States", "initial_state": "State"},
           props={"current_state": C("diagram:machine.current_state"),
                  "current_state_value": C("diagram:machine.current_state_value")})
ClassModel(
    "DotGraphMachine",
    fields={"machine": "DiagMachine", "font_name": "str", "state_font_size": "str", "state_active_penwidth": "int",
            "state_active_fillcolor": "str", "transition_font_size": "str"},
    methods={
        "_get_graph": C(DQ + "_get_graph"), "_initial_node": C(DQ + "_initial_node"), "_initial_edge": C(DQ + "_initial_edge"),
        "_state_as_node": C(DQ + "_state_as_node"), "_transition_as_edge": C(DQ + "_transition_as_edge"),
        "_state_actions": C(DQ + "_state_actions"),
    },
)
CUR_STATE = z3.Int("DIAGRAM_CURRENT_STATE")


@register
class DiagCurrentState(Contract):
    """ASSUMED here (proved under C10): machine.current_state is the view of the current state."""
    qualnames = ["diagram:machine.current_state"]
    params = [("self", "DiagMachine")]
    returns = "IState"
    modifies = []
    trusted = True

    def post(self, s0, s, a, r):
        return {"view-of-the-current-state": z3.And(r.e != NONE, s0.sel("IState._state", r) == CUR_STATE)}


@register
class DiagCurrentStateValue(Contract):
    """ASSUMED here (proved under C10): machine.current_state_value is the current state's value — any
    value a state may carry, falsy ones (0, '') included."""
    qualnames = ["diagram:machine.current_state_value"]
    params = [("self", "DiagMachine")]
    returns = "Val"
    modifies = []
    trusted = True

    def post(self, s0, s, a, r):
        return {"value-of-the-current-state": r.e == s0.sel("State.value", CUR_STATE)}


def _trusted(name, params, returns, post=None, modifies=()):
    ns = {"qualnames": [DQ + name], "params": params, "returns": returns, "modifies": list(modifies), "trusted": True,
          "assumptions": lambda self: [f"diagram.{name}: assumed (pydot styling only)"]}
    if post:
        ns["post"] = post
    return register(type("Diag_" + name, (Contract,), ns))


PG_FRESH = ["PGraph.nnodes+", "PGraph.nedges+", "PGraph.ncount+", "PGraph.ecount+"]
PN_FRESH = ["PNode.name+", "PNode.label+", "PNode.peripheries+", "PNode.fillcolor+", "PNode.origin+"]
PE_FRESH = ["PEdge.src+", "PEdge.dst+", "PEdge.label+", "PEdge.origin+"]

_trusted("_get_graph", [("self", "DotGraphMachine")], "PGraph", modifies=PG_FRESH,
         post=lambda self, s0, s, a, r: {"fresh-empty-graph": z3.And(
             r.e >= s0["ghost.alloc"], s.sel("PGraph.nnodes", r) == 0, s.sel("PGraph.nedges", r) == 0,
             s.sel("PGraph.ncount", r) == z3.K(Int, z3.IntVal(0)), s.sel("PGraph.ecount", r) == z3.K(Int, z3.IntVal(0)))})
_trusted("_state_actions", [("self", "DotGraphMachine"), ("state", "State")], "str")


class InitialNode(Contract):
    qualnames = [DQ + "_initial_node"]
    params = [("self", "DotGraphMachine")]
    returns = "PNode"
    modifies = PN_FRESH
    properties = ["C18"]

    def ghost_exit(self, path, a, r):
        path.store("PNode.origin", r.e, INIT_NODE)

    def post(self, s0, s, a, r):
        return {"C18|the-initial-pseudo-node": z3.And(r.e >= s0["ghost.alloc"], s.sel("PNode.origin", r) == INIT_NODE,
                                                      s.sel("PNode.name", r) == z3.StringVal("i"))}


register(InitialNode)


@register
class InitialEdge(Contract):
    qualnames = [DQ + "_initial_edge"]
    params = [("self", "DotGraphMachine")]
    returns = "PEdge"
    modifies = PE_FRESH
    properties = ["C18"]

    def ghost_exit(self, path, a, r):
        path.store("PEdge.origin", r.e, INIT_EDGE)

    def post(self, s0, s, a, r):
        ini = s0.sel("DiagMachine.initial_state", s0.sel("DotGraphMachine.machine", a.self.e))
        return {"C18|points-from-the-pseudo-node-at-the-initial-state": z3.And(
            r.e >= s0["ghost.alloc"], s.sel("PEdge.origin", r) == INIT_EDGE, s.sel("PEdge.src", r) == z3.StringVal("i"),
            s.sel("PEdge.dst", r) == s0.sel("State._id", ini))}


@register
class StateAsNode(Contract):
    """_state_as_node (C18): node named by the state id, double border iff final, highlighted iff it
    is the machine's current state."""

    qualnames = [DQ + "_state_as_node"]
    params = [("self", "DotGraphMachine"), ("state", "State")]
    returns = "PNode"
    modifies = PN_FRESH
    properties = ["C18"]

    def pre(self, s, a):
        return {"current-state-is-a-state": z3.And(CUR_STATE >= FIRST_ADDR, CUR_STATE < s["ghost.alloc"])}

    def ghost_exit(self, path, a, r):
        path.store("PNode.origin", r.e, a.state.e)

    def post(self, s0, s, a, r):
        st = a.state.e
        same = z3.And(s0.sel("State.name", st) == s0.sel("State.name", CUR_STATE), s0.sel("State._id", st) == s0.sel("State._id", CUR_STATE))
        active = s0.sel("DotGraphMachine.state_active_fillcolor", a.self.e)
        return {
            "C18|one-node-for-this-state-named-by-its-id": z3.And(
                r.e >= s0["ghost.alloc"], s.sel("PNode.origin", r) == st, s.sel("PNode.name", r) == s0.sel("State._id", st)),
            "C18|double-border-iff-final": s.sel("PNode.peripheries", r) == z3.If(s0.sel("State._final", st), 2, 1),
            "C18|highlighted-iff-current-state": z3.Implies(active != z3.StringVal("white"),
                                                            (s.sel("PNode.fillcolor", r) == active) == same),
        }


@register
class TransitionAsEdge(Contract):
    """_transition_as_edge (C18): from the source id to the target id."""

    qualnames = [DQ + "_transition_as_edge"]
    params = [("self", "DotGraphMachine"), ("transition", "Transition")]
    returns = "PEdge"
    modifies = PE_FRESH + ["list.arr+", "list.len+"]
    properties = ["C18"]

    def pre(self, s, a):
        return {"has-source": s.sel("Transition.source", a.transition.e) != NONE}

    def ghost_exit(self, path, a, r):
        path.store("PEdge.origin", r.e, a.transition.e)

    def post(self, s0, s, a, r):
        t = a.transition.e
        return {"C18|edge-from-source-to-target": z3.And(
            r.e >= s0["ghost.alloc"], s.sel("PEdge.origin", r) == t,
            s.sel("PEdge.src", r) == s0.sel("State._id", s0.sel("Transition.source", t)),
            s.sel("PEdge.dst", r) == s0.sel("State._id", s0.sel("Transition.target", t)))}


def states_of(s, dm):
    lst = s.sel("States.order", s.sel("DiagMachine.states", s.sel("DotGraphMachine.machine", dm)))
    return s.sel("list.arr", lst), s.sel("list.len", lst)


def graph_wf(s, dm):
    arr, n = states_of(s, dm)
    k, k2, j, j2 = (z3.Const(x, Int) for x in ("k!dg", "k2!dg", "j!dg", "j2!dg"))
    ta, tn = state_transitions(s, z3.Select(arr, k))
    ta2, tn2 = state_transitions(s, z3.Select(arr, k2))
    m = s.sel("DotGraphMachine.machine", dm)
    return z3.And(
        n >= 0, valid_obj(s, m), valid_obj(s, s.sel("DiagMachine.states", m)), valid_obj(s, s.sel("States.order", s.sel("DiagMachine.states", m))),
        z3.ForAll([k], z3.Implies(z3.And(k >= 0, k < n), z3.And(
            valid_obj(s, z3.Select(arr, k)), tn >= 0, z3.Select(arr, k) != INIT_NODE,
            valid_obj(s, s.sel("State.transitions", z3.Select(arr, k))),
            valid_obj(s, s.sel("TransitionList.transitions", s.sel("State.transitions", z3.Select(arr, k))))))),
        z3.ForAll([k, k2], z3.Implies(z3.And(0 <= k, k < k2, k2 < n), z3.Select(arr, k) != z3.Select(arr, k2))),
        z3.ForAll([k, j], z3.Implies(z3.And(k >= 0, k < n, j >= 0, j < tn), z3.And(
            valid_obj(s, z3.Select(ta, j)), z3.Select(ta, j) != INIT_EDGE, s.sel("Transition.source", z3.Select(ta, j)) != NONE))),
        # a transition object belongs to one position of one state's list
        z3.ForAll([k, j, k2, j2], z3.Implies(
            z3.And(k >= 0, k < n, k2 >= 0, k2 < n, j >= 0, j < tn, j2 >= 0, j2 < tn2, z3.Or(k != k2, j != j2)),
            z3.Select(ta, j) != z3.Select(ta2, j2))),
    )


@register
class GetGraph(Contract):
    """get_graph (C18): exactly one node per state plus the initial pseudo-node, exactly one edge per
    external transition plus the initial edge, internal transitions never drawn as edges."""

    qualnames = [DQ + "get_graph"]
    params = [("self", "DotGraphMachine")]
    returns = "PGraph"
    modifies = PG_FRESH + PN_FRESH + PE_FRESH + ["list.arr+", "list.len+"]
    properties = ["C18"]

    def pre(self, s, a):
        return {"graph-wf": graph_wf(s, a.self.e),
                "current-state-is-a-state": z3.And(CUR_STATE >= FIRST_ADDR, CUR_STATE < s["ghost.alloc"])}

    def _done(self, s0, s, a, g, upto_k, cur=None):
        arr, n = states_of(s0, a.self.e)
        k, j = z3.Const("k!gd", Int), z3.Const("j!gd", Int)
        x = z3.Const("x!gd", Int)
        st = z3.Select(arr, k)
        ta, tn = state_transitions(s0, st)
        t = z3.Select(ta, j)
        nc, ec = s.sel("PGraph.ncount", g), s.sel("PGraph.ecount", g)
        want = z3.If(s0.sel("Transition.internal", t), 0, 1)
        nodes_upto = upto_k if cur is None else upto_k + 1
        f = [
            s.sel("PGraph.nnodes", g) == 1 + nodes_upto, z3.Select(nc, INIT_NODE) == 1, z3.Select(ec, INIT_EDGE) == 1,
            z3.ForAll([k], z3.Implies(z3.And(k >= 0, k < n), z3.Select(nc, st) == z3.If(k < nodes_upto, 1, 0))),
            z3.ForAll([k, j], z3.Implies(z3.And(k >= 0, k < upto_k, j >= 0, j < tn), z3.Select(ec, t) == want)),
            z3.ForAll([k, j], z3.Implies(z3.And(k > upto_k if cur is not None else k >= upto_k, k < n, j >= 0, j < tn), z3.Select(ec, t) == 0)),
        ]
        if cur is not None:
            ca, cn = state_transitions(s0, z3.Select(arr, upto_k))
            tc = z3.Select(ca, j)
            f.append(z3.ForAll([j], z3.Implies(z3.And(j >= 0, j < cn), z3.Select(ec, tc) == z3.If(
                j < cur, z3.If(s0.sel("Transition.internal", tc), 0, 1), 0))))
        return z3.And(*f)

    def post(self, s0, s, a, r):
        arr, n = states_of(s0, a.self.e)
        return {"C18|one-node-per-state-one-edge-per-external-transition-none-for-internal": z3.And(
            r.e >= s0["ghost.alloc"], self._done(s0, s, a, r.e, n))}

    def _inv_outer(self, s0, s, a, l):
        return {"C18|states-so-far": z3.And(l.graph.e >= s0["ghost.alloc"], self._done(s0, s, a, l.graph.e, l.i))}

    def _inv_inner(self, s0, s, a, l):
        arr, n = states_of(s0, a.self.e)
        k = z3.Const("k!gi", Int)
        return {"C18|current-state": z3.Exists([k], z3.And(
            k >= 0, k < n, z3.Select(arr, k) == l.state.e, l.graph.e >= s0["ghost.alloc"],
            self._done(s0, s, a, l.graph.e, k, cur=l.i)))}

    @property
    def loops(self):
        w = lambda s0, a, l: [l.graph.e]  # noqa: E731
        return {0: LoopSpec(self._inv_outer, written=w), 1: LoopSpec(self._inv_inner, written=w)}


def _grouper_iter(ex, path, v):
    """SpecListGrouper.__iter__: the specs of its group (content not modelled: only used for labels)."""
    lst = path.alloc("list[CallbackSpec]", "groupspecs")
    path.assume(path.sel("list.len", lst.e) >= 0)
    return lst


CLASSES["SpecListGrouper"].iter_fn = _grouper_iter
CLASSES["CallbackSpec"].as_str = lambda path, v: z3.Function("SPEC_STR", Int, Str)(v.e)
CLASSES["Transition"].props["event"] = C("diagram:transition.event")


@register
class TransitionEventStr(Contract):
    """Transition.event: str(self._events) — ASSUMED here: some string determined by the transition."""
    qualnames = ["diagram:transition.event"]
    params = [("self", "Transition")]
    returns = "str"
    modifies = []
    trusted = True

    def post(self, s0, s, a, r):
        return {"determined-by-the-transition": r.e == z3.Function("EVENT_STR", Int, Str)(a.self.e)}
