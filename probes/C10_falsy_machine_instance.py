"""Probe (C10/C13, bounded): a machine instance that is FALSY (it defines __len__ and is empty, or defines __bool__) is still
an instance: `sm.<state>` is the per-instance view (is_active works, exactly one active), `sm.<event>` is bound, events fire,
allowed_events lists bound events.  The descriptors State.__get__ / Event.__get__ decide by `is None`, not by truthiness.
Exit 1 = violated."""
import sys

from statemachine import State, StateMachine


class BatchC10f(StateMachine):
    idle = State(initial=True)
    busy = State()
    start = idle.to(busy)
    stop = busy.to(idle)

    def __init__(self):
        self.items = []
        super().__init__()

    def __len__(self):
        return len(self.items)


problems = []
try:
    sm = BatchC10f()
    assert not sm  # the machine is falsy

    def flags():
        return {sid: getattr(sm, sid).is_active for sid in ("idle", "busy")}
    if flags() != {"idle": True, "busy": False}:
        problems.append(f"after construction: {flags()}")
    sm.start()
    if flags() != {"idle": False, "busy": True}:
        problems.append(f"after start: {flags()}")
    if [str(e) for e in sm.allowed_events] != ["stop"]:
        problems.append(f"allowed events in busy: {[str(e) for e in sm.allowed_events]}")
    sm.send("stop")
    sm.current_state_value = "busy"
    if flags() != {"idle": False, "busy": True}:
        problems.append(f"after an external write of 'busy': {flags()}")
except Exception as e:  # noqa: BLE001
    problems.append(f"raised {type(e).__name__}: {e}")
# the DEFAULT model stores the state under any state_field name, not only `state`
try:
    class PlainC10f(StateMachine):
        idle = State(initial=True)
        busy = State()
        start = idle.to(busy)
        stop = busy.to(idle)
    sm2 = PlainC10f(state_field="workflow_step")
    sm2.start()
    if getattr(sm2.model, "workflow_step", None) != "busy" or sm2.current_state.id != "busy":
        problems.append(f"default model with state_field='workflow_step': field {getattr(sm2.model, 'workflow_step', None)!r}, state {sm2.current_state.id!r}")
except Exception as e:  # noqa: BLE001
    problems.append(f"default model with a custom state_field: raised {type(e).__name__}: {e}")
for p in problems:
    print("VIOLATED:", p)
print("ok" if not problems else f"{len(problems)} problems")
sys.exit(1 if problems else 0)
