"""C12/C05 witness (#12): an async listener attached with add_listener to a machine that so far had
only sync callbacks: its coroutine callback is created and never awaited (the engine was chosen at
construction).  Exit 1 while present."""
import gc
import sys
import warnings
from statemachine import State, StateMachine


class M(StateMachine):
    a = State(initial=True)
    b = State()
    go = a.to(b)
    back = b.to(a)


class Late:
    def __init__(self):
        self.seen = []

    async def after_transition(self, event):
        self.seen.append(str(event))


sm = M()
late = Late()
sm.add_listener(late)
with warnings.catch_warnings(record=True) as w:
    warnings.simplefilter("always")
    sm.go()
    gc.collect()
never_awaited = any("never awaited" in str(x.message) for x in w)
if late.seen != ["go"]:
    print("C12 VIOLATED (recorded finding): late async listener's after_transition did not run:", late.seen,
          "(coroutine never awaited)" if never_awaited else "")
    sys.exit(1)
print("ok")
