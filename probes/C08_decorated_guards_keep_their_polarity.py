"""Probe (C08, bounded): guards attached with the decorator forms keep their meaning — `@x.cond` must be truthy and
`@x.unless` must be falsy for the transition to fire — whether x is a TransitionList attribute or an explicit Event(...)
object, and a guard given as an empty string is not silently accepted as "no guard".  Exit 1 = violated."""
import sys
import warnings

from statemachine import Event, State, StateMachine
from statemachine.exceptions import InvalidDefinition, TransitionNotAllowed

warnings.simplefilter("ignore")
errors = []


def fires(sm, ev):
    try:
        sm.send(ev)
        return True
    except TransitionNotAllowed:
        return False


class ByListC08p(StateMachine):
    a = State(initial=True)
    b = State()
    go = a.to(b)
    back = b.to(a)

    @go.cond
    def ready_c08p(self):
        return self.ready

    @back.unless
    def frozen_c08p(self):
        return self.frozen


class ByEventC08p(StateMachine):
    a = State(initial=True)
    b = State()
    go = Event(a.to(b), name="go")
    back = Event(b.to(a), name="back")

    @go.cond
    def ready_c08q(self):
        return self.ready

    @back.unless
    def frozen_c08q(self):
        return self.frozen


for cls in (ByListC08p, ByEventC08p):
    for ready in (True, False):
        for frozen in (True, False):
            sm = cls()
            sm.ready, sm.frozen = ready, frozen
            got_go = fires(sm, "go")
            if got_go != ready:
                errors.append(f"{cls.__name__}: @go.cond returned {ready} but go fired={got_go}")
            if got_go:
                got_back = fires(sm, "back")
                if got_back != (not frozen):
                    errors.append(f"{cls.__name__}: @back.unless returned {frozen} but back fired={got_back}")

for kw in ("cond", "unless"):
    try:
        class EmptyGuardC08p(StateMachine):
            a = State(initial=True)
            b = State(final=True)
            go = a.to(b, **{kw: ""})
        sm = EmptyGuardC08p()
        errors.append(f"{kw}='' (an empty guard expression) was accepted; the transition fires unguarded: {fires(sm, 'go')}")
    except InvalidDefinition:
        pass
    except Exception as e:  # noqa: BLE001
        errors.append(f"{kw}='': raised {type(e).__name__} instead of InvalidDefinition")
# a guard name that nothing provides is rejected — also when it happens to be the id of a state (states are not callbacks),
# whatever values the states carry
for values in ((None, None), (1, 2)):
    try:
        class StateNameAsGuardC08p(StateMachine):
            new = State(initial=True, **({} if values[0] is None else {"value": values[0]}))
            paid = State(final=True, **({} if values[1] is None else {"value": values[1]}))
            pay = new.to(paid, cond="paid")
        StateNameAsGuardC08p()
        errors.append(f"cond='paid' (the id of a state, values {values}) was accepted as a guard")
    except InvalidDefinition:
        pass
    except Exception as e:  # noqa: BLE001
        errors.append(f"cond='paid': raised {type(e).__name__} instead of InvalidDefinition")
for e in errors:
    print("VIOLATED:", e)
print("ok" if not errors else f"{len(errors)} problems")
sys.exit(1 if errors else 0)
