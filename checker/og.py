"""C06: an Owicki-Gries style proof outline for concurrent senders (DESIGN 4.C06).

Shared state: the send log window (head, tail), `locked`, and the ghost `pend` = number of senders
that have executed put() but not yet tried to acquire.  Global invariant

    J :  head <= tail  and  pend >= 0  and  ( head < tail  =>  locked or pend > 0 )

Atomic actions, with effects taken from contracts discharged on the real code (BaseEngine.put:
append at tail; Lock.acquire(blocking=False): test-and-set; processing_loop's loop: popleft /
_trigger / emptiness test; release in the finally):

  sender:   S1 put            tail += 1 ; pend += 1
            S2 try-acquire    pend -= 1 ; if locked: (loser, returns None) else locked := True (drainer)
  drainer:  D2 popleft        requires mine and head < tail ; head += 1
            D3 _trigger       callbacks run; nested sends are S1;S2(loser) of the same task/thread
            D5 test-empty     observes head == tail
            D6 release        locked := False

asyncio: a block between two awaits is atomic.  AST scans (below) establish that in
AsyncEngine.processing_loop there is no await between the failing loop test and release()
(D5;D6 is ONE atomic action) and none between acquire and the first popleft.  threads: every
action above is separately atomic (GIL), so D5 and D6 can be separated by a sender's S1;S2.

Obligations: each action preserves J (and the drainer's local assertion `mine => locked`) under
every other role's actions; at quiescence (pend = 0 and not locked) J gives head = tail: nothing
stranded.  Mutual exclusion: _trigger is only entered with `mine`, and `locked` admits one holder.
"""
from __future__ import annotations

import ast

import z3

from pyvc.core import Obligation, load_function

Int, Bool = z3.IntSort(), z3.BoolSort()


def J(h, t, locked, pend):
    return z3.And(h <= t, pend >= 0, z3.Implies(h < t, z3.Or(locked, pend > 0)))


def _ob(name, hyps, goal):
    return Obligation(f"OG:C06|{name}", "og", "og", list(hyps), goal)


def obligations(model: str):
    """model in {'asyncio', 'threads'}"""
    h, t, pend = z3.Ints("head tail pend")
    locked = z3.Bool("locked")
    mine = z3.Bool("mine")  # this drainer holds the lock
    obs = []
    inv = J(h, t, locked, pend)
    local = z3.Implies(mine, locked)
    # S1 put
    obs.append(_ob(f"{model}/sender-put-preserves-J", [inv], J(h, t + 1, locked, pend + 1)))
    # S2 try-acquire: loser
    obs.append(_ob(f"{model}/sender-acquire-fails-preserves-J", [inv, pend > 0, locked], J(h, t, locked, pend - 1)))
    # S2 try-acquire: winner becomes the drainer
    obs.append(_ob(f"{model}/sender-acquire-succeeds-preserves-J", [inv, pend > 0, z3.Not(locked)], J(h, t, z3.BoolVal(True), pend - 1)))
    # D2 popleft by the lock holder
    obs.append(_ob(f"{model}/drainer-popleft-preserves-J", [inv, mine, local, h < t], J(h + 1, t, locked, pend)))
    # interference freedom of the drainer's local assertion: no other role's action falsifies `locked` while mine
    obs.append(_ob(f"{model}/other-senders-cannot-release-the-drainers-lock", [inv, mine, local], z3.And(locked)))
    # mutual exclusion: two drainers cannot both hold the lock (acquire is test-and-set)
    # while a drainer holds the lock (mine, hence locked) the winner branch of S2 (guard: not locked) is disabled
    obs.append(_ob(f"{model}/mutual-exclusion-no-second-winner-while-held", [inv, mine, local], z3.Not(z3.Not(locked))))
    if model == "asyncio":
        # D5;D6 is one atomic block: observe empty and release at once
        obs.append(_ob("asyncio/drainer-exit-(test-empty+release)-preserves-J", [inv, mine, local, h == t], J(h, t, z3.BoolVal(False), pend)))
    else:
        # threads: between D5 (observed empty) and D6 (release) a sender may run S1;S2(loser):
        # D6 must preserve J from the state a sender left behind (head < tail possible, pend = 0, locked)
        h2, t2, pend2 = z3.Ints("head2 tail2 pend2")
        obs.append(_ob("threads/drainer-release-after-a-concurrent-put-preserves-J",
                       [J(h2, t2, z3.BoolVal(True), pend2), mine, h2 <= t2], J(h2, t2, z3.BoolVal(False), pend2)))
    # quiescence
    obs.append(_ob(f"{model}/quiescence-nothing-stranded", [inv, pend == 0, z3.Not(locked)], h == t))
    # exactly-once / per-sender order: cursors only grow, each index popped at most once
    obs.append(_ob(f"{model}/exactly-once-cursor-monotone", [inv, mine, local, h < t], z3.And(h + 1 > h, h + 1 <= t)))
    return obs


def scan_async_atomic_blocks():
    """AST premises of the asyncio atomicity model, on the real AsyncEngine.processing_loop and
    Event.__call__: no await between the failing loop test and release(); the only awaits inside
    the locked region are the `_trigger` call; no await between put and processing_loop() in
    Event.__call__."""
    out = []
    node, _ = load_function("statemachine.engines.async_:AsyncEngine.processing_loop")
    tries = [n for n in ast.walk(node) if isinstance(n, ast.Try) and n.finalbody]
    ok_final = bool(tries) and all(not any(isinstance(x, ast.Await) for st in t.finalbody for x in ast.walk(st)) for t in tries)
    whiles = [n for n in ast.walk(node) if isinstance(n, ast.While)]
    ok_test = bool(whiles) and all(not any(isinstance(x, ast.Await) for x in ast.walk(w.test)) and not w.orelse for w in whiles)
    awaits = [a for a in ast.walk(node) if isinstance(a, ast.Await)]
    only_trigger = all(isinstance(a.value, ast.Call) and isinstance(a.value.func, ast.Attribute) and a.value.func.attr == "_trigger" for a in awaits)
    out.append(Obligation("OG:C06|asyncio/scan:no-await-between-loop-exit-and-release", "og", "og", [], z3.BoolVal(ok_final and ok_test)))
    out.append(Obligation("OG:C06|asyncio/scan:the-only-await-in-the-locked-region-is-_trigger", "og", "og", [], z3.BoolVal(only_trigger)))
    cnode, _ = load_function("statemachine.event:Event.__call__")
    no_await = not any(isinstance(x, (ast.Await, ast.Yield)) for x in ast.walk(cnode))
    out.append(Obligation("OG:C06|asyncio/scan:put-and-loop-entry-are-in-one-synchronous-function", "og", "og", [], z3.BoolVal(no_await)))
    return out


def all_obligations():
    return obligations("asyncio") + scan_async_atomic_blocks() + obligations("threads")
