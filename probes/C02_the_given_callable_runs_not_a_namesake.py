"""Probe (C02/C12, bounded): an action given BY CALLABLE (a module-level function, an unbound method of another class) is
the thing that runs — once, in its group — even when the model, the machine or a listener have an unrelated attribute of
the same name; those namesakes are not called.  (Listeners._search_callable is not under contract.)  Exit 1 = violated."""
import sys

from statemachine import State, StateMachine

calls = []


def notify_c02p():
    calls.append("function")
    return "by-function"


class HelperC02p:
    def audit_c02p(self=None, *a, **k):
        calls.append("helper-function")
        return "by-helper"


class ModelC02p:
    def __init__(self):
        self.state = None

    def notify_c02p(self):
        calls.append("model-namesake")
        return "by-model"

    def audit_c02p(self):
        calls.append("model-namesake-audit")


class ListenerC02p:
    def notify_c02p(self):
        calls.append("listener-namesake")


class MachineC02p(StateMachine):
    a = State(initial=True)
    b = State(final=True)
    go = a.to(b, on=notify_c02p, before=HelperC02p.audit_c02p)

    def on_exit_a(self):
        calls.append("exit")

    def on_enter_b(self):
        calls.append("enter")


problems = []
sm = MachineC02p(ModelC02p(), listeners=[ListenerC02p()])
result = sm.send("go")
want = ["helper-function", "exit", "function", "enter"]
if calls != want:
    problems.append(f"callbacks run {calls}, expected {want}")
if result != ["by-helper", "by-function"]:
    problems.append(f"result {result!r}, expected ['by-helper', 'by-function']")
for p in problems:
    print("VIOLATED:", p)
print("ok" if not problems else f"{len(problems)} problems")
sys.exit(1 if problems else 0)
