"""Probe (C16, bounded): the class registry used by MachineMixin resolves a fully qualified name to THAT class; defining
an unrelated class of the same short name in another module changes nothing for models bound earlier or later.
Exit 1 = violated."""
import sys
import types

try:
    import django
    from django.conf import settings
    settings.configure(INSTALLED_APPS=[])
    django.setup()
except Exception:  # noqa: BLE001
    pass

from statemachine.mixins import MachineMixin

SRC = {
    "pkg_a_c16p": "from statemachine import State, StateMachine\nclass FlowC16p(StateMachine):\n    open = State(initial=True)\n    approved = State(final=True)\n    approve = open.to(approved)\n",
    "pkg_b_c16p": "from statemachine import State, StateMachine\nclass FlowC16p(StateMachine):\n    idle = State(initial=True)\n    running = State(final=True)\n    start = idle.to(running)\n",
}


def load(name):
    mod = types.ModuleType(name)
    sys.modules[name] = mod
    exec(compile(SRC[name], name + ".py", "exec"), mod.__dict__)
    return mod


a = load("pkg_a_c16p")


class TicketA(MachineMixin):
    state_machine_name = "pkg_a_c16p.FlowC16p"


errors = []
if type(TicketA().statemachine) is not a.FlowC16p:
    errors.append("before the second definition: wrong class")
b = load("pkg_b_c16p")


class TicketB(MachineMixin):
    state_machine_name = "pkg_b_c16p.FlowC16p"


ta, tb = TicketA(), TicketB()
if type(ta.statemachine) is not a.FlowC16p:
    errors.append(f"model bound to pkg_a_c16p.FlowC16p got {type(ta.statemachine).__module__}.{type(ta.statemachine).__name__}")
if type(tb.statemachine) is not b.FlowC16p:
    errors.append(f"model bound to pkg_b_c16p.FlowC16p got {type(tb.statemachine).__module__}.{type(tb.statemachine).__name__}")
if not errors:
    ta.statemachine.approve()
    tb.statemachine.start()
    if (ta.state, tb.state) != ("approved", "running"):
        errors.append(f"states {ta.state!r}, {tb.state!r}")
for e in errors:
    print("VIOLATED:", e)
print("ok" if not errors else f"{len(errors)} problems")
sys.exit(1 if errors else 0)
