"""C06 witness (#16, threads): an event enqueued by a second thread between the draining thread's final
emptiness test and its release() is stranded: every sender has returned, yet the event was never
processed.  The schedule is forced deterministically by a deque subclass whose emptiness test hands
control to the second thread at exactly that point.  Exit 1 while the window exists."""
import sys
import threading
import warnings
from collections import deque
from statemachine import State, StateMachine

warnings.simplefilter("ignore")


class M(StateMachine):
    a = State(initial=True)
    b = State()
    c = State()
    go = a.to(b) | b.to(c) | c.to(a)


class Racy(deque):
    hook = None

    def __len__(self):
        n = super().__len__()
        if n == 0 and Racy.hook is not None:
            h, Racy.hook = Racy.hook, None
            h()  # another thread sends now: after the drainer saw "empty", before it releases the lock
        return n

    def __bool__(self):
        return len(self) > 0


sm = M()
sm._engine._external_queue = Racy(sm._engine._external_queue)
results = []


def second_sender():
    t = threading.Thread(target=lambda: results.append(sm.send("go")))
    t.start()
    t.join()


Racy.hook = second_sender
sm.send("go")  # first sender drains; the second send happens inside the final emptiness test
pending = len(deque.__iter__(sm._engine._external_queue).__reduce__()[1][0]) if False else super(Racy, sm._engine._external_queue).__len__()
if pending or sm.current_state.id != "c":
    print(f"C06 VIOLATED (recorded finding): both senders returned, {pending} event(s) left in the queue, state {sm.current_state.id!r} (expected 'c')")
    sys.exit(1)
print("ok")
