"""Contracts for construction and the state accessors (C10, C11): StateMachine.__init__,
_get_initial_state, current_state getter body, State.for_instance, InstanceState.is_active,
State.__eq__."""
from __future__ import annotations

import z3

from pyvc.core import (
    B, CLASSES, EXC_CODE, Exc, I, NONE, NoneV, O, Py, S, T, Int, Bool, Str, ref_of, truthy, FIRST_ADDR,
    ClassModel, MethodSpec, Unsupported, fresh,
)
from pyvc.execu import CONTRACTS, GLOBAL_NAMES, CallArgs, Contract, LoopSpec, Raise, register
from pyvc.models import model

from .model import C, INL, SMQ, W, mstate, others_kept, smap_has, smap_val, valid_obj, wf_class, wf_world
from .engines import init_target

# ---- a user-supplied model object: any object; its truth value is its own business (it may define
# __len__/__bool__), so truthiness is an uninterpreted function of the reference --------------------
ClassModel("UserModel", bases=["Model"], heapname="Model", truthy_fn=lambda path, v: truthy(v.e))


def model_ctor(ex, path, ca, node):
    m = path.alloc("Model", "model")
    path.store("Model.state", m.e, NONE)
    return [(path, m)]


CLASSES["Model"].ctor = model_ctor
GLOBAL_NAMES["Model"] = Py(("class", "Model"))

# ---- the machine as __init__ sees it: the tail of the constructor (registering callbacks, engine
# selection, start) is used through trivial assumed contracts here; those functions have their own
# contracts elsewhere (C11, C12, C05) ---------------------------------------------------------------
ClassModel(
    "StateMachineInit",
    heapname="StateMachine",
    fields={
        "model": "Model", "state_field": "str", "start_value": "Val", "allow_event_without_transition": "bool",
        "_callbacks": "CallbacksRegistry", "_states_for_instance": "idict[State,IState]", "_engine": "InitEngine",
        "_listeners": "idict[Val,Val]", "_abstract": "bool",
    },
    methods={"_register_callbacks": C("init:_register_callbacks"), "_get_engine": C("init:_get_engine")},
)
ClassModel("InitEngine", methods={"start": C("init:engine.start")})


def _opaque(name, params, returns="None"):
    cls = type("Opaque_" + name.replace(":", "_").replace(".", "_"), (Contract,), {
        "qualnames": [name], "params": params, "returns": returns, "modifies": [], "trusted": True,
        "raises": True,
        "assumptions": lambda self: [f"{name}: opaque in the __init__ check (own contract elsewhere)"],
    })
    return register(cls)


_opaque("init:_register_callbacks", [("self", "StateMachineInit"), ("listeners", "Val")])
_opaque("init:_get_engine", [("self", "StateMachineInit"), ("rtc", "bool")], returns="InitEngine")
_opaque("init:engine.start", [("self", "InitEngine")])


def registry_ctor(ex, path, ca, node):
    r = path.alloc("CallbacksRegistry", "registry")
    return [(path, r)]


CLASSES["CallbacksRegistry"].ctor = registry_ctor
GLOBAL_NAMES["CallbacksRegistry"] = Py(("class", "CallbacksRegistry"))


@register
class Init(Contract):
    """StateMachine.__init__ (C10): the user's model object is the one used (whatever its truth
    value), a fresh Model() only when none is given; options are stored as given."""

    qualnames = [SMQ + "__init__"]
    params = [("self", "StateMachineInit"), ("model", "Opt[UserModel]"), ("state_field", "str"), ("start_value", "Val"),
              ("rtc", "bool"), ("allow_event_without_transition", "bool"), ("listeners", "Val")]
    returns = "None"
    raises = True
    modifies = ["StateMachine.model", "StateMachine.state_field", "StateMachine.start_value",
                "StateMachine.allow_event_without_transition", "StateMachine._callbacks",
                "StateMachine._states_for_instance", "StateMachine._listeners", "StateMachine._engine",
                "Model.state+", "idict.has+", "idict.val+", "dict.has+", "dict.val+"]
    properties = ["C10", "C12", "C16"]

    def post(self, s0, s, a, r):
        me = a.self.e
        m = s.sel("StateMachine.model", me)
        return {
            "C10,C12|the-users-model-object-is-the-one-used": z3.Implies(a.model.e != NONE, m == a.model.e),
            "C10|a-fresh-model-only-when-none-is-given": z3.Implies(a.model.e == NONE, z3.And(
                m >= s0["ghost.alloc"], s.sel("Model.state", m) == NONE)),
            "C16|own-fresh-registry-state-cache-and-listener-table": z3.And(
                s.sel("StateMachine._callbacks", me) >= s0["ghost.alloc"], s.sel("StateMachine._states_for_instance", me) >= s0["ghost.alloc"],
                s.sel("StateMachine._listeners", me) >= s0["ghost.alloc"]),
            "C10|options-stored-as-given": z3.And(
                s.sel("StateMachine.state_field", me) == a.state_field.e,
                s.sel("StateMachine.start_value", me) == a.start_value.e,
                s.sel("StateMachine.allow_event_without_transition", me) == a.allow_event_without_transition.e),
        }


@register
class GetInitialState(Contract):
    """StateMachine._get_initial_state (C10, C11): `start_value` selects the starting state whenever
    one is given — anything that is not None, falsy values such as 0 or "" included; an unmapped
    start value raises InvalidStateValue."""

    qualnames = [SMQ + "_get_initial_state"]
    params = [("self", "StateMachine")]
    returns = "State"
    raises = True
    exc_classes = ["InvalidStateValue"]
    modifies = []
    properties = ["C10", "C11"]

    def pre(self, s, a):
        f = dict(wf_world(s))  # WF(cls) is not needed by the body: only the class's initial state must be mapped
        f["self-is-machine"] = a.self.e == W.SM
        ini = s.sel("StateMachine.initial_state", W.SM)
        f["class-initial-state-mapped"] = z3.And(valid_obj(s, ini), smap_has(s, s.sel("State.value", ini)),
                                                 smap_val(s, s.sel("State.value", ini)) == ini)
        return f

    def post(self, s0, s, a, r):
        sv = s0.sel("StateMachine.start_value", W.SM)
        return {
            "C10,C11|start-value-selects-the-state-whenever-given": r.e == init_target(s0),
            "C10|start-value-mapped": z3.Implies(sv != NONE, smap_has(s0, sv)),
        }

    def exc_post(self, s0, s, a, x):
        sv = s0.sel("StateMachine.start_value", W.SM)
        return {"C10|raises-only-for-an-unmapped-start-value": z3.And(sv != NONE, z3.Not(smap_has(s0, sv)))}
