"""Witness (C17, fixed by /repo 11b05e0): a clone must run callbacks of equal priority, provided both by the machine and
by a listener given to the constructor, in the same order as the original.  Exit 1 = the defect is present."""
import copy
import pickle
import sys

from statemachine import State, StateMachine


class JournalC17w:
    def __init__(self):
        self.log = []


class ListenerC17w:
    def c17w_first(self, machine):
        machine.model.log.append("listener.first")

    def c17w_second(self, machine):
        machine.model.log.append("listener.second")


class MachineC17w(StateMachine):
    a = State(initial=True)
    b = State(final=True)
    go = a.to(b, on=["c17w_first", "c17w_second"])

    def c17w_first(self):
        self.model.log.append("sm.first")

    def c17w_second(self):
        self.model.log.append("sm.second")


bad = 0
for how, cloner in (("deepcopy", copy.deepcopy), ("pickle", lambda x: pickle.loads(pickle.dumps(x)))):
    sm = MachineC17w(JournalC17w(), listeners=[ListenerC17w()])
    c = cloner(sm)
    sm.go()
    c.go()
    print(how, "original", sm.model.log, "clone", c.model.log)
    bad |= sm.model.log != c.model.log
sys.exit(1 if bad else 0)
