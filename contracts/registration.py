"""Contracts of the registration step (C02, C12): `CallbacksExecutor.add(key, spec, builder)` and the ordering
`CallbackWrapper.__lt__` it relies on.

`add` is where "every provider of a name is called once" and "callbacks run by priority, then in registration order"
are made true: a key already seen is ignored (re-attaching a listener never duplicates), otherwise exactly one wrapper —
callback = what the builder builds, condition = the spec's cond or always-true, meta = the spec, expected value = the
spec's — is inserted to the right of every wrapper whose priority is not greater (bisect.insort), and nothing else moves.
"""
from __future__ import annotations

import z3

from pyvc.core import B, CLASSES, NONE, NoneV, O, Py, S, Int, Str, ClassModel, Unsupported, fresh
from pyvc.execu import BUILTINS, GLOBAL_NAMES, Contract, register
from pyvc.models import ctor_from_init, model

from .model import C, CBQ, exec_wf, valid_obj

IS_CORO = z3.Function("IS_COROUTINE_FLAG", Int, z3.BoolSort())  # getattr(callback, "is_coroutine", False)
BUILT = z3.Function("BUILT_BY", Int, Int)  # what builder() returns: the adapter for one provider (a pure function of the builder)
ALWAYS_TRUE = z3.Int("ALLWAYS_TRUE_FN")  # the module-level function `allways_true`

ClassModel("Builder", methods={"__call__": C("user:builder")})
GLOBAL_NAMES["statemachine.callbacks:allways_true"] = O(ALWAYS_TRUE, "CondCallable")
CLASSES["CallbackWrapper"].ctor = ctor_from_init("statemachine.callbacks:CallbackWrapper", "CallbackWrapper")
CLASSES["CallbackWrapper"].methods["__lt__"] = C(CBQ + "CallbackWrapper.__lt__")
GLOBAL_NAMES["statemachine.callbacks:CallbackWrapper"] = Py(("class", "CallbackWrapper"))


def _usercallable_getattr(ex, path, obj, name, default, node):
    if isinstance(name, S) and z3.is_string_value(name.e) and name.e.as_string() == "is_coroutine":
        return [(path, B(IS_CORO(obj.e)))]
    raise Unsupported("getattr(callback, ...)")


CLASSES["UserCallable"].getattr_fn = _usercallable_getattr


def prio(s, w):
    return s.sel("CallbackSpec.priority", s.sel("CallbackWrapper.meta", w))


def items(s, ex):
    dq = s.sel("CallbacksExecutor.items", ex)
    return dq, s.sel("deque.arr", dq), s.sel("deque.head", dq), s.sel("deque.tail", dq)


def sorted_by_priority(s, ex):
    _dq, arr, h, t = items(s, ex)
    i, j = z3.Const("i!sp", Int), z3.Const("j!sp", Int)
    return z3.ForAll([i, j], z3.Implies(z3.And(h <= i, i < j, j < t), prio(s, z3.Select(arr, i)) <= prio(s, z3.Select(arr, j))))


@register
class BuilderCall(Contract):
    """ORACLE: builder() — `partial(callable_method | attr_method | event_method, ...)`: builds the adapter of ONE
    provider; no effect on the machine (the adapters are under contract in contracts/adapters.py / dispatcher.py)."""
    qualnames = ["user:builder"]
    params = [("self", "Builder")]
    returns = "UserCallable"
    modifies = []
    trusted = True

    def post(self, s0, s, a, r):
        return {"built": z3.And(r.e == BUILT(a.self.e), valid_obj(s, r.e))}

    def assumptions(self):
        return ["a callback builder (functools.partial of an adapter constructor) is a pure function of the builder object"]


@register
class WrapperLt(Contract):
    """CallbackWrapper.__lt__: wrappers are ordered by the priority of their spec, nothing else."""
    qualnames = [CBQ + "CallbackWrapper.__lt__"]
    params = [("self", "CallbackWrapper"), ("other", "CallbackWrapper")]
    returns = "bool"
    modifies = []
    properties = ["C02", "C12"]

    def post(self, s0, s, a, r):
        return {"C02|ordered-by-spec-priority-only": r.e == (prio(s0, a.self.e) < prio(s0, a.other.e))}


def b_insort(ex, path, ca, node):
    """bisect.insort(dq, w) on a deque of wrappers — ASSUMED (CPython's bisect + deque.insert), relative to the proved
    `__lt__`: precondition the deque is sorted; w lands at the position p with everything left of it not greater and
    everything right of it greater; the others keep their order."""
    dqv, w = ca.pos
    if not (isinstance(dqv, O) and dqv.cls.startswith("deque") and isinstance(w, O)):
        raise Unsupported("insort on a non-deque")
    arr, h, t = path.sel("deque.arr", dqv.e), path.sel("deque.head", dqv.e), path.sel("deque.tail", dqv.e)
    s = path.view()
    i, j = z3.Const("i!ins", Int), z3.Const("j!ins", Int)
    ex.run.oblige(path, "builtin", f"insort-needs-a-sorted-sequence@{getattr(node, 'lineno', 0)}", z3.ForAll([i, j], z3.Implies(
        z3.And(h <= i, i < j, j < t), prio(s, z3.Select(arr, i)) <= prio(s, z3.Select(arr, j)))))
    p = fresh("insort_pos", Int)
    path.assume(h <= p, p <= t,
                z3.ForAll([i], z3.Implies(z3.And(h <= i, i < p), prio(s, z3.Select(arr, i)) <= prio(s, w.e)), patterns=[z3.Select(arr, i)]),
                z3.ForAll([i], z3.Implies(z3.And(p <= i, i < t), prio(s, w.e) < prio(s, z3.Select(arr, i))), patterns=[z3.Select(arr, i)]))
    narr = fresh("insorted", arr.sort())
    path.assume(z3.Select(narr, p) == w.e,
                z3.ForAll([i], z3.Implies(i < p, z3.Select(narr, i) == z3.Select(arr, i)), patterns=[z3.Select(narr, i)]),
                z3.ForAll([i], z3.Implies(i > p, z3.Select(narr, i) == z3.Select(arr, i - 1)), patterns=[z3.Select(narr, i)]))
    path.store("deque.arr", dqv.e, narr)
    path.store("deque.tail", dqv.e, t + 1)
    return [(path, NoneV())]


BUILTINS["insort"] = b_insort
GLOBAL_NAMES["statemachine.callbacks:insort"] = Py(("builtin", "insort"))


@register
class ExecutorAdd(Contract):
    qualnames = [CBQ + "CallbacksExecutor.add"]
    params = [("self", "CallbacksExecutor"), ("key", "str"), ("spec", "CallbackSpec"), ("builder", "Builder")]
    returns = "None"
    modifies = ["deque.arr", "deque.tail", "sset.has", "CallbackWrapper._callback+", "CallbackWrapper._iscoro+", "CallbackWrapper.condition+",
                "CallbackWrapper.meta+", "CallbackWrapper.unique_key+", "CallbackWrapper.expected_value+"]
    properties = ["C02", "C12"]
    __doc__ = __doc__

    def pre(self, s, a):
        ex = a.self.e
        seen = s.sel("CallbacksExecutor.items_already_seen", ex)
        return {"executor-wf": exec_wf(s, ex), "sorted-by-priority": sorted_by_priority(s, ex),
                "seen-set-is-its-own-object": z3.And(valid_obj(s, seen), valid_obj(s, a.spec.e), valid_obj(s, a.builder.e))}

    def post(self, s0, s, a, r):
        ex = a.self.e
        seen = s0.sel("CallbacksExecutor.items_already_seen", ex)
        has0, has = s0.sel("sset.has", seen), s.sel("sset.has", seen)
        dq, arr0, h, t0 = items(s0, ex)
        _dq, arr, _h, t = items(s, ex)
        was = z3.Select(has0, a.key.e)
        i, p = z3.Const("i!ea", Int), z3.Const("p!ea", Int)
        k = z3.Const("k!ea", Str)
        w = z3.Select(arr, p)
        cond0 = s0.sel("CallbackSpec.cond", a.spec.e)
        placed = z3.And(
            h <= p, p <= t0, w >= s0["ghost.alloc"], w < s["ghost.alloc"],
            s.sel("CallbackWrapper._callback", w) == BUILT(a.builder.e),
            s.sel("CallbackWrapper.condition", w) == z3.If(cond0 != NONE, cond0, ALWAYS_TRUE),
            s.sel("CallbackWrapper.meta", w) == a.spec.e, s.sel("CallbackWrapper.unique_key", w) == a.key.e,
            s.sel("CallbackWrapper.expected_value", w) == s0.sel("CallbackSpec.expected_value", a.spec.e),
            z3.ForAll([i], z3.Implies(z3.And(h <= i, i < p), z3.And(
                z3.Select(arr, i) == z3.Select(arr0, i), prio(s0, z3.Select(arr0, i)) <= s0.sel("CallbackSpec.priority", a.spec.e)))),
            z3.ForAll([i], z3.Implies(z3.And(p <= i, i < t0), z3.And(
                z3.Select(arr, i + 1) == z3.Select(arr0, i), s0.sel("CallbackSpec.priority", a.spec.e) < prio(s0, z3.Select(arr0, i))))))
        return {
            "C12|a-key-already-seen-adds-nothing": z3.Implies(was, z3.And(t == t0, arr == arr0, has == has0)),
            "C12|a-new-key-is-remembered": z3.Implies(z3.Not(was), z3.ForAll([k], z3.Select(has, k) == z3.Or(z3.Select(has0, k), k == a.key.e))),
            "C02,C12|exactly-one-wrapper-of-this-spec-inserted-after-all-of-not-greater-priority-nothing-else-moves": z3.Implies(
                z3.Not(was), z3.And(t == t0 + 1, z3.Exists([p], placed))),
            "C02|still-sorted-by-priority": sorted_by_priority(s, ex),
            "queue-head-untouched": s.sel("deque.head", dq) == h,
        }
