"""Function-level check driver and the solver pool."""
from __future__ import annotations

import multiprocessing as mp
import json
import os
import subprocess
import tempfile
import time
from dataclasses import dataclass, field
from types import SimpleNamespace
from typing import Dict, List, Optional

import z3

from .core import (
    B, Exc, FIRST_ADDR, GLOBAL_AXIOMS, I, NONE, NoneV, O, Obligation, Path, Py, Run, S, T, V,
    CheckerError, StateView, Unsupported, ast_hash, exc_tag_axioms, fresh, load_function, ref_of,
    Int, Bool, Str, HEAP_SORTS,
)
from .execu import CONTRACTS, CallArgs, Contract, Executor, Norm, Raise, Ret

Z3_TIMEOUT_MS = int(os.environ.get("PYVC_Z3_TIMEOUT_MS", "16000"))
CVC5_TIMEOUT_MS = int(os.environ.get("PYVC_CVC5_TIMEOUT_MS", "8000"))
# The budgets that DECIDE a verdict are deterministic resource counters (z3 rlimit, cvc5 --rlimit), not
# wall-clock time: a loaded machine makes a check slower, never different.  WALL_GUARD_MS only stops a
# solver that hangs outside its resource accounting.
Z3_RLIMIT = int(os.environ.get("PYVC_Z3_RLIMIT", "30000000"))  # ~10-25 s of one core
Z3_RLIMIT_MBQI = int(os.environ.get("PYVC_Z3_RLIMIT_MBQI", "12000000"))
CVC5_RLIMIT = int(os.environ.get("PYVC_CVC5_RLIMIT", "4000000"))  # ~10 s of one core
Z3_OLD_RLIMIT = int(os.environ.get("PYVC_Z3_OLD_RLIMIT", "20000000"))
WALL_GUARD_MS = int(os.environ.get("PYVC_WALL_GUARD_MS", "900000"))
CANARY_RLIMIT = 4000000
LOW_BUDGET_DIV = 6  # obligations named by a recorded known finding are expected to stay open: smaller budget


@dataclass
class FunctionReport:
    qualname: str
    contract: str
    ast_hash: str = ""
    paths: int = 0
    pruned: int = 0
    obligations: List[Obligation] = field(default_factory=list)
    canaries: List[Obligation] = field(default_factory=list)
    pre_sat: Optional[bool] = None
    unsupported: Optional[str] = None
    error: Optional[str] = None
    wall_s: float = 0.0
    inlined: List[str] = field(default_factory=list)
    used_trusted: List[str] = field(default_factory=list)
    normal_paths: int = 0
    exc_paths: int = 0


def make_param(path: Path, name: str, t: str) -> V:
    if t == "bool":
        return B(fresh(name, Bool))
    if t == "int":
        return I(fresh(name, Int))
    if t == "str":
        return S(fresh(name, Str))
    e = fresh(name, Int)
    if t.startswith("Opt[") or t in ("Val", "any"):
        pass
    else:
        path.assume(e >= FIRST_ADDR, e < path.hget("ghost.alloc"))
    return O(e, "Val" if t == "any" else t)


def modkey(k: str):
    return (k[:-1], True) if k.endswith("+") else (k, False)


def verify_function(qualname: str, contract: Contract) -> FunctionReport:
    t0 = time.time()
    rep = FunctionReport(qualname=qualname, contract=type(contract).__name__)
    try:
        node, modname = load_function(qualname)
    except CheckerError as e:
        rep.error = str(e)
        return rep
    rep.ast_hash = ast_hash(node)
    short = qualname.split(":")[1].replace("#", "@")
    if modname.endswith("async_"):
        short = "async:" + short
    run = Run(short)
    ex = Executor(run, contract, qualname, node, modname)
    path = Path(run)
    path.assume(path.hget("ghost.alloc") >= FIRST_ADDR)
    _o = z3.Const("o!ll0", Int)
    path.assume(z3.ForAll([_o], z3.Select(path.hget("list.len"), _o) >= 0, patterns=[z3.Select(path.hget("list.len"), _o)]))
    vals = {}
    for n, t in contract.params:
        nm = n.lstrip("*")
        vals[nm] = make_param(path, nm, t)
    a = SimpleNamespace(**vals)
    s0 = path.snapshot()
    try:
        pre = contract.pre(s0, a)
        path.assume(*pre.values())
        if hasattr(contract, "reveal"):
            # definitional unfoldings (opaque/reveal): assumed in the body check only
            path.assume(*contract.reveal(s0, a).values())
        rep.pre_sat = path.feasible()
        if not rep.pre_sat:
            rep.error = "precondition unsatisfiable (vacuous contract)"
            return rep
        ex.s0, ex.a = s0, a
        path.env = dict(vals)
        can = run.oblige(path, "canary", "entry", z3.BoolVal(False))
        if hasattr(contract, "ghost_entry"):
            contract.ghost_entry(path, a)
        outcomes = ex.exec_block(node.body, path)
        alloc0 = s0["ghost.alloc"]
        pending_outcomes = list(outcomes)
        while pending_outcomes:
            p, oc = pending_outcomes.pop(0)
            run.paths_explored += 1
            if isinstance(oc, (Ret, Norm)):
                rep.normal_paths += 1
                r = oc.v if isinstance(oc, Ret) else NoneV()
                from .core import Coro
                if contract.is_async and isinstance(r, Coro):
                    # a plain `def` that returns the coroutine of its callee: the contract speaks
                    # about the awaited result
                    sub = ex.await_value(p, r)
                    pending_outcomes += [(p2, (Ret(v2) if not isinstance(v2, Raise) else v2)) for p2, v2 in sub]
                    continue
                r = coerce_result(ex, p, r, contract.returns)
                if hasattr(contract, "ghost_exit"):
                    contract.ghost_exit(p, a, r)
                post = contract.post(s0, p.view(), a, r)
                for label, f in post.items():
                    run.oblige(p, "post", label, f)
                frame_obligations(run, p, s0, contract, alloc0, "post")
                if p.coros:
                    pend = {k: v for k, v in p.coros.items() if not _is_returned(r, k)}
                    run.oblige(p, "post", "await-discipline:no-coroutine-left-pending",
                               z3.BoolVal(not pend), pending=list(pend.values()))
                run.oblige(p, "canary", "normal-exit", z3.BoolVal(False))
            elif isinstance(oc, Raise):
                rep.exc_paths += 1
                x = oc.exc
                if not contract.raises:
                    run.oblige(p, "exc-post", f"no-exception-escapes[{_exc_name(x)}@{x.origin}]", z3.BoolVal(False))
                else:
                    if contract.exc_classes is not None:
                        if isinstance(x.tag, str):
                            ok = z3.BoolVal(x.tag in contract.exc_classes)
                        else:
                            from .core import EXC_CODE
                            ok = z3.Or(*[x.tag == EXC_CODE[n] for n in contract.exc_classes])
                        run.oblige(p, "exc-post", "exception-class-allowed", ok, exc=_exc_name(x))
                    if hasattr(contract, "ghost_exc"):
                        contract.ghost_exc(p, a, x)
                    ep = contract.exc_post(s0, p.view(), a, x)
                    for label, f in ep.items():
                        run.oblige(p, "exc-post", label, f)
                    frame_obligations(run, p, s0, contract, alloc0, "exc-post")
                run.oblige(p, "canary", "exc-exit", z3.BoolVal(False))
            else:
                raise Unsupported("break/continue escaping function")
    except Unsupported as e:
        rep.unsupported = str(e)
    except CheckerError as e:
        rep.error = str(e)
    except (z3.Z3Exception, AttributeError, TypeError, KeyError, IndexError, ValueError, AssertionError) as e:
        # the body uses a value in a way the class models have no encoding for (e.g. a str where an object
        # reference is modelled): outside the accepted subset, not a verdict about the code
        import traceback
        where = traceback.extract_tb(e.__traceback__)[-1]
        rep.unsupported = f"{qualname}: no encoding ({type(e).__name__}: {str(e)[:120]} at {os.path.basename(where.filename)}:{where.lineno})"
    rep.paths = run.paths_explored
    rep.pruned = run.paths_pruned
    rep.inlined = sorted(getattr(run, "inlined", set()))
    rep.used_trusted = sorted(getattr(run, "used_trusted", set()))
    for ob in run.obligations:
        (rep.canaries if ob.kind == "canary" else rep.obligations).append(ob)
    rep.wall_s = time.time() - t0
    return rep


def _exc_name(x: Exc):
    return x.tag if isinstance(x.tag, str) else "symbolic"


def _is_returned(r, ident):
    from .core import Coro
    return isinstance(r, Coro) and r.ident == ident


def coerce_result(ex, p, r: V, t):
    if isinstance(t, tuple):
        return r
    if t in ("Val", "any"):
        return ex.coerce(p, r, "Val")
    return r


def frame_obligations(run: Run, p: Path, s0: StateView, contract: Contract, alloc0, kind: str):
    mods = dict(modkey(k) for k in contract.modifies)
    for key, cur in p.heap.items():
        if key == "ghost.alloc":
            continue
        init = run.init_heap.get(key)
        if init is None or cur is init or z3.eq(cur, init):
            continue
        if key in mods and not mods[key]:
            continue
        if z3.is_array(cur) and cur.sort().domain() == Int:
            o = z3.Const("o!frame", Int)
            f = z3.ForAll([o], z3.Implies(z3.And(o >= 0, o < alloc0), z3.Select(cur, o) == z3.Select(init, o)))
        else:
            f = cur == init
        run.oblige(p, kind, f"frame:{key}-unchanged" + ("-on-old-objects" if key in mods else ""), f)


# --------------------------------------------------------------------------- solver pool

def to_smt2(ob: Obligation) -> str:
    s = z3.Solver()
    s.add(*GLOBAL_AXIOMS)
    s.add(*ob.pc)
    s.add(z3.Not(ob.goal))
    return s.to_smt2()


def _solve_canary(idx, text):
    """A canary asks whether the assumptions on a path are contradictory.  `unsat` = vacuous
    (checker error); `sat`/`unknown` = not refuted.  Short budget, z3 only."""
    t0 = time.time()
    s = z3.Solver()
    s.set("timeout", 3000)
    s.from_string(text)
    r = s.check()
    st = "discharged" if r == z3.unsat else "failed" if r == z3.sat else "unknown"
    return idx, st, "z3-5.1", (time.time() - t0) * 1000, ""


def _solve_one(args):
    idx, text, want_model = args[:3]
    skip_z3 = len(args) > 3 and args[3]
    if not want_model:
        return _solve_canary(idx, text)
    t0 = time.time()
    if skip_z3:
        return _solve_cli(idx, text, t0)
    return _solve_z3_then_cli(idx, text, t0)


def _solve_z3_then_cli(idx, text, t0):
    # 1. z3 5.x default (proof search: e-matching + MBQI); 2. z3 5.x with e-matching off, which makes
    # MBQI find counter-models of quantified path conditions that the default strategy loops on.
    for backend, opts, rl in (("z3-5.1", {}, Z3_RLIMIT),
                              ("z3-5.1-mbqi", {"smt.ematching": False}, Z3_RLIMIT_MBQI)):
        try:
            s = z3.Solver()
            s.set("timeout", WALL_GUARD_MS)
            s.set("rlimit", rl)
            for k2, v2 in opts.items():
                s.set(k2, v2)
            s.from_string(text)
            r = s.check()
            if r == z3.unsat:
                return idx, "discharged", backend, (time.time() - t0) * 1000, ""
            if r == z3.sat:
                mt = ""
                try:
                    mt = str(s.model())[:8000]
                except Exception:
                    mt = "(model unavailable)"
                return idx, "failed", backend, (time.time() - t0) * 1000, mt
        except Exception:  # parse error etc.
            pass
    return _solve_cli(idx, text, t0)


def _run_cli(cmd, fn):
    try:
        out = subprocess.run(cmd + [fn], capture_output=True, text=True, timeout=WALL_GUARD_MS / 1000).stdout
    except Exception:
        return ""
    return out.strip().splitlines()[0] if out.strip() else ""


def _solve_cvc5(text):
    with tempfile.NamedTemporaryFile("w", suffix=".smt2", delete=False) as f:
        f.write(text)
        fn = f.name
    try:
        return _run_cli(["/usr/bin/cvc5", "--strings-exp", f"--rlimit={CVC5_RLIMIT}"], fn)
    finally:
        os.unlink(fn)


def _solve_z3_old(text):
    with tempfile.NamedTemporaryFile("w", suffix=".smt2", delete=False) as f:
        f.write(text)
        fn = f.name
    try:
        return _run_cli(["/usr/bin/z3", f"rlimit={Z3_OLD_RLIMIT}"], fn)
    finally:
        os.unlink(fn)


def _solve_cli(idx, text, t0):
    # cvc5, then z3 4.8, on the same SMT-LIB text (resource-limited, see Z3_RLIMIT)
    for backend, fnc in (("cvc5-1.0", _solve_cvc5), ("z3-4.8", _solve_z3_old)):
        first = fnc(text)
        if first == "unsat":
            return idx, "discharged", backend, (time.time() - t0) * 1000, ""
        if first == "sat":
            return idx, "failed", backend, (time.time() - t0) * 1000, "(model from CLI backend not extracted)"
    return idx, "unknown", "", (time.time() - t0) * 1000, ""


_POOL_OBS: List[Obligation] = []
_OPEN_COUNT = None  # shared counter of obligations left open in this discharge() call
OPEN_BEFORE_CUT = int(os.environ.get("PYVC_OPEN_BEFORE_CUT", "3"))
CUT_DIV = 10


def _rlimit_of(s):
    try:
        st = s.statistics()
        for k in st.keys():
            if k == "rlimit count":
                return int(st.get_key_value(k))
    except Exception:
        pass
    return 0


def _rlimit_now():
    """z3's resource counter is cumulative per context; a trivial query reads its current value."""
    p = z3.Solver()
    p.add(z3.Bool("p!probe"))
    p.check()
    return _rlimit_of(p)


def _check_goal(base_pc, goal, opts, tmo, rlimit=0):
    """One z3 query.  The budget that decides the verdict is `rlimit` (z3's deterministic resource
    counter), so that the verdict does not depend on machine load; `tmo` is only a wall-clock guard."""
    s = z3.Solver()
    s.set("timeout", tmo)
    if rlimit:
        s.set("rlimit", rlimit)
    for k2, v2 in opts.items():
        s.set(k2, v2)
    s.add(*GLOBAL_AXIOMS)
    s.add(*base_pc)
    s.add(z3.Not(goal))
    before = _rlimit_now()
    r = s.check()
    _check_goal.last_rlimit = _rlimit_of(s) - before
    _check_goal.last_reason = s.reason_unknown() if r == z3.unknown else ""
    if r == z3.sat:
        try:
            return "failed", str(s.model())[:8000]
        except Exception:
            return "failed", "(model unavailable)"
    return ("discharged" if r == z3.unsat else "unknown"), ""


def _solve_group(idxs):
    """Worker: obligations are inherited through fork (no serialisation); the group shares one
    path condition."""
    out = []
    for idx in idxs:
        ob = _POOL_OBS[idx]
        t0 = time.time()
        if ob.kind == "canary":
            st, _ = _check_goal(ob.pc, ob.goal, {}, WALL_GUARD_MS, CANARY_RLIMIT)
            out.append((idx, st, "z3-5.1", (time.time() - t0) * 1000, "", 0))
            continue
        used = 0
        reasons = []
        text = None
        res = None
        for backend in ("z3-5.1", "cvc5-1.0", "z3-5.1-mbqi", "z3-4.8"):
            st, mt = "unknown", ""
            try:
                div = LOW_BUDGET_DIV if getattr(ob, "low_budget", False) else 1
                if _OPEN_COUNT is not None and _OPEN_COUNT.value >= OPEN_BEFORE_CUT:
                    # the verdict of this run is already "not all discharged"; the remaining obligations are
                    # still tried (they are listed in the report) but on a small budget
                    div = max(div, CUT_DIV)
                if backend == "z3-5.1":
                    st, mt = _check_goal(ob.pc, ob.goal, {}, WALL_GUARD_MS, Z3_RLIMIT // div)
                elif backend == "z3-5.1-mbqi":
                    st, mt = _check_goal(ob.pc, ob.goal, {"smt.ematching": False}, WALL_GUARD_MS, Z3_RLIMIT_MBQI // div)
                elif div > 1 and backend == "z3-4.8":
                    continue
                elif div >= CUT_DIV and backend == "cvc5-1.0":
                    continue
                else:
                    text = text or to_smt2(ob)
                    first = _solve_cvc5(text) if backend == "cvc5-1.0" else _solve_z3_old(text)
                    st = "discharged" if first == "unsat" else "failed" if first == "sat" else "unknown"
                    mt = "(model from CLI backend not extracted)" if st == "failed" else ""
                    if st == "unknown":
                        reasons.append(f"{backend}: {first or 'no answer'}")
                if backend.startswith("z3-5.1"):
                    used = max(used, getattr(_check_goal, "last_rlimit", 0))
                    if st == "unknown":
                        reasons.append(f"{backend}: {getattr(_check_goal, 'last_reason', '')}")
            except z3.Z3Exception as e:
                reasons.append(f"{backend}: {e}")
            if st != "unknown":
                res = (idx, st, backend, (time.time() - t0) * 1000, mt, used)
                break
        if (res is None or res[1] != "discharged") and not getattr(ob, "low_budget", False) and _OPEN_COUNT is not None:
            with _OPEN_COUNT.get_lock():
                _OPEN_COUNT.value += 1
        out.append(res or (idx, "unknown", "", (time.time() - t0) * 1000, "; ".join(reasons), used))
    return out


def discharge(obligations: List[Obligation], procs: int = 0, low_budget=None):
    """Discharge all obligations (in place): z3 5.x (default, then MBQI-only) in forked workers,
    then cvc5 and z3 4.8 on the SMT-LIB text for whatever is still unknown."""
    global _POOL_OBS
    procs = procs or int(os.environ.get("PYVC_PROCS", "0")) or min(16, os.cpu_count() or 4)
    groups: Dict[tuple, List[int]] = {}
    for i, ob in enumerate(obligations):
        if z3.is_true(ob.goal):
            ob.status, ob.backend = "discharged", "trivial"
            continue
        key = tuple(f.get_id() for f in ob.pc)
        groups.setdefault(key, []).append(i)
    tasks = []
    for idxs in groups.values():
        for k in range(0, len(idxs), 12):
            tasks.append(idxs[k:k + 12])
    if not tasks:
        return
    if low_budget:
        for ob in obligations:
            ob.low_budget = bool(low_budget(ob.name))
    global _OPEN_COUNT
    _OPEN_COUNT = mp.get_context("fork").Value("i", 0)
    _POOL_OBS = obligations
    if procs == 1 or len(tasks) < 2:
        results = [_solve_group(t) for t in tasks]
    else:
        ctx = mp.get_context("fork")
        with ctx.Pool(procs) as pool:
            results = pool.map(_solve_group, sorted(tasks, key=len, reverse=True), chunksize=1)
    for res in results:
        for idx, status, backend, ms, mt, used in res:
            ob = obligations[idx]
            ob.status, ob.backend, ob.ms, ob.model_text = status, backend, ms, mt
            ob.rlimit_used = used
    if os.environ.get("PYVC_STATS"):
        with open(os.environ["PYVC_STATS"], "a") as f:
            for ob in obligations:
                if ob.kind != "canary":
                    f.write(json.dumps({"name": ob.name, "status": ob.status, "backend": ob.backend,
                                        "ms": round(ob.ms or 0), "rlimit": getattr(ob, "rlimit_used", 0)}) + "\n")
