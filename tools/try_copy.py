#!/usr/bin/env python3
"""tools/try_copy.py <patch.diff> [IDs...] : run checks against a scratch COPY of /repo with the patch applied
(PYVC_REPO), leaving /repo alone.  Without IDs: the properties whose functions under contract changed
(AST hash), plus the scan-based C06 and C16.  Development aid only: registered commands always check /repo itself."""
import json, os, shutil, subprocess, sys, tempfile

patch = os.path.abspath(sys.argv[1])
ids = sys.argv[2:]
tmp = tempfile.mkdtemp(prefix="pysm_copy_")
try:
    subprocess.run(f"git -C /repo archive HEAD | tar -x -C {tmp}", shell=True, check=True)
    r = subprocess.run(["git", "apply", "--unsafe-paths", "--directory", tmp, patch], cwd="/", capture_output=True, text=True)
    if r.returncode:
        r = subprocess.run(["patch", "-p1", "-s", "-i", patch], cwd=tmp, capture_output=True, text=True)
        if r.returncode:
            print("PATCH DOES NOT APPLY", r.stdout, r.stderr)
            sys.exit(9)
    if not ids:
        code = r'''
import sys, json
sys.path.insert(0, "/verif")
import contracts
from pyvc.execu import CONTRACTS
from pyvc import core
from contracts.model import AsyncBinding
def hashes(repo):
    core.REPO = repo; core._module_cache.clear()
    out = {}
    for q, c in CONTRACTS.items():
        if c.trusted or c.inline or ":" not in q or not q.startswith("statemachine"): continue
        try:
            out[q] = core.ast_hash(core.load_function(q)[0])
        except Exception as e:
            out[q] = "ERR " + str(e)[:60]
    return out
a, b = hashes("/repo"), hashes(sys.argv[1])
ch = [q for q in a if a[q] != b[q]]
props = set()
for q in ch:
    props |= set(CONTRACTS[q].properties)
    if isinstance(CONTRACTS[q], AsyncBinding): props.add("C05")
print(json.dumps({"changed": ch, "props": sorted(props | {"C06", "C16"})}))
'''
        o = subprocess.run(["python3-vt", "-c", code, tmp], capture_output=True, text=True)
        info = json.loads(o.stdout.strip().splitlines()[-1])
        print("changed functions under contract:", info["changed"])
        ids = info["props"]
    env = dict(os.environ, PYVC_REPO=tmp)
    procs = {i: subprocess.Popen(["/verif/check", i], env=env, stdout=subprocess.PIPE, stderr=subprocess.STDOUT, text=True) for i in ids}
    worst = 0
    for i, p in procs.items():
        out = p.communicate()[0]
        lines = [l for l in out.splitlines() if not l.startswith("WARNING conda")]
        print(f"== {i} exit {p.returncode}")
        if p.returncode:
            print("\n".join(lines[-14:]))
        worst = max(worst, p.returncode)
    sys.exit(worst)
finally:
    shutil.rmtree(tmp, ignore_errors=True)
