"""Witness (C17, recorded finding): `_listeners` is a dict keyed by the listener objects themselves, so two DISTINCT
listeners that compare equal (value objects, frozen dataclasses) collapse into one entry; the original machine calls both,
its deepcopy/pickle clone re-attaches only one.  Exit 1 = the defect is present."""
import copy
import sys
from dataclasses import dataclass, field

from statemachine import State, StateMachine


@dataclass(frozen=True)
class AuditC17e:
    channel: str
    sink: list = field(default_factory=list, compare=False, hash=False)

    def on_go(self):
        self.sink.append("on_go")


class MachineC17e(StateMachine):
    a = State(initial=True)
    b = State(final=True)
    go = a.to(b)


l1, l2 = AuditC17e("ops"), AuditC17e("ops")
sm = MachineC17e(listeners=[l1, l2])
clone = copy.deepcopy(sm)
sm.go()
clone.go()
original_calls = len(l1.sink) + len(l2.sink)
clone_calls = sum(len(x.sink) for x in clone._listeners)
print("listener callbacks on the original:", original_calls, "on the clone:", clone_calls)
sys.exit(1 if original_calls != clone_calls else 0)
