#!/usr/bin/env python3
"""tools/run_benign.py [-j N] : every behaviour-preserving refactoring of /verif/benign on its own scratch copy of /repo; the
affected checks (functions under contract whose AST changed, plus the scan-based C06 and C16) must stay at exit 0.
Writes benign/RESULTS.json."""
import concurrent.futures as cf, json, os, re, subprocess, sys
jobs = int(sys.argv[2]) if sys.argv[1:2] == ["-j"] else 3
root = "/verif/benign"
names = sorted(n for n in os.listdir(root) if os.path.exists(f"{root}/{n}/patch.diff"))
def one(n):
    p = subprocess.run(["/verif/tools/try_copy.py", f"{root}/{n}/patch.diff"], capture_output=True, text=True)
    out = p.stdout + p.stderr
    exits = {m.group(1): int(m.group(2)) for m in re.finditer(r"== (C\d\d) exit (\d+)", out)}
    meta = json.load(open(f"{root}/{n}/meta.json"))
    return {"name": n, "kind": meta.get("kind", ""), "checks": sorted(exits), "exits": exits, "worst_exit": max(exits.values() or [0])}
res = []
with cf.ThreadPoolExecutor(jobs) as ex:
    for r in ex.map(one, names):
        print(r["name"], r["worst_exit"], r["exits"], flush=True)
        res.append(r)
json.dump(res, open(f"{root}/RESULTS.json", "w"), indent=1)
print(sum(1 for r in res if r["worst_exit"] == 0), "of", len(res), "refactorings leave every affected check at exit 0")
