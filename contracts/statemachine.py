"""Contracts of statemachine/statemachine.py."""
from __future__ import annotations

import z3

from pyvc.core import B, CLASSES, EXC_CODE, Exc, I, NONE, NoneV, O, S, T, Int, Bool, Str, ref_of, truthy, FIRST_ADDR, Unsupported, wrap
from pyvc.execu import Contract, LoopSpec, register, Raise

from .model import (
    ENV_MODIFIES, SMQ, W, mstate, others_kept, smap_has, smap_val, valid_obj, wf_world, wf_class,
)

# ---- the model object: a record with ONE designated field, named by sm.state_field ----------
# getattr/setattr(model, sm.state_field, ...) are the only reflective accesses to it (assumed
# contract of getattr/setattr, DESIGN 6.4); any other name is outside the subset.


def _require_state_field(ex, path, name, node):
    if not isinstance(name, S):
        raise Unsupported("getattr/setattr(model, <non-str name>)")
    ex.run.oblige(path, "builtin", f"model-attribute-is-state_field@{getattr(node, 'lineno', 0)}",
                  name.e == path.sel("StateMachine.state_field", W.SM))


def model_getattr(ex, path, obj, name, default, node):
    _require_state_field(ex, path, name, node)
    # a missing attribute and a stored None are both "no state" (the default is None)
    return [(path, O(path.sel("Model.state", obj.e), "Val"))]


def model_setattr(ex, path, obj, name, val, node):
    _require_state_field(ex, path, name, node)
    path.store("Model.state", obj.e, ref_of(val))
    return [(path, NoneV())]


CLASSES["Model"].getattr_fn = model_getattr
CLASSES["Model"].setattr_fn = model_setattr


@register
class CurStateValueGet(Contract):
    qualnames = [SMQ + "current_state_value"]
    inline = True


@register
class CurStateValueSet(Contract):
    """current_state_value setter (C10): a mapped value is stored in the model's field, an unmapped
    one raises InvalidStateValue and is NOT stored."""

    qualnames = [SMQ + "current_state_value@setter"]
    params = [("self", "StateMachine"), ("value", "Val")]
    returns = "None"
    raises = True
    exc_classes = ["InvalidStateValue"]
    modifies = ["Model.state"]
    properties = ["C10", "C04"]

    def pre(self, s, a):
        f = dict(wf_world(s))
        f["self-is-machine"] = a.self.e == W.SM
        return f

    def post(self, s0, s, a, r):
        return {
            "C10|only-mapped-values-are-stored": smap_has(s0, a.value.e),
            "C10|the-models-field-holds-the-value": s["Model.state"] == z3.Store(s0["Model.state"], W.MODEL, a.value.e),
        }

    def exc_post(self, s0, s, a, x):
        return {
            "C10|raises-only-for-unmapped-values": z3.Not(smap_has(s0, a.value.e)),
            "C10|an-unmapped-value-is-not-stored": s["Model.state"] == s0["Model.state"],
        }


@register
class CurStateSet(Contract):
    """current_state setter: stores the state's value through the value setter."""

    qualnames = [SMQ + "current_state@setter"]
    params = [("self", "StateMachine"), ("value", "State")]
    returns = "None"
    raises = True
    exc_classes = ["InvalidStateValue"]
    modifies = ["Model.state"]
    properties = ["C10"]

    pre = CurStateValueSet.pre

    def post(self, s0, s, a, r):
        v = s0.sel("State.value", a.value.e)
        return {
            "C10|only-mapped-values-are-stored": smap_has(s0, v),
            "C10|the-models-field-holds-the-states-value": s["Model.state"] == z3.Store(s0["Model.state"], W.MODEL, v),
        }

    def exc_post(self, s0, s, a, x):
        v = s0.sel("State.value", a.value.e)
        return {"C10|raises-only-for-unmapped-values": z3.Not(smap_has(s0, v)),
                "C10|an-unmapped-value-is-not-stored": s["Model.state"] == s0["Model.state"]}


@register
class CurState(Contract):
    """current_state getter: the per-instance view of the state mapped from the stored value;
    an unmapped value raises InvalidStateValue (C10)."""

    qualnames = [SMQ + "current_state"]
    params = [("self", "StateMachine")]
    returns = "IState"
    raises = True
    exc_classes = ["InvalidStateValue"]
    modifies = ["idict.has", "idict.val", "IState._state+", "IState._machine+"]
    properties = ["C10"]

    def pre(self, s, a):
        from .model import wf_cache, wf_class
        f = dict(wf_world(s))
        f.update(wf_class(s))
        f["self-is-machine"] = a.self.e == W.SM
        f["state-cache-wf"] = wf_cache(s)
        return f

    def post(self, s0, s, a, r):
        from .model import wf_cache
        return {
            "C10|state-cache-stays-wf": wf_cache(s),
            "C10|mapped": smap_has(s0, mstate(s0)),
            "C10|view-of-mapped-state": z3.And(valid_obj(s, r.e), s.sel("IState._state", r) == smap_val(s0, mstate(s0)),
                                           s.sel("IState._machine", r) == W.SM),
            "only-the-instance-cache-changes": z3.And(
                others_kept("idict.has", s0, s, W.CACHE), others_kept("idict.val", s0, s, W.CACHE)),
        }

    def exc_post(self, s0, s, a, x):
        return {
            "C10|unmapped-value-raises-InvalidStateValue": z3.Not(smap_has(s0, mstate(s0))),
            "nothing-changes": z3.And(s["idict.has"] == s0["idict.has"], s["idict.val"] == s0["idict.val"]),
        }


# ---- State.for_instance / InstanceState ----------------------------------------------------------
from pyvc.core import ClassModel, Py  # noqa: E402
from pyvc.execu import GLOBAL_NAMES, builtin  # noqa: E402
from pyvc.models import ctor_from_init, model  # noqa: E402
from pyvc.execu import CallArgs  # noqa: E402
from .model import C, INL  # noqa: E402

STQ = "statemachine.state:"
CLASSES["IState"].ctor = ctor_from_init(STQ + "InstanceState", "IState")
GLOBAL_NAMES["InstanceState"] = Py(("class", "IState"))
CLASSES["State"].methods["for_instance"] = C(STQ + "State.for_instance")


@builtin("ref")
def b_ref(ex, path, ca, node):
    """weakref.ref(x): transparent while the referent is alive (DESIGN 2.3)."""
    return [(path, ca.pos[0])]


@register
class ForInstance(Contract):
    """State.for_instance(machine, cache): one InstanceState per (state, machine), cached."""

    qualnames = [STQ + "State.for_instance"]
    params = [("self", "State"), ("machine", "StateMachine"), ("cache", "idict[State,IState]")]
    returns = "IState"
    modifies = ["idict.has", "idict.val", "IState._state+", "IState._machine+"]
    properties = ["C10"]

    def pre(self, s, a):
        from .model import wf_cache
        f = dict(wf_world(s))
        f["machine-and-its-cache"] = z3.And(a.machine.e == W.SM, a.cache.e == W.CACHE)
        f["state-cache-wf"] = wf_cache(s)
        return f

    def post(self, s0, s, a, r):
        from .model import wf_cache
        return {
            "C10|view-of-this-state-on-this-machine": z3.And(
                valid_obj(s, r.e), s.sel("IState._state", r) == a.self.e, s.sel("IState._machine", r) == W.SM),
            "C10|cached-under-the-state": z3.And(z3.Select(s.sel("idict.has", W.CACHE), a.self.e),
                                                 z3.Select(s.sel("idict.val", W.CACHE), a.self.e) == r.e),
            "C10|same-view-on-every-call": z3.Implies(z3.Select(s0.sel("idict.has", W.CACHE), a.self.e),
                                                      r.e == z3.Select(s0.sel("idict.val", W.CACHE), a.self.e)),
            "C10|state-cache-stays-wf": wf_cache(s),
            "only-the-instance-cache-changes": z3.And(
                others_kept("idict.has", s0, s, W.CACHE), others_kept("idict.val", s0, s, W.CACHE)),
        }


# ---- equality of states and is_active -------------------------------------------------------------
@model
def istate_machine_ref(ex, path, recv, ca, node):
    return [(path, O(path.sel("IState._machine", recv.e), "StateMachine"))]


CLASSES["IState"].methods["_machine"] = istate_machine_ref
CLASSES["IState"].props["id"] = INL(STQ + "InstanceState.id")
CLASSES["IState"].props["is_active"] = C(STQ + "InstanceState.is_active")
CLASSES["State"].props["id"] = INL(STQ + "State.id")
CLASSES["IState"].isinstance_of = lambda other: other in ("IState", "State", "InstanceState")
GLOBAL_NAMES["State"] = Py(("class", "State"))


def state_eq(ex, path, a, b):
    """State.__eq__ / InstanceState.__eq__: the REAL bodies, executed in place."""
    q = STQ + ("InstanceState.__eq__" if a.cls == "IState" else "State.__eq__")
    outs = ex.call_inline(path, q, a, CallArgs([b], {}))
    res = []
    for p, r in outs:
        if isinstance(r, Raise):
            res.append((p, r))
        else:
            from pyvc.core import truth_of
            res.append((p, truth_of(p, r)))
    return res


CLASSES["State"].eq_fn = state_eq
CLASSES["IState"].eq_fn = state_eq


def same_state(s, x, y):
    """What State.__eq__ decides: same name and same id."""
    return z3.And(s.sel("State.name", x) == s.sel("State.name", y), s.sel("State._id", x) == s.sel("State._id", y))


@register
class IsActive(Contract):
    """InstanceState.is_active (C10): true exactly for the state the stored value is mapped to —
    hence exactly one state is active at any time."""

    qualnames = [STQ + "InstanceState.is_active"]
    params = [("self", "IState")]
    returns = "bool"
    raises = True
    exc_classes = ["InvalidStateValue"]
    modifies = ["idict.has", "idict.val", "IState._state+", "IState._machine+"]
    properties = ["C10"]

    def pre(self, s, a):
        from .model import wf_cache, wf_class
        f = dict(wf_world(s))
        f.update(wf_class(s))
        f["state-cache-wf"] = wf_cache(s)
        f["a-view-of-a-mapped-state-of-this-machine"] = z3.And(
            s.sel("IState._machine", a.self.e) == W.SM,
            smap_has(s, s.sel("State.value", s.sel("IState._state", a.self.e))),
            smap_val(s, s.sel("State.value", s.sel("IState._state", a.self.e))) == s.sel("IState._state", a.self.e))
        return f

    def post(self, s0, s, a, r):
        mine = s0.sel("IState._state", a.self.e)
        cur = smap_val(s0, mstate(s0))
        return {
            "C10|active-iff-equal-to-the-current-state": r.e == same_state(s0, cur, mine),
            "C10|exactly-the-mapped-state-is-active": z3.Implies(states_distinguishable(s0), r.e == (cur == mine)),
        }

    def exc_post(self, s0, s, a, x):
        return {"C10|raises-only-when-the-stored-value-is-unmapped": z3.Not(smap_has(s0, mstate(s0)))}


def states_distinguishable(s):
    """WF(cls): two different states of the class never share both name and id (ids are the
    attribute names, unique in a class body)."""
    v1, v2 = z3.Const("v1!sd", Int), z3.Const("v2!sd", Int)
    return z3.ForAll([v1, v2], z3.Implies(
        z3.And(smap_has(s, v1), smap_has(s, v2), same_state(s, smap_val(s, v1), smap_val(s, v2))),
        smap_val(s, v1) == smap_val(s, v2)))
