"""Probe (C05, bounded): an async machine driven from synchronous code behaves like the same machine driven inside one
running loop — in particular every event runs on ONE event loop, so loop-scoped state of coroutine callbacks (an async
generator pulled on later events, a task started earlier) survives from one event to the next.  Exit 1 = violated."""
import asyncio
import sys

from statemachine import State, StateMachine


class ProbeC05Loop(StateMachine):
    a = State(initial=True)
    b = State()
    go = a.to(b) | b.to(a)

    def __init__(self):
        self.loops = []
        self.pulled = []
        super().__init__()

    async def numbers(self):
        for i in range(10):
            yield i

    async def on_enter_state(self):
        self.loops.append(id(asyncio.get_running_loop()))
        if not hasattr(self, "gen"):
            self.gen = self.numbers()
        self.pulled.append(await self.gen.__anext__())


def driven_from_sync():
    sm = ProbeC05Loop()
    sm.activate_initial_state()
    for _ in range(3):
        sm.go()
    return sm.pulled, len(set(sm.loops))


def driven_in_one_loop():
    async def main():
        sm = ProbeC05Loop()
        await sm.activate_initial_state()
        for _ in range(3):
            await sm.go()
        return sm.pulled, len(set(sm.loops))
    return asyncio.run(main())


try:
    s = driven_from_sync()
except Exception as e:  # noqa: BLE001
    s = ("raised", type(e).__name__)
a = driven_in_one_loop()
print("sync driver:", s, "| in one loop:", a)
sys.exit(0 if s == a else 1)
