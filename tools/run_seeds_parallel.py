#!/usr/bin/env python3
"""tools/run_seeds_parallel.py [-j N] [prefix] : like run_seeds.sh, but each seeded change is applied to its own scratch
COPY of /repo (PYVC_REPO), so several run at once and /repo is never touched.  Output: one line per seed plus
seeded/RESULTS.json (name, property, exit, first failed obligation, kind of replay)."""
import concurrent.futures as cf
import json
import os
import shutil
import subprocess
import sys
import tempfile

args = sys.argv[1:]
jobs = 5
if args[:1] == ["-j"]:
    jobs = int(args[1])
    args = args[2:]
prefix = args[0] if args else ""
root = "/verif/seeded"
names = sorted(n for n in os.listdir(root) if n.startswith(prefix) and os.path.exists(f"{root}/{n}/meta.json"))
logs = os.environ.get("SEEDLOGS", "/tmp/seedlogs")
os.makedirs(logs, exist_ok=True)


def one(n):
    prop = json.load(open(f"{root}/{n}/meta.json"))["property"]
    tmp = tempfile.mkdtemp(prefix="pysm_seed_")
    try:
        subprocess.run(f"git -C /repo archive HEAD | tar -x -C {tmp}", shell=True, check=True)
        r = subprocess.run(["patch", "-p1", "-s", "-i", f"{root}/{n}/patch.diff"], cwd=tmp, capture_output=True, text=True)
        if r.returncode:
            return n, prop, 9, "PATCH DOES NOT APPLY", ""
        p = subprocess.run(["/verif/check", prop], env=dict(os.environ, PYVC_REPO=tmp), capture_output=True, text=True)
        out = "\n".join(ln for ln in (p.stdout + p.stderr).splitlines() if not ln.startswith("WARNING conda"))
        open(f"{logs}/{n}.log", "w").write(out)
        first = next((ln.strip() for ln in out.splitlines() if "failed obligation" in ln), "")
        vio = next((ln for ln in out.splitlines() if ln.startswith("VIOLATION")), "")
        replay = "none" if not vio else ("no-failing-input-found" if vio.rstrip().endswith("no-failing-input-found") else "concrete")
        return n, prop, p.returncode, first.replace("failed obligation: ", ""), replay
    finally:
        shutil.rmtree(tmp, ignore_errors=True)


res = []
with cf.ThreadPoolExecutor(jobs) as ex:
    for n, prop, rc, first, replay in ex.map(one, names):
        print(f"{n} [{prop}] -> exit {rc} | {replay} | {first[:150]}", flush=True)
        res.append({"seed": n, "property": prop, "exit": rc, "first_failed_obligation": first, "replay": replay})
# a full run rewrites the committed table; a partial run (prefix) updates the entries of the seeds it ran
table = {} if not prefix else {r["seed"]: r for r in (json.load(open(f"{root}/RESULTS.json")) if os.path.exists(f"{root}/RESULTS.json") else [])}
for r in res:
    table[r["seed"]] = r
def _key(name):
    p_, _, k_ = name.rpartition("_")
    return (p_, int(k_) if k_.isdigit() else 0)
json.dump([table[k] for k in sorted(table, key=_key)], open(f"{root}/RESULTS.json", "w"), indent=1)
caught = sum(1 for r in res if r["exit"] == 1)
print(f"{caught}/{len(res)} seeds reported as VIOLATION; exit 2 (undecided): {sum(1 for r in res if r['exit'] == 2)}; "
      f"exit 0 (missed): {sum(1 for r in res if r['exit'] == 0)}; concrete replays: {sum(1 for r in res if r['replay'] == 'concrete')}")
