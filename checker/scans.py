"""Frame / ownership scans (DESIGN 5): AST-level obligations over the whole package, regenerated
on every run.  Each returns Obligation objects whose goal is a constant (the scan decides it)."""
from __future__ import annotations

import ast
import os

import z3

from pyvc.core import REPO, Obligation


def _package_files():
    root = os.path.join(REPO, "statemachine")
    for d, _, fs in os.walk(root):
        for f in fs:
            if f.endswith(".py"):
                yield os.path.join(d, f)


def _functions():
    """yield (relpath, qualified function name, FunctionDef)"""
    for path in _package_files():
        rel = os.path.relpath(path, REPO)
        tree = ast.parse(open(path).read())

        def visit(node, prefix):
            for ch in ast.iter_child_nodes(node):
                if isinstance(ch, ast.ClassDef):
                    yield from visit(ch, prefix + ch.name + ".")
                elif isinstance(ch, (ast.FunctionDef, ast.AsyncFunctionDef)):
                    yield rel, prefix + ch.name, ch
                    yield from visit(ch, prefix + ch.name + ".<locals>.")
                else:
                    yield from visit(ch, prefix)

        yield from visit(tree, "")


def _own_nodes(fn):
    """nodes of fn excluding nested function bodies"""
    stack = list(ast.iter_child_nodes(fn))
    while stack:
        n = stack.pop()
        yield n
        if isinstance(n, (ast.FunctionDef, ast.AsyncFunctionDef, ast.Lambda)):
            continue
        stack.extend(ast.iter_child_nodes(n))


def _ob(name, ok, detail=""):
    return Obligation(f"frame:{name}", "frame", "frame", [], z3.BoolVal(bool(ok)), info={"detail": detail})


def _attr_chain(n):
    parts = []
    while isinstance(n, ast.Attribute):
        parts.append(n.attr)
        n = n.value
    if isinstance(n, ast.Name):
        parts.append(n.id)
    return list(reversed(parts))


def scan_state_field_writers():
    """F1: the model's state field is written in exactly one place (current_state_value setter),
    which is used only by the current_state setter, which is used only by _activate, once each."""
    setattr_sites, csv_stores, cs_stores = [], [], []
    for rel, q, fn in _functions():
        for n in _own_nodes(fn):
            if isinstance(n, ast.Call) and isinstance(n.func, ast.Name) and n.func.id == "setattr" and len(n.args) >= 2:
                a1 = _attr_chain(n.args[1])
                if a1 and a1[-1] == "state_field":
                    setattr_sites.append(f"{rel}:{q}")
            if isinstance(n, (ast.Assign, ast.AugAssign, ast.AnnAssign)):
                targets = n.targets if isinstance(n, ast.Assign) else [n.target]
                for t in targets:
                    for sub in ast.walk(t):
                        if isinstance(sub, ast.Attribute) and isinstance(sub.ctx, ast.Store):
                            if sub.attr == "current_state_value":
                                csv_stores.append(f"{rel}:{q}")
                            if sub.attr == "current_state":
                                cs_stores.append(f"{rel}:{q}")
    ok_setattr = {"statemachine/statemachine.py:StateMachine.current_state_value"}
    ok_csv = {"statemachine/statemachine.py:StateMachine.current_state"}
    ok_cs = {"statemachine/engines/sync.py:SyncEngine._activate", "statemachine/engines/async_.py:AsyncEngine._activate"}
    return [
        _ob("F1/state-field-written-only-by-current_state_value-setter", set(setattr_sites) <= ok_setattr, str(setattr_sites)),
        _ob("F1/current_state_value-assigned-only-by-current_state-setter", set(csv_stores) <= ok_csv, str(csv_stores)),
        _ob("F1/current_state-assigned-only-in-_activate", set(cs_stores) <= ok_cs, str(cs_stores)),
    ]


def _method_calls_on(attr_name):
    sites = []
    for rel, q, fn in _functions():
        for n in _own_nodes(fn):
            if isinstance(n, ast.Call) and isinstance(n.func, ast.Attribute):
                ch = _attr_chain(n.func)
                if len(ch) >= 2 and ch[-2] == attr_name:
                    sites.append((f"{q}", ch[-1]))
            if isinstance(n, (ast.Assign, ast.AugAssign, ast.AnnAssign)):
                targets = n.targets if isinstance(n, ast.Assign) else [n.target]
                for t in targets:
                    if isinstance(t, ast.Attribute) and t.attr == attr_name:
                        sites.append((f"{q}", "<assign>"))
    return sorted(sites)


def scan_queue_mutators():
    """F2: the event queue is touched only by put (append) and processing_loop (popleft, clear);
    any other site or method is a write the contracts do not know about."""
    sites = set(_method_calls_on("_external_queue"))
    allowed = {
        ("BaseEngine.__init__", "<assign>"), ("BaseEngine.put", "append"),
        ("SyncEngine.processing_loop", "popleft"), ("SyncEngine.processing_loop", "clear"),
        ("AsyncEngine.processing_loop", "popleft"), ("AsyncEngine.processing_loop", "clear"),
    }
    return [_ob("F2/queue-touched-only-by-put-and-processing_loop", sites <= allowed, str(sorted(sites - allowed)))]


def scan_lock_operations():
    """F3: the processing lock is used only in processing_loop."""
    sites = set(_method_calls_on("_processing"))
    allowed = {
        ("BaseEngine.__init__", "<assign>"),
        ("SyncEngine.processing_loop", "acquire"), ("SyncEngine.processing_loop", "release"),
        ("AsyncEngine.processing_loop", "acquire"), ("AsyncEngine.processing_loop", "release"),
    }
    return [_ob("F3/lock-used-only-in-processing_loop", sites <= allowed, str(sorted(sites - allowed)))]


# --------------------------------------------------------------------------- C16 ownership scan
MUTATORS = {"append", "add", "update", "pop", "clear", "extend", "insert", "remove", "setdefault", "popleft", "appendleft",
            "discard", "sort", "reverse", "add_transitions", "add_event", "_replace"}


def _root(n):
    while isinstance(n, (ast.Attribute, ast.Subscript, ast.Call)):
        n = n.value if not isinstance(n, ast.Call) else n.func
    return n.id if isinstance(n, ast.Name) else "<expr>"


def _fresh_locals(fn):
    """locals bound (only) to constructor-like calls, displays or comprehensions in this function:
    objects the function itself created"""
    fresh = set()
    for n in _own_nodes(fn):
        if isinstance(n, ast.AnnAssign) and isinstance(n.target, ast.Name) and n.value is not None:
            n = ast.Assign(targets=[n.target], value=n.value)  # `x: T = deque()` binds like `x = deque()`
        if isinstance(n, ast.Assign) and len(n.targets) == 1 and isinstance(n.targets[0], ast.Name):
            v = n.value
            if isinstance(v, (ast.Dict, ast.List, ast.Set, ast.ListComp, ast.DictComp, ast.SetComp, ast.Tuple)):
                fresh.add(n.targets[0].id)
            elif isinstance(v, ast.Call) and isinstance(v.func, ast.Name) and (v.func.id[:1].isupper() or v.func.id in (
                    "deque", "set", "dict", "list", "defaultdict", "deepcopy", "partial", "iter")):
                fresh.add(n.targets[0].id)
    return fresh


def write_sites():
    """Every heap write in the package whose target is not an object the function just created:
    (file, function, kind, root, attribute-or-method)."""
    sites = set()
    for rel, q, fn in _functions():
        fresh_l = _fresh_locals(fn)
        nested = {n.name for n in _own_nodes(fn) if isinstance(n, (ast.FunctionDef, ast.AsyncFunctionDef))}
        globs = {nm for n in _own_nodes(fn) if isinstance(n, ast.Global) for nm in n.names}
        for n in _own_nodes(fn):
            targets = []
            if isinstance(n, ast.Assign):
                targets = n.targets
            elif isinstance(n, (ast.AugAssign, ast.AnnAssign)):
                targets = [n.target]
            elif isinstance(n, ast.Delete):
                targets = n.targets
            for t in targets:
                for sub in ([t] if not isinstance(t, (ast.Tuple, ast.List)) else t.elts):
                    if isinstance(sub, ast.Name) and sub.id in globs:
                        sites.add((rel, q, "global-store", sub.id, "="))  # rebinding a module-level name: process-global state
                    if isinstance(sub, ast.Attribute):
                        r = _root(sub)
                        if r in fresh_l or r in nested:
                            continue
                        sites.add((rel, q, "attr-store", r, sub.attr))
                    elif isinstance(sub, ast.Subscript):
                        r = _root(sub)
                        if r in fresh_l:
                            continue
                        sites.add((rel, q, "item-store", r, _attr_chain(sub.value)[-1] if _attr_chain(sub.value) else "?"))
            if isinstance(n, ast.Call):
                if isinstance(n.func, ast.Name) and n.func.id == "setattr":
                    sites.add((rel, q, "setattr", _root(n.args[0]) if n.args else "?", "*"))
                elif isinstance(n.func, ast.Attribute) and n.func.attr in MUTATORS:
                    r = _root(n.func.value)
                    if r in fresh_l:
                        continue
                    ch = _attr_chain(n.func.value)
                    sites.add((rel, q, "mutating-call", r, (ch[-1] if ch else "?") + "." + n.func.attr))
    return sorted(sites)


def _alias_root(fn, name):
    """`name` is a local assigned exactly once, from an attribute path: the root of that path."""
    if fn is None:
        return None
    vals = [n.value for n in _own_nodes(fn) if isinstance(n, ast.Assign) and len(n.targets) == 1
            and isinstance(n.targets[0], ast.Name) and n.targets[0].id == name]
    if len(vals) == 1 and isinstance(vals[0], ast.Attribute):
        r = _root(vals[0])
        return r if r not in ("<expr>", name) else None
    return None


def _param_is_fresh_at_every_call(site):
    """A write through a PARAMETER of a private helper is a write to an object its callers just created when every call
    of that helper in the package passes a fresh local there (helper extracted from a function that built the object)."""
    rel, q, _kind, root, _attr = site
    name = q.split(".")[-1]
    if not name.startswith("_") or name.startswith("__"):
        return False
    target = next((fn for r2, q2, fn in _functions() if r2 == rel and q2 == q), None)
    if target is None:
        return False
    params = [a.arg for a in target.args.posonlyargs + target.args.args]
    if root not in params or root in ("self", "cls"):
        return False
    idx = params.index(root) - (1 if params and params[0] in ("self", "cls") else 0)
    calls = 0
    for _r, _q, caller in _functions():
        fresh_l = _fresh_locals(caller) | {n.name for n in _own_nodes(caller) if isinstance(n, (ast.FunctionDef, ast.AsyncFunctionDef))}
        for n in _own_nodes(caller):
            if isinstance(n, ast.Call) and ((isinstance(n.func, ast.Attribute) and n.func.attr == name) or (
                    isinstance(n.func, ast.Name) and n.func.id == name)):
                calls += 1
                arg = n.args[idx] if idx < len(n.args) else next((k.value for k in n.keywords if k.arg == root), None)
                if not (isinstance(arg, ast.Name) and arg.id in fresh_l):
                    return False
    return calls > 0


def scan_ownership():
    """C16 (O3): every write site is classified in the committed ownership table; a new site fails.
    (O1/O2) sites classified process-global or class-owned-at-instance-time carry a lemma or a
    recorded finding (see known_findings.jsonl)."""
    import json
    table_path = os.path.join(os.path.dirname(__file__), "ownership_table.json")
    table = {tuple(x["site"]): x["owner"] for x in json.load(open(table_path))}
    obs = []
    cur = write_sites()
    # a write that moved to another function of the SAME class (helper extracted, method renamed) keeps its owner: same
    # file, same class, same kind of write, same attribute/method, and all table entries of that shape agree on the owner
    def shape(site):
        rel, q, kind, _root_, attr = site
        return (rel, q.split(".")[0] if "." in q else "", kind, attr)
    by_shape = {}
    for site, owner in table.items():
        by_shape.setdefault(shape(site), set()).add(owner)
    for site in cur:
        if tuple(site) not in table:
            owners = by_shape.get(shape(tuple(site)), set())
            if len(owners) == 1 and shape(tuple(site))[1]:
                table[tuple(site)] = next(iter(owners))
    # a write through a local that merely abbreviates an attribute path (`g = self._specs.grouper; g(...).add(...)`) is
    # the write through that path
    fns = {(r2, q2): fn for r2, q2, fn in _functions()}
    for site in cur:
        if tuple(site) not in table:
            rel, q, kind, root, attr = site
            ar = _alias_root(fns.get((rel, q)), root)
            if ar and (rel, q, kind, ar, attr) in table:
                table[tuple(site)] = table[(rel, q, kind, ar, attr)]
    unknown = [s for s in cur if tuple(s) not in table and not _param_is_fresh_at_every_call(s)]
    obs.append(_ob("C16|O3/every-heap-write-site-is-classified-in-the-ownership-table", not unknown, str(unknown[:6])))
    glob = sorted({table[tuple(s)] for s in cur if tuple(s) in table and table[tuple(s)].startswith("process-global")})
    allowed_globals = {"process-global:signature-cache", "process-global:registry", "process-global:thread-local-loop"}
    obs.append(_ob("C16|O1/process-global-state-is-only-the-three-known-caches", set(glob) <= allowed_globals, str(glob)))
    # O2: the one process-global that is per-thread by construction must stay a threading.local
    tl_ok = False
    try:
        tree = ast.parse(open(os.path.join(REPO, "statemachine", "utils.py")).read())
        for st in tree.body:
            if (isinstance(st, ast.Assign) and len(st.targets) == 1 and isinstance(st.targets[0], ast.Name)
                    and st.targets[0].id == "_cached_loop" and isinstance(st.value, ast.Call)
                    and _attr_chain(st.value.func)[-2:] in (["threading", "local"], ["local"])):
                tl_ok = True
    except OSError:
        pass
    obs.append(_ob("C16|O2/the-event-loop-cached-for-synchronous-callers-is-per-thread(threading.local)", tl_ok, "statemachine/utils.py:_cached_loop"))
    per_instance = [s for s in cur if tuple(s) in table and table[tuple(s)] == "instance-owned"]
    obs.append(_ob("C16|O1/instance-operations-write-instance-owned-state", len(per_instance) > 0, f"{len(per_instance)} sites"))
    return obs
