"""C15 witness (#17): `target.from_.any()` must equal explicit transitions from every non-final state;
it is expanded when the event attribute is processed, so states declared AFTER it are skipped.
Exit 1 while present."""
import sys
import warnings
from statemachine import State, StateMachine

warnings.simplefilter("ignore")


class WithAny(StateMachine):
    a = State(initial=True)
    closed = State(final=True)
    close = closed.from_.any()
    b = State()          # declared after the event
    go = a.to(b)
    back = b.to(a)


class Explicit(StateMachine):
    a = State(initial=True)
    closed = State(final=True)
    b = State()
    close = closed.from_(a, b)
    go = a.to(b)
    back = b.to(a)


def allowed(cls, state_id):
    sm = cls()
    sm.current_state_value = getattr(cls, state_id).value
    return sorted(str(e) for e in sm.allowed_events)


bad = [s for s in ("a", "b") if allowed(WithAny, s) != allowed(Explicit, s)]
if bad:
    print("C15 VIOLATED (recorded finding): from_.any() differs from explicit transitions in states", bad,
          {s: (allowed(WithAny, s), allowed(Explicit, s)) for s in bad})
    sys.exit(1)
print("ok")
