"""./check <ID> [--tier quick|thorough]  — decide one property (DESIGN 9).

Exit codes: 0 held (possibly with KNOWN-FINDING lines) · 1 violation (VIOLATION line printed)
            2 undecided (a function left the accepted subset and no concrete failing input found)
            3 checker error (vacuous contract, crash)
"""
from __future__ import annotations

import argparse
import hashlib
import json
import os
import re
import subprocess
import sys
import time
import traceback

ROOT = os.path.dirname(os.path.dirname(os.path.abspath(__file__)))
sys.path.insert(0, ROOT)

import z3  # noqa: E402

import contracts  # noqa: E402,F401
from pyvc import models as pyvc_models  # noqa: E402
from pyvc.core import REPO  # noqa: E402
from pyvc.execu import CONTRACTS  # noqa: E402
from pyvc.verify import FunctionReport, discharge, to_smt2, verify_function  # noqa: E402

from . import props  # noqa: E402

TAG_RE = re.compile(r"(C\d\d(?:,C\d\d)*)\|")
VENV_PY = "/venv/bin/python"


def tags_of(name: str):
    m = TAG_RE.search(name)
    return set(m.group(1).split(",")) if m else None


def relevant(ob, pid: str) -> bool:
    t = tags_of(ob.name)
    return t is None or pid in t


def load_known_findings():
    path = os.path.join(ROOT, "known_findings.jsonl")
    out = []
    if os.path.exists(path):
        for line in open(path):
            line = line.strip()
            if line.startswith("{"):
                out.append(json.loads(line))
    return out


def run_native(script_args, timeout=600, env_extra=None):
    env = dict(os.environ)
    env["PYTHONPATH"] = REPO + os.pathsep + ROOT
    env["PYTHONDONTWRITEBYTECODE"] = "1"
    if env_extra:
        env.update(env_extra)
    try:
        p = subprocess.run([VENV_PY] + script_args, capture_output=True, text=True, timeout=timeout, env=env, cwd=ROOT)
        return p.returncode, p.stdout, p.stderr
    except subprocess.TimeoutExpired as e:
        return 124, e.stdout or "", "timeout"


def main(argv=None):
    ap = argparse.ArgumentParser()
    ap.add_argument("pid")
    ap.add_argument("--tier", default=os.environ.get("VERIF_TIER", "quick"))
    ap.add_argument("--replay", default=None)
    ap.add_argument("--rebaseline", action="store_true")
    args = ap.parse_args(argv)
    pid = args.pid
    tier = args.tier if args.tier in ("quick", "thorough") else "quick"
    seed = int(os.environ.get("VERIF_SEED", "0") or 0)
    # VERIF_SEED seeds the samplers of the bounded layers only: the solvers run with their fixed default seeds, so that a
    # proof verdict is a function of the source text alone
    t_start = time.time()

    if args.replay and not args.replay.endswith(".py"):
        # a replay that is not a script names the failed obligations (no concrete input was found): show it
        print(open(args.replay).read())
        print(f"(no concrete failing input in this replay; `./check {pid}` re-generates and re-discharges the obligations it names)")
        return 1
    if args.replay:
        rc, out, err = run_native([args.replay])
        sys.stdout.write(out)
        sys.stderr.write(err)
        return rc

    spec = props.PROPERTIES.get(pid)
    if spec is None:
        print(f"property {pid} is not claimed (see MANIFEST.not_applicable)")
        return 3

    # ---------------------------------------------------------------- generate
    reports = []
    trusted, inlined_contracts = [], []
    from contracts.model import AsyncBinding
    for q, c in sorted(CONTRACTS.items()):
        c05 = pid == "C05" and isinstance(c, AsyncBinding)
        if pid not in c.properties and not c05:
            continue
        if c.inline:
            inlined_contracts.append(q)
            continue
        if c.trusted:
            trusted.append(q)
            continue
        reports.append(verify_function(q, c))
    obligations = []
    async_funcs = {r.qualname for r in reports if isinstance(CONTRACTS[r.qualname], AsyncBinding)}
    for rep in reports:
        # C05 is relational: the async twin must satisfy EVERY clause of the shared contract
        everything = pid == "C05" and rep.qualname in async_funcs
        obligations += [ob for ob in rep.obligations if everything or relevant(ob, pid)]
        obligations += rep.canaries
    lemma_obs = []
    for lemma in spec.get("lemmas", []):
        lemma_obs += lemma()
    scan_obs = []
    for scan in spec.get("scans", []):
        scan_obs += scan()
    all_obs = obligations + lemma_obs + scan_obs
    t_gen = time.time() - t_start
    kf_pats = [re.compile(k["obligation"]) for k in load_known_findings()
               if k.get("property") == pid and k.get("kind", "finding") == "finding"]
    discharge(all_obs, low_budget=lambda nm: any(p.search(nm) for p in kf_pats))
    t_solve = time.time() - t_start - t_gen

    # ---------------------------------------------------------------- classify
    real = [ob for ob in all_obs if ob.kind != "canary"]
    canaries = [ob for ob in all_obs if ob.kind == "canary"]
    failing = [ob for ob in real if ob.status != "discharged"]
    checker_errors = []
    undecided = []
    for rep in reports:
        if rep.error:
            checker_errors.append(f"{rep.qualname}: {rep.error}")
        if rep.unsupported:
            undecided.append(f"{rep.qualname}: outside the accepted subset: {rep.unsupported}")
        if not rep.obligations and not rep.error and not rep.unsupported:
            checker_errors.append(f"{rep.qualname}: zero obligations generated")
        entry = [c for c in rep.canaries if c.name.endswith("canary:entry")]
        if entry and entry[0].status == "discharged":
            checker_errors.append(f"{rep.qualname}: precondition + world assumptions are contradictory (entry canary discharged)")
        exits = [c for c in rep.canaries if not c.name.endswith("canary:entry")]
        if exits and all(c.status == "discharged" for c in exits) and not rep.unsupported:
            checker_errors.append(f"{rep.qualname}: every exit path is infeasible (vacuous)")

    # ---------------------------------------------------------------- bounded parts
    bounded_results = []
    bounded_violations = []
    layer_notes = []
    for b in spec.get("bounded", []):
        res = b(tier=tier, seed=seed, run_native=run_native)
        bounded_results.append(res)
        if res.get("error"):
            # the layer produced no verdict (timeout on a loaded machine, harness crash): recorded in the evidence and
            # printed, never a verdict about the code — exceptions raised BY THE LIBRARY are turned into violations
            # inside the layers themselves
            layer_notes.append(f"bounded layer gave no result: {res.get('what', '?')[:60]}: {str(res['error'])[-160:]}")
        for v in res.get("violations", []):
            bounded_violations.append(v)

    # ---------------------------------------------------------------- mutation self-test (thorough tier, evidence only)
    mutation = None
    if tier == "thorough" and os.environ.get("PYVC_MUTATION_BUDGET", "300") != "0":
        try:
            from . import mutate
            mutation = mutate.run(pid, [r.qualname for r in reports if not r.unsupported and not r.error],
                                  budget_s=int(os.environ.get("PYVC_MUTATION_BUDGET", "300")), seed=seed)
        except Exception as e:  # never a verdict
            mutation = {"error": f"{type(e).__name__}: {e}"}

    # ---------------------------------------------------------------- known findings
    known = [k for k in load_known_findings() if k.get("property") == pid and k.get("kind", "finding") == "finding"]
    printed_known = []
    lines = []
    suppressed = []
    remaining = list(failing)
    for kf in known:
        pat = re.compile(kf["obligation"])
        matched = [ob for ob in remaining if pat.search(ob.name)]
        bmatched = [v for v in bounded_violations if pat.search(v.get("name", ""))]
        if not matched and not bmatched:
            continue
        # the recorded witness must still fail natively on this tree
        rc, out, err = run_native([os.path.join(ROOT, kf["witness"])], timeout=120)
        if rc == 1:
            lines.append(f"KNOWN-FINDING: property={pid} {kf['what']}")
            printed_known.append(kf["what"])
            remaining = [ob for ob in remaining if ob not in matched]
            suppressed += matched
            bounded_violations = [v for v in bounded_violations if v not in bmatched]
        # rc == 0: the witness no longer fails -> the obligations stay in `remaining` as violations

    # ---------------------------------------------------------------- replay / report
    os.makedirs(os.path.join(ROOT, "replays"), exist_ok=True)
    violations = []
    if remaining or bounded_violations:
        replay_path = None
        note = ""
        # a concrete failing input from the bounded layer is a replay as it stands
        for v in bounded_violations:
            if v.get("replay"):
                replay_path = v["replay"]
                break
        if replay_path is None and spec.get("search"):
            try:
                found = spec["search"](failing=[ob.name for ob in remaining], tier=tier, seed=seed, run_native=run_native)
            except Exception as e:  # the search must never turn a failure into a crash
                found = None
                note = f"(replay search crashed: {e})"
            if found:
                replay_path = found
        if replay_path is None:
            # recorded witnesses of REPAIRED defects and the probes of this property are concrete inputs too: one that
            # fails on this tree is a replay of the violation (witnesses of open findings are expected to fail: skipped)
            import glob
            open_witnesses = {os.path.basename(k.get("witness", "")) for k in load_known_findings() if k.get("kind", "finding") == "finding"}
            for cand in sorted(glob.glob(os.path.join(ROOT, "witness", f"{pid}_*.py")) + glob.glob(os.path.join(ROOT, "probes", f"{pid}_*.py"))):
                if os.path.basename(cand) in open_witnesses:
                    continue
                try:
                    rc2, _o, _e = run_native([cand], timeout=120)
                except Exception:
                    continue
                if rc2 == 1:
                    replay_path = cand
                    break
        names = sorted({ob.name for ob in remaining} | {v.get("name", "bounded") for v in bounded_violations})
        if replay_path is None:
            replay_path = os.path.join(ROOT, "replays", f"{pid}-obligation-{hashlib.sha1(' '.join(names).encode()).hexdigest()[:10]}.txt")
            with open(replay_path, "w") as f:
                f.write(f"property {pid}: obligations not discharged on {REPO}\n{note}\n")
                for ob in remaining:
                    f.write(f"\n=== {ob.name}\nstatus: {ob.status} backend: {ob.backend} ({ob.ms:.0f} ms)\n")
                    f.write("solver output / counter-model (a counterexample to the verification condition; for loop "
                            "invariants a counterexample to induction, not necessarily an execution):\n")
                    f.write((ob.model_text or "(no model: solver answered unknown on every back end)") + "\n")
            tail = " no-failing-input-found"
        else:
            tail = ""
            side = replay_path if os.path.dirname(replay_path) == os.path.join(ROOT, "replays") else os.path.join(
                ROOT, "replays", f"{pid}-{os.path.basename(replay_path)}")  # never write next to a committed witness/probe
            with open(side + ".obligations.txt", "w") as f:
                f.write("\n".join(names) + "\n")
        violations = names
        lines.append(f"VIOLATION property={pid} replay={replay_path}{tail}")
        how = {}
        for ob in remaining:
            how.setdefault(ob.name, set()).add("refuted by " + ob.backend if ob.status == "failed" else "not discharged by any back end within its resource budget")
        for nm in names[:12]:
            lines.append(f"  failed obligation: {nm}  [{'; '.join(sorted(how.get(nm, {'bounded layer'})))}]")

    # ---------------------------------------------------------------- evidence
    by_backend = {}
    for ob in real:
        if ob.status == "discharged":
            by_backend[ob.backend] = by_backend.get(ob.backend, 0) + 1
    samples = []
    for ob in real[:: max(1, len(real) // 3)][:3]:
        try:
            txt = to_smt2(ob)
            samples.append({"obligation": ob.name, "status": ob.status, "backend": ob.backend,
                            "smtlib_bytes": len(txt), "smtlib_tail": txt[-600:]})
        except Exception:
            samples.append({"obligation": ob.name, "status": ob.status})
    assumptions = list(props.COMMON_ASSUMPTIONS) + list(spec.get("assumptions", []))
    used_trusted = sorted({q for r in reports for q in getattr(r, "used_trusted", [])} | set(trusted))
    for q in used_trusted:
        c_ = CONTRACTS.get(q)
        assumptions += (c_.assumptions() if c_ is not None and c_.assumptions() else [f"{q}: assumed contract (body not checked)"])
    try:  # `derived` clauses of PROVED contracts are assumed at their call sites: name them too
        for q, c_ in sorted(CONTRACTS.items()):
            if not c_.trusted and hasattr(c_, "derived") and pid in (c_.properties or []):
                for a_ in (c_.assumptions() or []):
                    if a_ not in assumptions:
                        assumptions.append(a_)
    except Exception:
        pass
    assumptions.append("builtin models used as assumed contracts of CPython primitives: " + ", ".join(sorted(pyvc_models.USED_MODELS)))
    all_proved = not failing and not undecided and not checker_errors and not bounded_violations
    evidence = {
        "property_id": pid,
        "tier": tier,
        "seed": seed,
        "level": "proof",
        "coverage": {
            # obligations that a recorded known finding names (and whose witness still fails natively)
            # are not part of the proof claim; they are counted separately below
            "obligations": len(real) - len(suppressed),
            "discharged": sum(1 for ob in real if ob.status == "discharged"),
            "obligations_excluded_by_known_findings": sorted({ob.name for ob in suppressed}),
            "obligation_instances_excluded_by_known_findings": len(suppressed),
            "checker_cmd": f"./check {pid} --tier {tier}  (python3-vt: pyvc AST->VC generator + z3 {z3.get_version_string()} / cvc5 / z3 4.8)",
            "trusted_base": ["pyvc symbolic executor and builtin models (/verif/pyvc)", "z3 5.1.0", "cvc5 1.0.3", "z3 4.8.12",
                             "CPython semantics as encoded (DESIGN 2.3)"],
            "functions_under_contract": [
                {"function": r.qualname, "contract": r.contract, "ast_sha256_16": r.ast_hash, "paths": r.paths,
                 "pruned_paths": r.pruned, "obligations": len([o for o in r.obligations if relevant(o, pid)]),
                 "inlined_real_bodies": r.inlined, "unsupported": r.unsupported, "error": r.error,
                 "generation_s": round(r.wall_s, 2)} for r in reports],
            "lemmas": len(lemma_obs),
            "frame_scan_obligations": len(scan_obs),
            "assumed_contracts_not_checked": used_trusted,
            "inlined_contracts": inlined_contracts,
            "backends": by_backend,
            "solver_s": round(t_solve, 2),
            "generation_s": round(t_gen, 2),
            "vacuity": {
                "canaries": len(canaries),
                "canaries_refuted_or_open": sum(1 for c in canaries if c.status != "discharged"),
                "infeasible_paths_detected_late": sum(1 for c in canaries if c.status == "discharged"),
            },
            "bounded_parts": bounded_results,
            "mutation_self_test_of_the_contracts": mutation,
            "not_discharged": sorted({ob.name for ob in failing})[:40],
            "undecided": undecided,
            "known_findings_printed": printed_known,
            "samples": samples,
            "extraction_drops": "docstrings, type annotations, comments, `if TYPE_CHECKING:` blocks; nothing else — the verified text is /repo's source re-read on this run",
        },
        "assumptions": assumptions,
        "wall_s": round(time.time() - t_start, 2),
        "violations": 1 if violations else 0,
    }
    if not all_proved and not failing and bounded_results and not violations:
        pass
    # evidence is about /repo itself; a development run against a scratch copy (PYVC_REPO) writes elsewhere
    ev_dir = os.path.join(ROOT, "evidence") if os.path.abspath(REPO) == "/repo" else os.path.join(
        os.environ.get("TMPDIR", "/tmp"), "pysm_scratch_evidence", os.path.basename(os.path.abspath(REPO)))
    os.makedirs(ev_dir, exist_ok=True)
    with open(os.path.join(ev_dir, f"{pid}.json"), "w") as f:
        json.dump(evidence, f, indent=1, default=str)

    if args.rebaseline:
        os.makedirs(os.path.join(ROOT, "baseline"), exist_ok=True)
        with open(os.path.join(ROOT, "baseline", f"{pid}.json"), "w") as f:
            json.dump(sorted({ob.name for ob in real if ob.status == "discharged"}), f, indent=0)

    for ln in lines:
        print(ln)
    for ln in layer_notes:
        print("NOTE:", ln)
    print(f"{pid}: {evidence['coverage']['discharged']}/{len(real)} obligations discharged over {len(reports)} functions "
          f"({t_gen:.1f}s generation, {t_solve:.1f}s solving); bounded parts: {len(bounded_results)}")
    if violations:
        for e in checker_errors:
            print("CHECKER-ERROR (besides the violation):", e)
        return 1
    if checker_errors:
        for e in checker_errors:
            print("CHECKER-ERROR:", e)
        return 3
    if undecided:
        for u in undecided:
            print("UNDECIDED:", u)
        return 2
    return 0


if __name__ == "__main__":
    try:
        sys.exit(main())
    except SystemExit:
        raise
    except BaseException:
        traceback.print_exc()
        sys.exit(3)
