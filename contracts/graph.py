"""Contracts of statemachine/graph.py and the metaclass checks of statemachine/factory.py (C09)."""
from __future__ import annotations

import z3

from pyvc.core import (
    B, CLASSES, EXC_CODE, Exc, I, NONE, NoneV, O, Py, S, T, Int, Bool, Str, ref_of, truthy, FIRST_ADDR,
    ClassModel, MethodSpec, Unsupported, fresh,
)
from pyvc.execu import CONTRACTS, GLOBAL_NAMES, CallArgs, Contract, LoopSpec, Raise, register
from pyvc.models import model

from .model import C, INL, valid_obj, state_transitions

GQ = "statemachine.graph:"
FQ = "statemachine.factory:StateMachineMetaclass."

REACH = z3.Function("REACH", Int, Int, Bool)  # v is reachable from s along transition targets


def out_arr(s, u):
    return state_transitions(s, u)


def edge(s, u, w):
    """Some transition of u has target w."""
    arr, n = out_arr(s, u)
    j = z3.Const("j!edge", Int)
    return z3.Exists([j], z3.And(j >= 0, j < n, s.sel("Transition.target", z3.Select(arr, j)) == w))


def reach_closure_axioms(s, start):
    """The two closure rules of reachability (its definition as the LEAST such relation is used
    only through `closed => contains REACH`, see Visit.post)."""
    u, w, j = z3.Const("u!rc", Int), z3.Const("w!rc", Int), z3.Const("j!rc", Int)
    arr, n = out_arr(s, u)
    return z3.And(
        REACH(start, start),
        z3.ForAll([u, j], z3.Implies(z3.And(REACH(start, u), j >= 0, j < n),
                                     REACH(start, s.sel("Transition.target", z3.Select(arr, j)))),
                  patterns=[z3.MultiPattern(REACH(start, u), z3.Select(arr, j))]))


def closed_under_successors(s, member):
    """member(u) and u -> w  imply member(w)"""
    u, j = z3.Const("u!cl", Int), z3.Const("j!cl", Int)
    arr, n = out_arr(s, u)
    return z3.ForAll([u, j], z3.Implies(z3.And(member(u), j >= 0, j < n),
                                        member(s.sel("Transition.target", z3.Select(arr, j)))))


def graph_wf(s):
    """Every state's transition list is a valid list (lengths non-negative)."""
    u = z3.Const("u!gw", Int)
    arr, n = out_arr(s, u)
    return z3.ForAll([u], n >= 0)


def yielded(s, v, upto=None):
    k = z3.Const("k!yl", Int)
    hi = s.g("ny") if upto is None else upto
    return z3.Exists([k], z3.And(k >= 0, k < hi, z3.Select(s.g("ylog"), k) == v))


@register
class Visit(Contract):
    """visit_connected_states(state): yields exactly the states reachable from `state` along
    transition targets (direction matters), each once.

    Post = soundness (everything yielded is reachable) + closedness (the start is yielded and the
    yielded set is closed under successors).  Since REACH is by definition the least set with these
    two closure properties, closedness gives REACH <= yielded: that induction schema IS the
    definition of reachability (DESIGN 4.C09)."""

    qualnames = [GQ + "visit_connected_states"]
    params = [("state", "State")]
    returns = "None"
    generator = True
    modifies = ["ghost.ylog", "ghost.ny", "deque.arr+", "deque.head+", "deque.tail+", "set.has+"]
    properties = ["C09"]
    local_types = {"visit": "deque[State]", "already_visited": "set[State]", "state": "State"}

    def pre(self, s, a):
        return {"graph-wf": graph_wf(s), "fresh-output": s.g("ny") == 0}

    def reveal(self, s, a):
        return {"REACH-closure": reach_closure_axioms(s, a.state.e)}

    def post(self, s0, s, a, r):
        v = z3.Const("v!vp", Int)
        k1, k2 = z3.Const("k1!vp", Int), z3.Const("k2!vp", Int)
        return {
            "C09|sound:only-reachable-states-are-yielded": z3.ForAll([v], z3.Implies(yielded(s, v), REACH(a.state.e, v))),
            "C09|complete:start-is-yielded": yielded(s, a.state.e),
            "C09|complete:yielded-set-is-closed-under-transition-targets": closed_under_successors(s0, lambda u: yielded(s, u)),
            "C09|each-state-once": z3.ForAll([k1, k2], z3.Implies(
                z3.And(0 <= k1, k1 < k2, k2 < s.g("ny")), z3.Select(s.g("ylog"), k1) != z3.Select(s.g("ylog"), k2))),
        }

    def _inv(self, s0, s, a, l):
        visited = s.sel("set.has", l.already_visited.e)
        q = l.visit.e
        qa, qh_, qt_ = s.sel("deque.arr", q), s.sel("deque.head", q), s.sel("deque.tail", q)
        v, k, u, j = z3.Const("v!vi", Int), z3.Const("k!vi", Int), z3.Const("u!vi", Int), z3.Const("j!vi", Int)
        k1, k2 = z3.Const("k1!vi", Int), z3.Const("k2!vi", Int)
        queued = lambda x: z3.Exists([k], z3.And(k >= qh_, k < qt_, z3.Select(qa, k) == x))  # noqa: E731
        arr, n = out_arr(s0, u)
        return {
            "cursors": z3.And(0 <= qh_, qh_ <= qt_, s.g("ny") >= 0, q != l.already_visited.e),
            "C09|visited-are-reachable": z3.ForAll([v], z3.Implies(z3.Select(visited, v), REACH(a.state.e, v))),
            "C09|queued-are-reachable": z3.ForAll([k], z3.Implies(z3.And(k >= qh_, k < qt_), REACH(a.state.e, z3.Select(qa, k)))),
            "C09|start-visited-or-queued": z3.Or(z3.Select(visited, a.state.e), queued(a.state.e)),
            "C09|successors-of-visited-are-visited-or-queued": z3.ForAll([u, j], z3.Implies(
                z3.And(z3.Select(visited, u), j >= 0, j < n),
                z3.Or(z3.Select(visited, s0.sel("Transition.target", z3.Select(arr, j))),
                      queued(s0.sel("Transition.target", z3.Select(arr, j)))))),
            "C09|yielded-is-visited": z3.ForAll([v], z3.Select(visited, v) == yielded(s, v)),
            "C09|no-duplicates": z3.ForAll([k1, k2], z3.Implies(
                z3.And(0 <= k1, k1 < k2, k2 < s.g("ny")), z3.Select(s.g("ylog"), k1) != z3.Select(s.g("ylog"), k2))),
        }

    @property
    def loops(self):
        return {0: LoopSpec(self._inv, modifies=["ghost.ylog", "ghost.ny", "deque.arr+", "deque.head+", "deque.tail+", "set.has+"],
                            written=lambda s0, a, l: [l.visit.e, l.already_visited.e])}


def _visit_derived(self, s0, s, a, r):
    """META-LEMMA (least fixed point): a set that contains the start and is closed under
    transition targets contains everything reachable.  This is the induction principle that
    *defines* REACH; it is applied here to the yielded set, whose closedness is a proved post."""
    v = z3.Const("v!vd", Int)
    return {"lfp:reachable-states-are-yielded": z3.ForAll([v], z3.Implies(REACH(a.state.e, v), yielded(s, v)),
                                                         patterns=[REACH(a.state.e, v)]),
            "REACH-closure": reach_closure_axioms(s0, a.state.e)}


Visit.derived = _visit_derived
Visit.yields = "State"
GLOBAL_NAMES["visit_connected_states"] = Py(("func", GQ + "visit_connected_states"))

# =========================================================================== factory checks
ClassModel(
    "States",
    fields={"order": "list[State]"},  # ghost view: the values of States._states in insertion order
    iter_fn=lambda ex, path, v: O(path.sel("States.order", v.e), "list[State]"),
    truthy_fn=lambda path, v: path.sel("list.len", path.sel("States.order", v.e)) > 0,
)
ClassModel("EventsDict", fields={"count": "int"},
           truthy_fn=lambda path, v: path.sel("EventsDict.count", v.e) > 0)
CLASSES["TransitionList"].truthy_fn = lambda path, v: path.sel("list.len", path.sel("TransitionList.transitions", v.e)) > 0
CLASSES["State"].props["final"] = INL("statemachine.state:State.final")
CLASSES["State"].props["initial"] = INL("statemachine.state:State.initial")

ClassModel(
    "SMClass",
    fields={"states": "States", "final_states": "list[State]", "initial_state": "Opt[State]", "_strict_states": "bool",
            "_abstract": "bool", "_events": "EventsDict"},
    methods={
        "_check_initial_state": C(FQ + "_check_initial_state"),
        "_check_final_states": C(FQ + "_check_final_states"),
        "_check_disconnected_state": C(FQ + "_check_disconnected_state"),
        "_check_trap_states": C(FQ + "_check_trap_states"),
        "_check_reachable_final_states": C(FQ + "_check_reachable_final_states"),
        "_states_without_path_to_final_states": C(FQ + "_states_without_path_to_final_states"),
        "_disconnected_states": C(FQ + "_disconnected_states"),
    },
)
GLOBAL_NAMES["bool"] = GLOBAL_NAMES.get("bool", Py(("builtin", "bool")))


def cls_states(s, cls):
    lst = s.sel("States.order", s.sel("SMClass.states", cls))
    return s.sel("list.arr", lst), s.sel("list.len", lst)


def is_state(s, cls, v):
    arr, n = cls_states(s, cls)
    k = z3.Const("k!is", Int)
    return z3.Exists([k], z3.And(k >= 0, k < n, z3.Select(arr, k) == v))


def final(s, v):
    return s.sel("State._final", v)


def initial(s, v):
    return s.sel("State._initial", v)


def has_out(s, v):
    return state_transitions(s, v)[1] > 0


def class_wf(s, cls):
    """What the metaclass __init__ has established before _check runs."""
    arr, n = cls_states(s, cls)
    k, k2 = z3.Const("k!cw", Int), z3.Const("k2!cw", Int)
    fl = s.sel("SMClass.final_states", cls)
    fa, fn = s.sel("list.arr", fl), s.sel("list.len", fl)
    ini = s.sel("SMClass.initial_state", cls)
    x = z3.Select(arr, k)
    tl = s.sel("State.transitions", x)
    return {
        "graph-wf": graph_wf(s),
        "containers-valid": z3.And(valid_obj(s, s.sel("SMClass.states", cls)), valid_obj(s, fl),
                                   valid_obj(s, s.sel("States.order", s.sel("SMClass.states", cls)))),
        "states-list": z3.And(n >= 0, fn >= 0, z3.ForAll([k], z3.Implies(z3.And(k >= 0, k < n), z3.And(
            valid_obj(s, x), valid_obj(s, tl), valid_obj(s, s.sel("TransitionList.transitions", tl)))))),
        "states-distinct": z3.ForAll([k, k2], z3.Implies(z3.And(0 <= k, k < k2, k2 < n), z3.Select(arr, k) != z3.Select(arr, k2))),
        # cls.final_states = [s for s in cls.states if s.final]
        "final_states-are-the-final-states": z3.And(
            z3.ForAll([k], z3.Implies(z3.And(k >= 0, k < fn), z3.And(final(s, z3.Select(fa, k)), is_state(s, cls, z3.Select(fa, k))))),
            z3.ForAll([k], z3.Implies(z3.And(k >= 0, k < n, final(s, z3.Select(arr, k))),
                                      z3.Exists([k2], z3.And(k2 >= 0, k2 < fn, z3.Select(fa, k2) == z3.Select(arr, k)))))),
        # cls.initial_state = next(s for s in cls.states if s.initial), or None
        "initial_state-is-the-first-initial-state": z3.Or(
            z3.And(ini == NONE, z3.ForAll([k], z3.Implies(z3.And(k >= 0, k < n), z3.Not(initial(s, z3.Select(arr, k)))))),
            z3.And(ini != NONE, is_state(s, cls, ini), initial(s, ini))),
    }


NINIT = z3.Function("NINIT", Int, Int, Int)  # NINIT(cls, j): initial states among the first j states


def ninit_definition(s, cls):
    arr, n = cls_states(s, cls)
    j = z3.Const("j!ni", Int)
    return z3.And(NINIT(cls, 0) == 0, z3.ForAll([j], z3.Implies(
        z3.And(j >= 0, j < n), NINIT(cls, j + 1) == NINIT(cls, j) + z3.If(initial(s, z3.Select(arr, j)), 1, 0)),
        patterns=[NINIT(cls, j)]))


class CheckBase(Contract):
    params = [("cls", "SMClass")]
    returns = "None"
    raises = True
    exc_classes = ["InvalidDefinition"]
    modifies = ["ghost.nwarn", "list.arr+", "list.len+", "set.has+"]
    properties = ["C09"]

    def pre(self, s, a):
        return class_wf(s, a.cls.e)


@register
class CheckInitial(CheckBase):
    """_check_initial_state: accepted iff exactly one state is flagged initial."""

    qualnames = [FQ + "_check_initial_state"]

    def reveal(self, s, a):
        return {"NINIT-definition": ninit_definition(s, a.cls.e)}

    def _some_initial(self, s0, a, upto=None):
        arr, n = cls_states(s0, a.cls.e)
        k = z3.Const("k!si", Int)
        return z3.Exists([k], z3.And(k >= 0, k < (n if upto is None else upto), initial(s0, z3.Select(arr, k))))

    def post(self, s0, s, a, r):
        return {"C09|accepted-only-with-exactly-one-initial-state": NINIT(a.cls.e, cls_states(s0, a.cls.e)[1]) == 1,
                "C09|so-some-state-is-initial": self._some_initial(s0, a),
                "no-warning": s.g("nwarn") == s0.g("nwarn")}

    def exc_post(self, s0, s, a, x):
        return {"C09|rejected-only-without-exactly-one-initial-state": NINIT(a.cls.e, cls_states(s0, a.cls.e)[1]) != 1}

    def _inv(self, s0, s, a, l):
        acc = l.acc.e
        return {"C09|count": z3.And(s.sel("list.len", acc) == NINIT(a.cls.e, l.i), acc >= s0["ghost.alloc"]),
                "C09|a-positive-count-has-a-witness": z3.Implies(s.sel("list.len", acc) > 0, self._some_initial(s0, a, l.i))}

    @property
    def loops(self):
        return {0: LoopSpec(self._inv, elem="State", modifies=["list.arr+", "list.len+"])}


@register
class CheckFinal(CheckBase):
    """_check_final_states: accepted iff no final state has an outgoing transition."""

    qualnames = [FQ + "_check_final_states"]

    def _bad(self, s0, a, upto=None):
        fl = s0.sel("SMClass.final_states", a.cls.e)
        fa, fn = s0.sel("list.arr", fl), s0.sel("list.len", fl)
        k = z3.Const("k!cf", Int)
        hi = fn if upto is None else upto
        return z3.Exists([k], z3.And(k >= 0, k < hi, has_out(s0, z3.Select(fa, k))))

    def post(self, s0, s, a, r):
        arr, n = cls_states(s0, a.cls.e)
        k = z3.Const("k!cfp", Int)
        return {"C09|accepted-only-if-no-final-state-has-a-transition": z3.ForAll([k], z3.Implies(
            z3.And(k >= 0, k < n, final(s0, z3.Select(arr, k))), z3.Not(has_out(s0, z3.Select(arr, k))))),
            "no-warning": s.g("nwarn") == s0.g("nwarn")}

    def exc_post(self, s0, s, a, x):
        arr, n = cls_states(s0, a.cls.e)
        k = z3.Const("k!cfx", Int)
        return {"C09|rejected-only-if-some-final-state-has-a-transition": z3.Exists([k], z3.And(
            k >= 0, k < n, final(s0, z3.Select(arr, k)), has_out(s0, z3.Select(arr, k))))}

    def _inv(self, s0, s, a, l):
        acc = l.acc.e
        return {"C09|nonempty-iff-found": z3.And(
            (s.sel("list.len", acc) > 0) == self._bad(s0, a, l.i), s.sel("list.len", acc) >= 0, acc >= s0["ghost.alloc"])}

    @property
    def loops(self):
        return {0: LoopSpec(self._inv, elem="State", modifies=["list.arr+", "list.len+"])}


@register
class CheckTrap(CheckBase):
    """_check_trap_states: a non-final state without outgoing transitions raises under
    strict_states and warns otherwise."""

    qualnames = [FQ + "_check_trap_states"]

    def _trap(self, s0, a, upto=None):
        arr, n = cls_states(s0, a.cls.e)
        k = z3.Const("k!ct", Int)
        hi = n if upto is None else upto
        x = z3.Select(arr, k)
        return z3.Exists([k], z3.And(k >= 0, k < hi, z3.Not(final(s0, x)), z3.Not(has_out(s0, x))))

    def post(self, s0, s, a, r):
        strict = s0.sel("SMClass._strict_states", a.cls.e)
        return {"C09|trap:not-strict-warns": z3.Implies(self._trap(s0, a), z3.And(z3.Not(strict), s.g("nwarn") == s0.g("nwarn") + 1)),
                "C09|no-trap:silent": z3.Implies(z3.Not(self._trap(s0, a)), s.g("nwarn") == s0.g("nwarn"))}

    def exc_post(self, s0, s, a, x):
        strict = s0.sel("SMClass._strict_states", a.cls.e)
        return {"C09|trap:strict-raises": z3.And(self._trap(s0, a), strict)}

    def _inv(self, s0, s, a, l):
        acc = l.acc.e
        return {"C09|nonempty-iff-found": z3.And(
            (s.sel("list.len", acc) > 0) == self._trap(s0, a, l.i), s.sel("list.len", acc) >= 0, acc >= s0["ghost.alloc"]),
            "no-warning-yet": s.g("nwarn") == s0.g("nwarn")}

    @property
    def loops(self):
        return {0: LoopSpec(self._inv, elem="State", modifies=["list.arr+", "list.len+"])}


def reaches_final(s, u):
    v = z3.Const("v!rf", Int)
    return z3.Exists([v], z3.And(REACH(u, v), final(s, v)))


def stuck(s0, a, upto=None):
    """Some non-final state (among the first `upto`) has no path to a final state."""
    arr, n = cls_states(s0, a.cls.e)
    k = z3.Const("k!sk", Int)
    hi = n if upto is None else upto
    x = z3.Select(arr, k)
    return z3.Exists([k], z3.And(k >= 0, k < hi, z3.Not(final(s0, x)), z3.Not(reaches_final(s0, x))))


@register
class StatesWithoutPath(CheckBase):
    """_states_without_path_to_final_states: the non-final states from which no final state is
    reachable (non-empty iff there is one)."""

    qualnames = [FQ + "_states_without_path_to_final_states"]
    returns = "list[State]"
    raises = False

    def post(self, s0, s, a, r):
        return {"C09|nonempty-iff-some-state-cannot-reach-a-final-state": (s.sel("list.len", r) > 0) == stuck(s0, a),
                "fresh": z3.And(r.e >= s0["ghost.alloc"], s.sel("list.len", r) >= 0), "no-warning": s.g("nwarn") == s0.g("nwarn")}

    def _inv(self, s0, s, a, l):
        acc = l.acc.e
        return {"C09|nonempty-iff-found": z3.And(
            (s.sel("list.len", acc) > 0) == stuck(s0, a, l.i), s.sel("list.len", acc) >= 0, acc >= s0["ghost.alloc"]),
            "no-warning": s.g("nwarn") == s0.g("nwarn")}

    def _inv_any(self, s0, s, a, l):
        # any(s.final for s in visit_connected_states(state)): none of the first i yielded is final
        k = z3.Const("k!ia", Int)
        return {"C09|no-final-among-the-first-i": z3.ForAll([k], z3.Implies(z3.And(k >= 0, k < l.i), z3.Not(final(s0, l.seq(k)))))}

    @property
    def loops(self):
        return {0: LoopSpec(self._inv, elem="State", modifies=["list.arr+", "list.len+", "deque.arr+", "deque.head+", "deque.tail+", "set.has+"]),
                1: LoopSpec(self._inv_any, modifies=[])}


@register
class CheckReachableFinal(CheckBase):
    """_check_reachable_final_states: only when final states exist; a non-final state without a
    path to a final state raises under strict_states and warns otherwise."""

    qualnames = [FQ + "_check_reachable_final_states"]

    def _has_final(self, s0, a, upto=None):
        arr, n = cls_states(s0, a.cls.e)
        k = z3.Const("k!hf", Int)
        hi = n if upto is None else upto
        return z3.Exists([k], z3.And(k >= 0, k < hi, final(s0, z3.Select(arr, k))))

    def post(self, s0, s, a, r):
        strict = s0.sel("SMClass._strict_states", a.cls.e)
        bad = z3.And(self._has_final(s0, a), stuck(s0, a))
        return {"C09|stuck-state:not-strict-warns": z3.Implies(bad, z3.And(z3.Not(strict), s.g("nwarn") == s0.g("nwarn") + 1)),
                "C09|otherwise-silent": z3.Implies(z3.Not(bad), s.g("nwarn") == s0.g("nwarn"))}

    def exc_post(self, s0, s, a, x):
        strict = s0.sel("SMClass._strict_states", a.cls.e)
        return {"C09|stuck-state:strict-raises": z3.And(self._has_final(s0, a), stuck(s0, a), strict)}

    def _inv_any(self, s0, s, a, l):
        k = z3.Const("k!ia2", Int)
        return {"C09|no-final-among-the-first-i": z3.Not(self._has_final(s0, a, l.i)), "no-warning": s.g("nwarn") == s0.g("nwarn")}

    @property
    def loops(self):
        return {0: LoopSpec(self._inv_any, modifies=[])}


@register
class DisconnectedStates(CheckBase):
    """_disconnected_states(start): the states of the class not reachable from `start`."""

    qualnames = [FQ + "_disconnected_states"]
    params = [("cls", "SMClass"), ("starting_state", "State")]
    returns = "set[State]"
    raises = False

    def post(self, s0, s, a, r):
        v = z3.Const("v!ds", Int)
        return {"C09|exactly-the-unreachable-states": z3.ForAll([v], z3.Select(s.sel("set.has", r), v) == z3.And(
            is_state(s0, a.cls.e, v), z3.Not(REACH(a.starting_state.e, v)))), "no-warning": s.g("nwarn") == s0.g("nwarn")}


@register
class CheckDisconnected(CheckBase):
    """_check_disconnected_state: accepted iff every state is reachable from the initial one."""

    qualnames = [FQ + "_check_disconnected_state"]

    def pre(self, s, a):
        f = class_wf(s, a.cls.e)
        f["has-initial-state"] = s.sel("SMClass.initial_state", a.cls.e) != NONE  # _check_initial_state ran first
        return f

    def _unreachable(self, s0, a):
        arr, n = cls_states(s0, a.cls.e)
        k = z3.Const("k!cd", Int)
        return z3.Exists([k], z3.And(k >= 0, k < n, z3.Not(REACH(s0.sel("SMClass.initial_state", a.cls.e), z3.Select(arr, k)))))

    def post(self, s0, s, a, r):
        return {"C09|accepted-only-if-every-state-is-reachable-from-the-initial-one": z3.Not(self._unreachable(s0, a)),
                "no-warning": s.g("nwarn") == s0.g("nwarn")}

    def exc_post(self, s0, s, a, x):
        return {"C09|rejected-only-if-some-state-is-unreachable": self._unreachable(s0, a)}


@register
class Check(CheckBase):
    """_check: the class statement is accepted iff (abstract: no states and no events) or: at least
    one state and one event, exactly one initial state, no transition out of a final state, every
    state reachable from the initial one — and, under strict_states, no trap state and no state
    without a path to a final state (a warning otherwise)."""

    qualnames = [FQ + "_check"]
    modifies = CheckBase.modifies + ["SMClass._abstract"]

    def reveal(self, s, a):
        return {"NINIT-definition": ninit_definition(s, a.cls.e)}

    def _well_formed(self, s0, a):
        cls = a.cls.e
        arr, n = cls_states(s0, cls)
        k = z3.Const("k!ck", Int)
        return z3.And(
            n > 0, s0.sel("EventsDict.count", s0.sel("SMClass._events", cls)) > 0,
            NINIT(cls, n) == 1,
            z3.ForAll([k], z3.Implies(z3.And(k >= 0, k < n, final(s0, z3.Select(arr, k))), z3.Not(has_out(s0, z3.Select(arr, k))))),
            z3.ForAll([k], z3.Implies(z3.And(k >= 0, k < n), REACH(s0.sel("SMClass.initial_state", cls), z3.Select(arr, k)))))

    def _strict_violation(self, s0, a):
        has_final = CheckReachableFinal._has_final(None, s0, a)
        return z3.Or(CheckTrap._trap(None, s0, a), z3.And(has_final, stuck(s0, a)))

    def _abstract(self, s0, a):
        cls = a.cls.e
        return z3.And(cls_states(s0, cls)[1] == 0, s0.sel("EventsDict.count", s0.sel("SMClass._events", cls)) <= 0)

    def post(self, s0, s, a, r):
        strict = s0.sel("SMClass._strict_states", a.cls.e)
        return {
            "C09|accepted-only-if-abstract-or-well-formed": z3.Or(self._abstract(s0, a), self._well_formed(s0, a)),
            "C09|accepted-under-strict-only-without-trap-or-stuck-states": z3.Implies(
                z3.And(z3.Not(self._abstract(s0, a)), strict), z3.Not(self._strict_violation(s0, a))),
            "C09|abstract-flag": s.sel("SMClass._abstract", a.cls.e) == self._abstract(s0, a),
        }

    def exc_post(self, s0, s, a, x):
        strict = s0.sel("SMClass._strict_states", a.cls.e)
        return {"C09|rejected-only-if-ill-formed": z3.And(z3.Not(self._abstract(s0, a)), z3.Or(
            z3.Not(self._well_formed(s0, a)), z3.And(strict, self._strict_violation(s0, a))))}
