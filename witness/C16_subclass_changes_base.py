"""C16 witness (#15): defining a subclass that adds a transition to an inherited state must not change
the base class (the State objects are shared by reference).  Exit 1 while present."""
import sys
import warnings
from statemachine import State, StateMachine

warnings.simplefilter("ignore")


class Base(StateMachine):
    a = State(initial=True)
    b = State()
    go = a.to(b)
    back = b.to(a)


before = sorted(str(e) for t in Base.a.transitions for e in t.events)


class Sub(Base):
    jump = Base.a.to(Base.b)


after = sorted(str(e) for t in Base.a.transitions for e in t.events)
bad = []
if after != before:
    bad.append(f"Base.a transitions changed from {before} to {after}")
try:
    sm = Base()
    sm.send("jump")
    bad.append("Base().send('jump') fired a transition that only the subclass declares")
except Exception:  # noqa: BLE001
    pass
if bad:
    print("C16 VIOLATED (recorded finding):", "; ".join(bad))
    sys.exit(1)
print("ok")
