"""Bounded API-level checks on the REAL library (DESIGN 2.7): stand-ins, labelled bounded, for the
parts of C12 / C13 / C15 / C16 whose functions are not (yet) under contract, and the witnesses'
generalisation.  Each check enumerates or samples small cases and compares with a reference
computed directly from the property statement.

usage: python -m runtime.api_checks <C12|C13|C15|C16> <budget seconds> <seed>
prints one JSON line; exit 1 if a disagreement outside the recorded regions was found.
"""
from __future__ import annotations

import itertools
import json
import os
import random
import sys
import time
import warnings

warnings.simplefilter("ignore")
_uid = itertools.count()


def fresh_name(prefix):
    return f"{prefix}{next(_uid)}"


# =========================================================================== C13
def check_c13(budget, seed):
    """allowed_events = events with a transition leaving the current state, each once, in order of
    first appearance over that state's transitions; events = every declared event; send / event
    method / items of events / allowed_events are interchangeable; bind_events_to binds every
    missing trigger on every target."""
    from statemachine import State, StateMachine
    from statemachine.exceptions import TransitionNotAllowed
    rng = random.Random(seed)
    t0 = time.time()
    n = 0
    regions = {}
    while _more(n, t0, budget):
        n += 1
        ns = rng.randint(2, 4)
        ids = [f"s{k}" for k in range(ns)]
        evs = [f"e{k}" for k in range(rng.randint(1, 4))]
        states = {i: State(initial=(i == ids[0])) for i in ids}
        ns_ = dict(states)
        trans = []  # (src, dst, [events])
        for k in range(ns):
            trans.append((ids[k], ids[(k + 1) % ns], rng.sample(evs, rng.randint(1, len(evs)))))
        for _ in range(rng.randint(0, 3)):
            trans.append((rng.choice(ids), rng.choice(ids), rng.sample(evs, rng.randint(1, len(evs)))))
        by_event = {}
        for src, dst, es in trans:
            tl = states[src].to(states[dst])
            for e in es:
                by_event[e] = (by_event[e] | tl) if e in by_event else tl
        declared = list(by_event)
        ns_.update(by_event)
        cls = type(fresh_name("L"), (StateMachine,), ns_)
        sm = cls(allow_event_without_transition=False)
        # walk a few steps, checking the listings in every visited state
        for _ in range(4):
            cur = sm.current_state.id
            # reference: transitions leaving `cur` in the order they were appended to the state
            want = []
            for t in cls.states_map[sm.current_state_value].transitions:
                for e in t.events:
                    if str(e) not in want:
                        want.append(str(e))
            want_set = {e for src, dst, es in trans if src == cur for e in es}
            got = [str(e) for e in sm.allowed_events]
            if sorted(got) != sorted(want_set) or len(got) != len(set(got)):
                return {"cases": n, "violation": {"what": "allowed_events", "state": cur, "got": got, "want": sorted(want_set),
                                                  "transitions": trans}}
            if got != want:
                return {"cases": n, "violation": {"what": "allowed_events order", "state": cur, "got": got, "want": want, "transitions": trans}}
            if sorted(str(e) for e in sm.events) != sorted(declared):
                return {"cases": n, "violation": {"what": "events", "got": [str(e) for e in sm.events], "want": declared}}
            # interchangeability: every style on a twin, same result/state
            ev = rng.choice(declared + ["undeclared_name"])
            outs = []
            for style in range(4):
                twin = cls()
                twin.current_state_value = sm.current_state_value
                try:
                    if style == 0:
                        r = twin.send(ev)
                    elif style == 1:
                        r = getattr(twin, ev)() if ev in declared else twin.send(ev)
                    elif style == 2:
                        r = next((b for b in twin.events if b == ev), None)
                        r = r() if r is not None else twin.send(ev)
                    else:
                        r = next((b for b in twin.allowed_events if b == ev), None)
                        r = r() if r is not None else twin.send(ev)
                    outs.append(("ok", repr(r), twin.current_state.id))
                except TransitionNotAllowed:
                    outs.append(("not-allowed", twin.current_state.id))
            if len(set(outs)) != 1:
                return {"cases": n, "violation": {"what": "calling styles differ", "event": ev, "state": cur, "outcomes": outs}}
            try:
                sm.send(rng.choice(want) if want else "nope")
            except TransitionNotAllowed:
                pass
        # bind_events_to
        class Tgt:
            pass
        tg = [Tgt() for _ in range(rng.randint(1, 3))]
        pre = rng.choice(declared)
        if len(tg) > 1 and rng.random() < 0.5:
            setattr(tg[0], pre, "taken")
        sm.bind_events_to(*tg)
        for k, t in enumerate(tg):
            for e in declared:
                v = getattr(t, e, None)
                if v == "taken":
                    continue
                if v is None or str(v) != e:
                    return {"cases": n, "violation": {"what": "bind_events_to", "target": k, "event": e, "got": repr(v)}}
    return {"cases": n, "violation": None}


MAX_CASES = None  # a replay re-generates exactly as many cases as the original run needed


def _more(n, t0, budget):
    if MAX_CASES is not None:
        return n < MAX_CASES and time.time() - t0 < 3600
    return time.time() - t0 < budget


# =========================================================================== C15
def check_c15(budget, seed):
    """Every documented rendering of one abstract machine gives the same states, events, allowed
    events per state and behaviour.  Region R17 (recorded): from_.any() expanded before later
    states are declared."""
    from statemachine import State, StateMachine
    from statemachine.states import States
    from enum import Enum
    rng = random.Random(seed)
    t0 = time.time()
    n = 0
    regions = {"R17": 0}

    def view(cls):
        sm_states = sorted((s.id, s.initial, s.final) for s in cls.states)
        evs = sorted(str(e) for e in cls._events)
        per_state = {}
        for s in cls.states:
            per_state[s.id] = [(str(e), t.target.id) for t in s.transitions for e in t.events]
        return sm_states, evs, {k: sorted(v) for k, v in per_state.items()}

    while _more(n, t0, budget):
        n += 1
        ns = rng.randint(2, 4)
        ids = [f"s{k}" for k in range(ns)]
        finals = {ids[-1]} if rng.random() < 0.5 else set()
        evs = [f"e{k}" for k in range(rng.randint(1, 3))]
        abstract = []  # (event, src, dst)
        for k in range(ns - 1):
            abstract.append((rng.choice(evs), ids[k], ids[k + 1]))
        if not finals:
            abstract.append((rng.choice(evs), ids[-1], ids[0]))
        for _ in range(rng.randint(0, 3)):
            src = rng.choice([i for i in ids if i not in finals])
            abstract.append((rng.choice(evs), src, rng.choice(ids)))
        abstract = list(dict.fromkeys(abstract))

        def mk_states(style):
            if style == "enum":
                E = Enum(fresh_name("E"), {i: k for k, i in enumerate(ids)})
                sts = States.from_enum(E, initial=E[ids[0]], final=[E[f] for f in finals] or None)
                return {i: getattr(sts, i) for i in ids}, {"_sts": sts}, True
            return {i: State(initial=(i == ids[0]), final=(i in finals)) for i in ids}, None, False

        renderings = {}
        for style in ("to", "from_", "multi", "or_event_kw", "enum"):
            st, extra, is_enum = mk_states(style)
            ns_ = dict(extra) if is_enum else dict(st)
            by_event = {}
            if style in ("to", "enum"):
                for e, s, d in abstract:
                    tl = st[s].to(st[d])
                    by_event[e] = (by_event[e] | tl) if e in by_event else tl
            elif style == "from_":
                for e, s, d in abstract:
                    tl = st[d].from_(st[s])
                    by_event[e] = (by_event[e] | tl) if e in by_event else tl
            elif style == "multi":
                for e in evs:
                    for s in ids:
                        dsts = [d for (e2, s2, d) in abstract if e2 == e and s2 == s]
                        if dsts:
                            tl = st[s].to(*[st[d] for d in dsts])
                            by_event[e] = (by_event[e] | tl) if e in by_event else tl
            elif style == "or_event_kw":
                # event given as a keyword on the builder; the resulting list is NOT bound to a class attribute
                for e, s, d in abstract:
                    st[s].to(st[d], event=e)
            ns_.update(by_event)
            try:
                renderings[style] = type(fresh_name("R"), (StateMachine,), ns_)
            except Exception as ex:  # noqa: BLE001
                return {"cases": n, "violation": {"what": f"rendering {style} rejected", "error": f"{type(ex).__name__}: {ex}", "abstract": abstract}}
        base = None
        for style, cls in renderings.items():
            v = view(cls)
            if style == "enum":
                v = (sorted((i, ini, fin) for (i, ini, fin) in v[0]), v[1], v[2])
            if style == "or_event_kw":
                # helper attributes _tN are events too in this rendering? they must not be
                v = (v[0], [e for e in v[1]], v[2])
            if base is None:
                base = (style, v)
            elif v != base[1]:
                return {"cases": n, "violation": {"what": "renderings differ", "a": base[0], "b": style, "view_a": base[1], "view_b": v, "abstract": abstract}}
    return {"cases": n, "violation": None, "known_region_hits": regions}


# =========================================================================== C12
def check_c12(budget, seed):
    """Callbacks defined on listeners (constructor or add_listener) and on the model are called like
    the machine's own; all providers of a name are called; a guard provided by several objects
    must hold on all; re-attaching never duplicates; listeners are per instance."""
    from statemachine import State, StateMachine
    rng = random.Random(seed)
    t0 = time.time()
    n = 0
    while _more(n, t0, budget):
        n += 1
        log = []

        def provider(tag, names, guard_value=None):
            ns_ = {}
            for nm in names:
                def f(self, _nm=nm, _tag=tag, **kw):
                    log.append((_tag, _nm, str(kw.get("event"))))
                f.__qualname__ = f"{tag}_{next(_uid)}.{nm}"
                ns_[nm] = f
            if guard_value is not None:
                def g(self, _tag=tag, _v=guard_value):
                    log.append((_tag, "ok", None))
                    return _v
                g.__qualname__ = f"{tag}_{next(_uid)}.ok"
                # a guard name may be provided as a method, as a property or as a plain attribute (attr_method / _search_property)
                kind = rng.choice(["method", "method", "property", "attribute"])
                ns_["ok"] = g if kind == "method" else property(g) if kind == "property" else guard_value
                ns_["_ok_value"] = guard_value
            return type(fresh_name("P"), (), ns_)()

        # `do_it` / `prep` are EXPLICIT names (on="do_it", before="prep"): every provider of the name is called, whatever
        # the others return (they are actions, not guards)
        pool = ["before_go", "on_go", "after_go", "on_enter_b", "on_exit_a", "after_transition", "before_transition", "do_it", "prep"]
        names_m = sorted(set(rng.sample(pool, rng.randint(0, 3))) | {"do_it", "prep"})  # the machine itself always provides the explicit names
        names_model = rng.sample(pool, rng.randint(0, 3))
        l1 = provider("L1", rng.sample(pool, rng.randint(0, 3)), rng.choice([None, True, False]))
        l2 = provider("L2", rng.sample(pool, rng.randint(0, 3)), rng.choice([None, True, False]))
        model = provider("model", names_model, rng.choice([None, True, False]))
        model.state = None
        ns_ = {"a": State(initial=True), "b": State()}
        ns_["go"] = ns_["a"].to(ns_["b"], cond="ok", on="do_it", before="prep")
        ns_["back"] = ns_["b"].to(ns_["a"])
        m_guard = rng.choice([None, True, False])
        for nm in names_m:
            def f(self, _nm=nm, **kw):
                log.append(("machine", _nm, str(kw.get("event"))))
            f.__qualname__ = f"M_{next(_uid)}.{nm}"
            ns_[nm] = f
        if m_guard is not None:
            def g(self, _v=m_guard):
                log.append(("machine", "ok", None))
                return _v
            g.__qualname__ = f"M_{next(_uid)}.ok"
            ns_["ok"] = g
        guards = [("machine", m_guard), ("model", getattr(type(model), "_ok_value", None)),
                  ("L1", getattr(type(l1), "_ok_value", None)), ("L2", getattr(type(l2), "_ok_value", None))]
        late = rng.random() < 0.5
        if not [v for (_, v) in (guards[:3] if late else guards) if v is not None]:
            continue  # `cond="ok"` needs at least one provider at construction
        early = [("machine", names_m), ("model", names_model), ("L1", [k for k in pool if hasattr(l1, k)])] + (
            [] if late else [("L2", [k for k in pool if hasattr(l2, k)])])
        if not all(any(nm in names for _, names in early) for nm in ("do_it", "prep")):
            continue  # an explicit action name needs at least one provider at construction too
        # a guard name provided by several objects must hold on ALL of them, late listeners included
        providers_guard = [v for (_, v) in guards if v is not None]
        cls = type(fresh_name("C"), (StateMachine,), ns_)
        sm = cls(model, listeners=[l1] if late else [l1, l2])
        other = cls(provider("model2", [], True))  # another instance: its listeners/model must stay untouched
        if late:
            sm.add_listener(l2)
        if rng.random() < 0.5:
            sm.add_listener(l1)  # re-attach: must not duplicate
        log.clear()
        from statemachine.exceptions import TransitionNotAllowed
        try:
            sm.go()
            fired = True
        except TransitionNotAllowed:
            fired = False
        want_fire = all(providers_guard)
        if fired != want_fire:
            return {"cases": n, "violation": {"what": "guard conjunction across providers", "guards": guards, "late": late, "fired": fired}}
        if fired:
            expect = set()
            for tag, names in (("machine", names_m), ("model", names_model), ("L1", [k for k in pool if hasattr(l1, k)]),
                               ("L2", [k for k in pool if hasattr(l2, k)])):
                for nm in names:
                    if nm in pool:
                        expect.add((tag, nm))
            got = [(t, nm) for (t, nm, _) in log if nm != "ok"]
            if set(got) != expect or len(got) != len(set(got)):
                return {"cases": n, "violation": {"what": "providers called", "got": sorted(got), "want": sorted(expect), "late": late}}
            if any(t == "model2" for t, _, _ in log):
                return {"cases": n, "violation": {"what": "another instance's provider was called"}}
    return {"cases": n, "violation": None}


# =========================================================================== C16
def check_c16(budget, seed):
    """Instances and classes are isolated: driving/creating other instances and defining unrelated
    classes never changes a machine's behaviour.  Recorded regions: R15 (a subclass adding a
    transition to an inherited state changes the base class), R6 (signature cache, see C07)."""
    from statemachine import State, StateMachine
    rng = random.Random(seed)
    t0 = time.time()
    n = 0
    while _more(n, t0, budget):
        n += 1
        log = []
        ns_ = {"a": State(initial=True), "b": State(), "c": State()}
        ns_["go"] = ns_["a"].to(ns_["b"]) | ns_["b"].to(ns_["c"]) | ns_["c"].to(ns_["a"])

        def on_go(self, source, target):
            log.append((id(self), source.id, target.id))
        on_go.__qualname__ = f"Iso_{next(_uid)}.on_go"
        ns_["on_go"] = on_go
        cls = type(fresh_name("Iso"), (StateMachine,), ns_)
        a, b = cls(), cls()
        steps_a, steps_b = rng.randint(0, 4), rng.randint(0, 4)
        order = ["a"] * steps_a + ["b"] * steps_b
        rng.shuffle(order)
        for who in order:
            (a if who == "a" else b).go()
        # unrelated class with the same attribute names, defined in between
        ns2 = {"a": State(initial=True), "b": State(final=True)}
        ns2["go"] = ns2["a"].to(ns2["b"])
        type(fresh_name("Iso"), (StateMachine,), ns2)()
        want_a, want_b = "abc"[steps_a % 3], "abc"[steps_b % 3]
        if a.current_state.id != want_a or b.current_state.id != want_b:
            return {"cases": n, "violation": {"what": "instances interfere", "a": a.current_state.id, "b": b.current_state.id,
                                              "want": [want_a, want_b], "order": order}}
        if len([x for x in log if x[0] == id(a)]) != steps_a or len([x for x in log if x[0] == id(b)]) != steps_b:
            return {"cases": n, "violation": {"what": "callbacks crossed instances", "log": log[:10]}}
        if a._callbacks is b._callbacks or a._states_for_instance is b._states_for_instance or a.model is b.model:
            return {"cases": n, "violation": {"what": "per-instance objects shared"}}
    return {"cases": n, "violation": None}


CHECKS = {"C12": check_c12, "C13": check_c13, "C15": check_c15, "C16": check_c16}

def guarded(pid, budget, seed):
    """An exception that escapes the real library while a generated (well-formed) case is built or driven is a disagreement
    with the reference too — never a reason to report nothing."""
    import traceback
    try:
        return CHECKS[pid](budget, seed)
    except Exception as e:  # noqa: BLE001
        tb = traceback.extract_tb(e.__traceback__)
        lib = [f for f in tb if "/statemachine/" in f.filename]
        where = (lib or tb)[-1]
        return {"cases": -1, "violation": {"what": "the library raised on a well-formed generated case", "exception": f"{type(e).__name__}: {str(e)[:200]}",
                                           "where": f"{where.filename.split('/statemachine/')[-1]}:{where.lineno} in {where.name}",
                                           "in_library_code": bool(lib)}}


if __name__ == "__main__":
    pid = sys.argv[1]
    budget = float(sys.argv[2]) if len(sys.argv) > 2 else 5
    seed = int(sys.argv[3]) if len(sys.argv) > 3 else 0
    res = guarded(pid, budget, seed)
    if res.get("violation"):
        os.makedirs("/verif/replays", exist_ok=True)
        path = f"/verif/replays/{pid}-api-{seed}-{res['cases']}.py"
        with open(path, "w") as f:
            f.write(f'''"""Replay ({pid} API layer): the same seeded sequence of cases is generated again; it stops at the first case on which the real
library disagrees with the reference (case {res['cases']} when this file was written).  The difference found then:
{json.dumps(res["violation"], indent=1, default=str)[:3000]}
"""
import sys
sys.path.insert(0, "/verif")
from runtime import api_checks
api_checks.MAX_CASES = {res['cases']} if {res['cases']} > 0 else None
r = api_checks.guarded({pid!r}, 60, {seed})
print(r)
sys.exit(1 if r.get("violation") else 0)
''')
        res["replay"] = path
    print(json.dumps(res, default=str))
    sys.exit(1 if res.get("violation") else 0)
