"""Contracts of the two engines.  The sync and async functions are bound to the SAME contract
classes (the async binding only sets is_async), which is what makes C05 relational."""
from __future__ import annotations

import z3

from pyvc.core import B, EXC_CODE, Exc, I, NONE, NoneV, O, S, T, Int, Bool, Str, ref_of, truthy, FIRST_ADDR
from pyvc.execu import Contract, LoopSpec, register

from .model import (
    ASYN, BASE, ENV_MODIFIES, GK_ALL, GK_CALL, INITIAL_ID, MATCH, SYNC, W, env_effect, kw_state, locked,
    mstate, others_kept, prefix_kept, qarr, qh, qt, rtc, wf_world,
)


def is_exception(x: Exc):
    """z3 Bool / python bool: the escaping exception is an instance of `Exception`."""
    r = x.is_sub("Exception")
    return z3.BoolVal(r) if isinstance(r, bool) else r


def td_valid(s, td):
    return {
        "td:machine": s.sel("TriggerData.machine", td) == W.SM,
        "td:model": s.sel("TriggerData.model", td) == W.MODEL,
        "td:event-not-none": s.sel("TriggerData.event", td) != NONE,
    }


# =========================================================================== processing_loop
class ProcessingLoop(Contract):
    """C03 / C04 / C06 / C11: the drain loop.

    case (a) rtc and the lock is busy  -> nested call: nothing happens, result None
    case (b) rtc and the lock is free  -> this call drains the queue FIFO, releases the lock
    case (c) not rtc                   -> pops one item and triggers it immediately
    """

    qualnames = [SYNC + "processing_loop"]
    params = [("self", "SyncEngine")]
    returns = "Val"
    raises = True
    modifies = ENV_MODIFIES + ["Lock.locked"]
    properties = ["C03", "C04", "C06", "C11"]

    def pre(self, s, a):
        f = dict(wf_world(s))
        f["self-is-engine"] = a.self.e == W.ENG
        # case (c): the caller has just put an item (an obligation at every call site, see C11)
        f["nonrtc-queue-nonempty"] = z3.Implies(z3.Not(rtc(s)), qh(s) < qt(s))
        f["queue-items-valid"] = queue_items_valid(s)
        return f

    def post(self, s0, s, a, r):
        res = ref_of(r)
        nested = z3.And(rtc(s0), locked(s0))
        outer = z3.And(rtc(s0), z3.Not(locked(s0)))
        nonrtc = z3.Not(rtc(s0))
        n0, h0, t0 = s0.g("ntrig"), qh(s0), qt(s0)
        k = z3.Const("k!pl", Int)
        m = z3.Const("m!pl", Int)
        f = {
            # (a) nested send: queued, not started, returns None
            "nested:returns-None": z3.Implies(nested, res == NONE),
            "nested:nothing-triggered": z3.Implies(nested, z3.And(
                s.g("ntrig") == n0, s.g("ng") == s0.g("ng"), mstate(s) == mstate(s0))),
            "nested:queue-untouched": z3.Implies(nested, z3.And(
                qh(s) == h0, qt(s) == t0, qarr(s) == qarr(s0))),
            "nested:lock-untouched": z3.Implies(nested, locked(s)),
            # (b) outermost call: everything drained, FIFO, lock released
            "outer:queue-drained": z3.Implies(outer, qh(s) == qt(s)),
            "outer:lock-released": z3.Implies(outer, z3.Not(locked(s))),
            "outer:every-item-triggered-once": z3.Implies(outer, s.g("ntrig") - n0 == qt(s) - h0),
            "outer:fifo": z3.Implies(outer, z3.ForAll([k], z3.Implies(
                z3.And(k >= h0, k < qt(s)),
                z3.Select(s.g("trig_log"), n0 + k - h0) == z3.Select(qarr(s), k)))),
            "outer:sent-log-append-only": z3.Implies(outer, z3.And(
                qt(s) >= t0, prefix_kept(qarr(s0), qarr(s), t0))),
            "outer:sentinel-never-escapes": z3.Implies(outer, res != W.SENT),
            "outer:result-is-first-non-sentinel-result": z3.Implies(outer, z3.Or(
                z3.And(res == NONE, z3.ForAll([k], z3.Implies(
                    z3.And(k >= n0, k < s.g("ntrig")),
                    z3.Select(s.g("trig_res"), k) == W.SENT))),
                z3.Exists([m], z3.And(
                    m >= n0, m < s.g("ntrig"), z3.Select(s.g("trig_res"), m) == res,
                    z3.ForAll([k], z3.Implies(z3.And(k >= n0, k < m),
                                              z3.Select(s.g("trig_res"), k) == W.SENT)))))),
            # (c) non-RTC: immediate, depth-first
            "nonrtc:triggers-head-item-now": z3.Implies(nonrtc, z3.And(
                s.g("ntrig") >= n0 + 1, z3.Select(s.g("trig_log"), n0) == z3.Select(qarr(s0), h0))),
            "nonrtc:returns-its-own-result": z3.Implies(nonrtc, z3.Select(s.g("trig_res"), n0) == res),
            "nonrtc:queue-balanced": z3.Implies(nonrtc, qt(s) - qh(s) == t0 - h0 - 1),
            "nonrtc:lock-untouched": z3.Implies(nonrtc, locked(s) == locked(s0)),
        }
        return f

    def exc_post(self, s0, s, a, x):
        nested = z3.And(rtc(s0), locked(s0))
        outer = z3.And(rtc(s0), z3.Not(locked(s0)))
        nonrtc = z3.Not(rtc(s0))
        return {
            "nested:never-raises": z3.Not(nested),
            "outer:lock-released-on-any-exception": z3.Implies(outer, z3.Not(locked(s))),
            "outer:queue-cleared-on-Exception": z3.Implies(z3.And(outer, is_exception(x)), qh(s) == qt(s)),
            "outer:at-least-one-triggered": z3.Implies(outer, s.g("ntrig") > s0.g("ntrig")),
            "nonrtc:queue-balanced": z3.Implies(nonrtc, qt(s) - qh(s) == qt(s0) - qh(s0) - 1),
            "nonrtc:lock-untouched": z3.Implies(nonrtc, locked(s) == locked(s0)),
        }

    def _inv(self, s0, s, a, l):
        n0, h0, t0 = s0.g("ntrig"), qh(s0), qt(s0)
        k = z3.Const("k!inv", Int)
        m = z3.Const("m!inv", Int)
        fr = ref_of(l.first_result)
        return {
            "lock-held": locked(s),
            "cursors": z3.And(h0 <= qh(s), qh(s) <= qt(s), t0 <= qt(s)),
            "sent-log-append-only": prefix_kept(qarr(s0), qarr(s), t0),
            "one-trigger-per-pop": s.g("ntrig") - n0 == qh(s) - h0,
            "fifo": z3.ForAll([k], z3.Implies(
                z3.And(k >= h0, k < qh(s)),
                z3.Select(s.g("trig_log"), n0 + k - h0) == z3.Select(qarr(s), k))),
            "first-result": z3.Or(
                z3.And(fr == W.SENT, z3.ForAll([k], z3.Implies(
                    z3.And(k >= n0, k < s.g("ntrig")), z3.Select(s.g("trig_res"), k) == W.SENT))),
                z3.And(fr != W.SENT, z3.Exists([m], z3.And(
                    m >= n0, m < s.g("ntrig"), z3.Select(s.g("trig_res"), m) == fr,
                    z3.ForAll([k], z3.Implies(z3.And(k >= n0, k < m),
                                              z3.Select(s.g("trig_res"), k) == W.SENT)))))),
            "queue-items-valid": queue_items_valid(s),
            "log-cursors": z3.And(s.g("ntrig") >= 0, s.g("ng") >= 0),
        }

    @property
    def loops(self):
        return {0: LoopSpec(self._inv)}


def queue_items_valid(s):
    k = z3.Const("k!qv", Int)
    td = z3.Select(qarr(s), k)
    return z3.ForAll([k], z3.Implies(
        z3.And(k >= qh(s), k < qt(s)),
        z3.And(td >= FIRST_ADDR, td < s["ghost.alloc"],
               s.sel("TriggerData.machine", td) == W.SM,
               s.sel("TriggerData.model", td) == W.MODEL,
               s.sel("TriggerData.event", td) != NONE)))


@register
class SyncProcessingLoop(ProcessingLoop):
    pass


@register
class AsyncProcessingLoop(ProcessingLoop):
    qualnames = [ASYN + "processing_loop"]
    params = [("self", "AsyncEngine")]
    is_async = True

    def pre(self, s, a):
        f = super().pre(s, a)
        f["async-engine-is-rtc"] = rtc(s)  # AsyncEngine.__init__ rejects rtc=False
        return f


# =========================================================================== _trigger
class Trigger(Contract):
    """C01 (selection), C03 (one log entry per event), C04 (exceptional state), C14 (result)."""

    qualnames = [SYNC + "_trigger"]
    params = [("self", "SyncEngine"), ("trigger_data", "TriggerData")]
    returns = "Val"
    raises = True
    modifies = ENV_MODIFIES
    properties = ["C01", "C03", "C04", "C11", "C14"]

    def pre(self, s, a):
        f = dict(wf_world(s))
        f["self-is-engine"] = a.self.e == W.ENG
        f["rtc-implies-lock-held"] = z3.Implies(rtc(s), locked(s))
        f.update(td_valid(s, a.trigger_data))
        return f

    def ghost_entry(self, path, a):
        n = path.hget("ghost.ntrig")
        path.hset("ghost.trig_log", z3.Store(path.hget("ghost.trig_log"), n, a.trigger_data.e))
        path.hset("ghost.ntrig", n + 1)

    def ghost_exit(self, path, a, r):
        n0 = path.run.init_heap_value("ghost.ntrig")
        path.hset("ghost.trig_res", z3.Store(path.hget("ghost.trig_res"), n0, ref_of(r)))

    def post(self, s0, s, a, r):
        n0 = s0.g("ntrig")
        rl = z3.And(rtc(s0), locked(s0))
        f = {
            "logged": z3.Select(s.g("trig_log"), n0) == a.trigger_data.e,
            "result-logged": z3.Select(s.g("trig_res"), n0) == ref_of(r),
            "rtc:exactly-one-trigger": z3.Implies(rl, z3.And(
                s.g("ntrig") == n0 + 1,
                s.g("trig_log") == z3.Store(s0.g("trig_log"), n0, a.trigger_data.e),
                s.g("trig_res") == z3.Store(s0.g("trig_res"), n0, ref_of(r)))),
            "nonrtc:log-grows": z3.Implies(z3.Not(rtc(s0)), z3.And(
                s.g("ntrig") >= n0 + 1, prefix_kept(s0.g("trig_log"), s.g("trig_log"), n0, "tl2"))),
        }
        f.update(queue_effect(s0, s))
        return f

    def exc_post(self, s0, s, a, x):
        n0 = s0.g("ntrig")
        rl = z3.And(rtc(s0), locked(s0))
        f = {
            "logged": z3.Select(s.g("trig_log"), n0) == a.trigger_data.e,
            "rtc:exactly-one-trigger": z3.Implies(rl, z3.And(
                s.g("ntrig") == n0 + 1,
                s.g("trig_log") == z3.Store(s0.g("trig_log"), n0, a.trigger_data.e))),
            "nonrtc:log-grows": z3.Implies(z3.Not(rtc(s0)), s.g("ntrig") >= n0 + 1),
        }
        f.update(queue_effect(s0, s))
        return f


def queue_effect(s0, s):
    """The part of EnvCB that concerns the queue, as seen through a completed _trigger/_activate."""
    rl = z3.And(rtc(s0), locked(s0))
    return {
        "queue:others-kept": z3.And(others_kept("deque.arr", s0, s, W.Q), others_kept("deque.head", s0, s, W.Q),
                                    others_kept("deque.tail", s0, s, W.Q)),
        "queue:rtc-append-only": z3.Implies(rl, z3.And(
            qh(s) == qh(s0), qt(s) >= qt(s0), prefix_kept(qarr(s0), qarr(s), qt(s0)))),
        "queue:nonrtc-balanced": z3.Implies(z3.Not(rtc(s0)), z3.And(
            qt(s) - qh(s) == qt(s0) - qh(s0), qh(s) >= qh(s0), qh(s) <= qt(s))),
        "queue:items-valid": z3.Implies(queue_items_valid(s0), queue_items_valid(s)),
        "log-cursors": z3.And(s.g("ntrig") >= 0, s.g("ng") >= 0),
    }


@register
class SyncTrigger(Trigger):
    pass


@register
class AsyncTrigger(Trigger):
    qualnames = [ASYN + "_trigger"]
    params = [("self", "AsyncEngine"), ("trigger_data", "TriggerData")]
    is_async = True
