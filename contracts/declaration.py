"""Contracts of the declaration layer (C02 event scoping, C09 internal transitions, C15 builders):
Transition._setup / State._setup, SpecListGrouper.add, the to/from_ builders, add_transitions,
AnyState._on_event_defined."""
from __future__ import annotations

import z3

from pyvc.core import (
    A_II, B, BM, CLASSES, EXC_CODE, Exc, I, NONE, NoneV, O, Py, S, STR_REF, T, Int, Bool, Str, ref_of, truthy, FIRST_ADDR,
    ClassModel, MethodSpec, Unsupported, HEAP_SORTS, fresh,
)
from pyvc.execu import CONTRACTS, GLOBAL_NAMES, CallArgs, Contract, LoopSpec, Raise, register
from pyvc.models import model

from .model import C, INL, valid_obj

CBQ = "statemachine.callbacks:"
TRQ = "statemachine.transition:Transition."
STQ = "statemachine.state:"

SAMEEV = z3.Function("SAME_EVENT_COND", Int, Int)  # the bound method <event>.is_same_event, as a condition object
CLASSES["CondCallable"].from_bound_method = lambda path, bm: (
    O(SAMEEV(bm.recv.e), "CondCallable") if bm.name == "is_same_event" else (_ for _ in ()).throw(Unsupported("bound method as cond")))
CLASSES["Event"].methods["is_same_event"] = C("statemachine.event:Event.is_same_event")
CLASSES["SpecListGrouper"].methods["add"] = C(CBQ + "SpecListGrouper.add")
for _f, _t in (("cond", "Opt[CondCallable]"), ("priority", "int"), ("expected_value", "Val"), ("is_convention", "bool")):
    CLASSES["CallbackSpec"].fields.setdefault(_f, _t)

# CallbackPriority / CallbackGroup values are read from the real enum bodies


def _enum_values(modname, clsname):
    import ast
    from pyvc.core import load_module
    tree = load_module(modname)
    cnode = next(n for n in tree.body if isinstance(n, ast.ClassDef) and n.name == clsname)
    out, auto = {}, 0
    for st in cnode.body:
        if isinstance(st, ast.Assign) and isinstance(st.targets[0], ast.Name):
            if isinstance(st.value, ast.Constant):
                out[st.targets[0].id] = st.value.value
            elif isinstance(st.value, ast.Call) and getattr(st.value.func, "id", "") == "auto":
                auto += 1
                out[st.targets[0].id] = auto
    return out


PRIO = _enum_values("statemachine.callbacks", "CallbackPriority")
GROUP = _enum_values("statemachine.callbacks", "CallbackGroup")
ClassModel("CallbackPriorityEnum", py_fields={k: I(z3.IntVal(v)) for k, v in PRIO.items()})
GLOBAL_NAMES["CallbackPriority"] = Py(("class", "CallbackPriorityEnum"))
GLOBAL_NAMES["CallbackGroup"] = Py(("class", "CallbackGroupEnum"))
ClassModel("CallbackGroupEnum", py_fields={k: O(z3.IntVal(1000 + v), "CallbackGroup") for k, v in GROUP.items()})


def G(name):
    return z3.IntVal(1000 + GROUP[name])


def spec_items(s, specs):
    lst = s.sel("CallbackSpecList.items", specs)
    return s.sel("list.arr", lst), s.sel("list.len", lst)


def has_equal_spec(s, specs, func, group, upto=None):
    arr, n = spec_items(s, specs)
    k = z3.Const("k!hs", Int)
    sp = z3.Select(arr, k)
    return z3.Exists([k], z3.And(k >= 0, k < (n if upto is None else upto), s.sel("CallbackSpec.func", sp) == func,
                                 s.sel("CallbackSpec.group", sp) == group))


@register
class GrouperAdd(Contract):
    """SpecListGrouper.add(name, priority=..., is_convention=..., cond=..., expected_value=...) for ONE
    name — ASSUMED here (body: CallbackSpecList.add/_add): appends a spec with exactly these fields to
    the grouper's list unless a spec with the same func and group is already there."""

    qualnames = [CBQ + "SpecListGrouper.add"]
    params = [("self", "SpecListGrouper"), ("callbacks", "str"), ("priority", "int"), ("is_convention", "bool"),
              ("cond", "Opt[CondCallable]"), ("expected_value", "Val")]
    defaults = {"cond": NoneV(), "expected_value": NoneV(), "is_convention": B(z3.BoolVal(False))}
    returns = "SpecListGrouper"
    modifies = ["list.arr", "list.len", "CallbackSpec.func+", "CallbackSpec.group+", "CallbackSpec.cond+", "CallbackSpec.priority+",
                "CallbackSpec.is_convention+", "CallbackSpec.expected_value+"]
    trusted = True

    def post(self, s0, s, a, r):
        me = a.self.e
        specs = s0.sel("SpecListGrouper.list", me)
        grp = s0.sel("SpecListGrouper.group", me)
        lst = s0.sel("CallbackSpecList.items", specs)
        arr0, n0 = spec_items(s0, specs)
        arr, n = spec_items(s, specs)
        func = STR_REF(a.callbacks.e)
        dup = has_equal_spec(s0, specs, func, grp)
        new = z3.Select(arr, n0)
        o, k = z3.Const("o!ga", Int), z3.Const("k!ga", Int)
        return {
            "returns-self": r.e == me,
            "other-lists-untouched": z3.ForAll([o], z3.Implies(o != lst, z3.And(
                z3.Select(s["list.arr"], o) == z3.Select(s0["list.arr"], o), z3.Select(s["list.len"], o) == z3.Select(s0["list.len"], o)))),
            "nothing-added-or-one-appended-with-these-fields": z3.Or(
                z3.And(n == n0, arr == arr0),
                z3.And(n == n0 + 1, z3.ForAll([k], z3.Implies(z3.And(k >= 0, k < n0), z3.Select(arr, k) == z3.Select(arr0, k)),
                                              patterns=[z3.Select(arr, k)]),
                       new >= s0["ghost.alloc"], new < s["ghost.alloc"], s.sel("CallbackSpec.func", new) == func,
                       s.sel("CallbackSpec.group", new) == grp, s.sel("CallbackSpec.cond", new) == ref_of(a.cond),
                       s.sel("CallbackSpec.priority", new) == a.priority.e, s.sel("CallbackSpec.is_convention", new) == a.is_convention.e,
                       s.sel("CallbackSpec.expected_value", new) == ref_of(a.expected_value))),
            "appended-iff-no-equal-spec-was-there": (n == n0) == dup,
        }

    def assumptions(self):
        return ["SpecListGrouper.add / CallbackSpecList.add / _add: assumed contract (append unless an equal spec exists)"]


def fmt1(shape):
    return z3.Function("fmt<" + shape + ">", Str, Str)


def trans_events(s, t):
    lst = s.sel("Events._items", s.sel("Transition._events", t))
    return s.sel("list.arr", lst), s.sel("list.len", lst)


@register
class TransitionSetup(Contract):
    """Transition._setup (C02): the naming-convention callbacks `before_<e>`, `on_<e>`, `after_<e>` are
    registered for every own event e with `cond = e.is_same_event` — so they run only for the
    triggering event — and the generic before/on/after_transition without condition."""

    qualnames = [TRQ + "_setup"]
    params = [("self", "Transition")]
    returns = "None"
    modifies = GrouperAdd.modifies
    properties = ["C02"]

    def pre(self, s, a):
        t = a.self.e
        specs = s.sel("Transition._specs", t)
        ea, en = trans_events(s, t)
        k = z3.Const("k!tsp", Int)
        gs = {"before": "BEFORE", "on": "ON", "after": "AFTER"}
        f = {"events-valid": z3.And(en >= 0, z3.ForAll([k], z3.Implies(z3.And(k >= 0, k < en), valid_obj(s, z3.Select(ea, k))))),
             "spec-list-valid": z3.And(valid_obj(s, specs), valid_obj(s, s.sel("CallbackSpecList.items", specs)), spec_items(s, specs)[1] >= 0,
                                       s.sel("CallbackSpecList.items", specs) != s.sel("Events._items", s.sel("Transition._events", t)),
                                       valid_obj(s, s.sel("Events._items", s.sel("Transition._events", t))))}
        for attr, gname in gs.items():
            g = s.sel("Transition." + attr, t)
            f[f"{attr}-grouper"] = z3.And(valid_obj(s, g), s.sel("SpecListGrouper.list", g) == specs, s.sel("SpecListGrouper.group", g) == G(gname))
        return f

    def _added_are_scoped(self, s0, s, a):
        """Every spec this call added is a convention spec that is either one of the three generic ones
        (no condition) or named <phase>_<id of an own event e> in that phase's group and carrying
        cond = e.is_same_event — so event-named callbacks run only for the triggering event."""
        t = a.self.e
        specs = s0.sel("Transition._specs", t)
        arr, n = spec_items(s, specs)
        n0 = spec_items(s0, specs)[1]
        ea, en = trans_events(s0, t)
        j, k = z3.Const("j!os", Int), z3.Const("k!os", Int)
        sp = z3.Select(arr, k)
        ev = z3.Select(ea, j)
        func, grp, cond = s.sel("CallbackSpec.func", sp), s.sel("CallbackSpec.group", sp), s.sel("CallbackSpec.cond", sp)
        generic = z3.And(cond == NONE, z3.Or(
            z3.And(func == STR_REF(z3.StringVal("before_transition")), grp == G("BEFORE")),
            z3.And(func == STR_REF(z3.StringVal("on_transition")), grp == G("ON")),
            z3.And(func == STR_REF(z3.StringVal("after_transition")), grp == G("AFTER"))))
        named = z3.Exists([j], z3.And(j >= 0, j < en, cond == SAMEEV(ev), z3.Or(*[
            z3.And(func == STR_REF(fmt1(ph + "_|{}")(s0.sel("Event.id", ev))), grp == G(g))
            for ph, g in (("before", "BEFORE"), ("on", "ON"), ("after", "AFTER"))])))
        return z3.ForAll([k], z3.Implies(z3.And(k >= n0, k < n), z3.And(
            sp >= FIRST_ADDR, sp < s["ghost.alloc"], s.sel("CallbackSpec.is_convention", sp), z3.Or(generic, named))),
            patterns=[z3.Select(arr, k)])

    def _old_kept(self, s0, s, a):
        specs = s0.sel("Transition._specs", a.self.e)
        arr, n = spec_items(s, specs)
        arr0, n0 = spec_items(s0, specs)
        k = z3.Const("k!ok2", Int)
        return z3.And(n >= n0, z3.ForAll([k], z3.Implies(z3.And(k >= 0, k < n0), z3.Select(arr, k) == z3.Select(arr0, k))))

    def _other_lists(self, s0, s, a):
        lst = s0.sel("CallbackSpecList.items", s0.sel("Transition._specs", a.self.e))
        o = z3.Const("o!ol", Int)
        return z3.ForAll([o], z3.Implies(o != lst, z3.And(
            z3.Select(s["list.arr"], o) == z3.Select(s0["list.arr"], o), z3.Select(s["list.len"], o) == z3.Select(s0["list.len"], o))),
            patterns=[z3.Select(s["list.arr"], o), z3.Select(s["list.len"], o)])

    def post(self, s0, s, a, r):
        return {
            "other-lists-untouched": self._other_lists(s0, s, a),
            "C02|every-added-spec-is-generic-or-scoped-to-its-own-event": self._added_are_scoped(s0, s, a),
            "existing-specs-kept": self._old_kept(s0, s, a),
        }

    def _inv(self, s0, s, a, l):
        return {
            "C02|added-so-far-are-generic-or-scoped": self._added_are_scoped(s0, s, a),
            "existing-specs-kept": self._old_kept(s0, s, a),
            "other-lists-untouched": self._other_lists(s0, s, a),
        }

    @property
    def loops(self):
        return {0: LoopSpec(self._inv)}
