"""C05 witness (#11): CallbacksExecutor.async_all starts every guard coroutine, returns at the first
falsy verdict and leaves the others started-but-unfinished; the synchronous twin does not even call
the guards after the first falsy one.  Exit 1 if the defect is present."""
import asyncio
import sys
import warnings

from statemachine import State, StateMachine
from statemachine.exceptions import TransitionNotAllowed

warnings.simplefilter("ignore")
log = []


class AsyncGuards(StateMachine):
    a = State(initial=True)
    b = State()
    go = a.to(b, cond=["quick_no", "slow_yes"])

    async def quick_no(self):
        log.append("quick_no:done")
        return False

    async def slow_yes(self):
        log.append("slow_yes:started")
        for _ in range(10):
            await asyncio.sleep(0)
        log.append("slow_yes:done")
        return True


async def main():
    sm = AsyncGuards()
    await sm.activate_initial_state()
    try:
        await sm.go()
    except TransitionNotAllowed:
        pass
    log.append("send:returned")
    for _ in range(20):
        await asyncio.sleep(0)
    return list(log)


seen = asyncio.run(main())
started = "slow_yes:started" in seen
done_before_return = "slow_yes:done" in seen[: seen.index("send:returned")]
if started and not done_before_return:
    print("C05 VIOLATED: guard coroutine slow_yes was started but the event finished without awaiting it to completion:", seen)
    sys.exit(1)
print("ok", seen)
