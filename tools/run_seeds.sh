#!/bin/bash
# tools/run_seeds.sh [name-prefix] : apply each seeded change to /repo, run the check of the property it breaks, undo.
cd /verif
for d in seeded/${1:-}*/; do
  n=$(basename $d); p=$(python3 -c "import json;print(json.load(open('$d/meta.json'))['property'])")
  out=$(tools/try_patch.sh $PWD/$d/patch.diff $p 2>&1)
  ex=$(echo "$out" | grep -o "exit [0-9]*" | tail -1)
  first=$(echo "$out" | grep -m1 "failed obligation" )
  echo "$n [$p] -> $ex | $first"
done
