"""C07/C16/C05 witness (#6): the process-wide signature cache is keyed by qualified name (+ class name)
and co_varnames only, so two callbacks with the same names but different parameter kinds — or one
sync and one async — share one cached binding.  Exit 1 while the defect is present."""
import sys
from statemachine.signature import SignatureAdapter

bad = []


def make_a():
    def cb(x, y):
        return ("a", x, y)
    return cb


def make_b():
    def cb(x, *, y=0):  # same qualname prefix? no: different factory -> make both share one factory below
        return ("b", x, y)
    return cb


def factory(kind):
    if kind == "pos":
        def cb(x, y):
            return ("pos", x, y)
    else:
        def cb(x, *, y=0):
            return ("kwonly", x, y)
    return cb


SignatureAdapter.from_callable.clear_cache()
f1, f2 = factory("pos"), factory("kw")
s1 = SignatureAdapter.from_callable(f1)
s2 = SignatureAdapter.from_callable(f2)
if s1 is s2:
    bad.append("two functions with the same qualified name and variable names but different parameter kinds share one cached signature")
try:
    ba = s2.bind_expected(1, 2)
    got = f2(*ba.args, **ba.kwargs)
    if got != ("kwonly", 1, 0):
        bad.append(f"f2 bound through the shared entry received {got!r}")
except TypeError as e:
    bad.append(f"f2 bound through the shared entry raised TypeError: {e}")


def factory2(is_async):
    if is_async:
        async def audit(self):
            return 1
    else:
        def audit(self):
            return 1
    return audit


SignatureAdapter.from_callable.clear_cache()
a_sync = SignatureAdapter.from_callable(factory2(False))
a_async = SignatureAdapter.from_callable(factory2(True))
if not a_async.is_coroutine:
    bad.append("an async callback is classified as sync because a same-named sync one was cached first")
SignatureAdapter.from_callable.clear_cache()
if bad:
    print("C07/C16 VIOLATED (recorded finding):", "; ".join(bad))
    sys.exit(1)
print("ok")
