"""C18, bounded layer (labelled bounded, never counted as proved): the pydot graph that the REAL DotGraphMachine builds
for random small machines (classes, and instances in every state a random walk reaches) is compared with what the
property says the picture must contain:

  * exactly one node per state (named by its id) plus the initial pseudo-node "i" with one edge i -> initial state,
  * exactly one edge per external transition, from source id to target id, whose label carries the transition's events
    and its guards (`unless` guards marked with "!"); several transitions between the same two states are several edges,
  * internal transitions are not edges: they are listed in their state's label,
  * final states have peripheries 2, the others 1,
  * for an instance exactly the current state is highlighted (active fill colour / pen width), for a class none is.
"""
from __future__ import annotations

import itertools
import json
import os
import random
import sys
import time
import warnings

warnings.simplefilter("ignore")
_uid = itertools.count()


def gen_spec(rng):
    n = rng.randint(2, 4)
    ids = [f"s{k}" for k in range(n)]
    final = ids[-1] if rng.random() < 0.5 else None
    vals = rng.choice(["ids", "ints", "falsy"])
    value = {s: {"ids": s, "ints": k, "falsy": [0, "", "x", 5][k]}[vals] for k, s in enumerate(ids)}
    evs = [f"e{k}" for k in range(rng.randint(1, 3))]
    T = []
    for k in range(n - 1):
        T.append({"events": [rng.choice(evs)], "src": ids[k], "dst": ids[k + 1], "cond": [], "unless": [], "internal": False})
    if final is None:
        T.append({"events": [rng.choice(evs)], "src": ids[-1], "dst": ids[0], "cond": [], "unless": [], "internal": False})
    for _ in range(rng.randint(0, 4)):
        src = rng.choice([i for i in ids if i != final])
        dst = rng.choice(ids)
        internal = (src == dst) and rng.random() < 0.5
        T.append({"events": sorted(set(rng.sample(evs, min(len(evs), rng.choice([1, 1, 2]))))), "src": src, "dst": dst,
                  "cond": rng.choice([[], [], ["ok"], ["ok", "fine"]]), "unless": rng.choice([[], [], ["blocked"]]), "internal": internal})
    return {"ids": ids, "final": final, "value": value, "events": evs, "transitions": T,
            "enter": [s for s in ids if rng.random() < 0.4], "exit": [s for s in ids if s != final and rng.random() < 0.3],
            "walk": [rng.choice(evs) for _ in range(rng.randint(0, 5))]}


def build(spec):
    from statemachine import State, StateMachine
    name = f"D{next(_uid)}"
    ns = {}
    st = {}
    for k, s in enumerate(spec["ids"]):
        kw = {}
        if s in spec.get("enter", []):
            kw["enter"] = "noted"
        if s in spec.get("exit", []):
            kw["exit"] = "noted"
        st[s] = State(value=spec["value"][s], initial=(k == 0), final=(s == spec["final"]), **kw)
        ns[s] = st[s]
    for t in spec["transitions"]:
        kw = {"event": " ".join(t["events"])}
        if t["cond"]:
            kw["cond"] = list(t["cond"])
        if t["unless"]:
            kw["unless"] = list(t["unless"])
        if t["internal"]:
            kw["internal"] = True
            kw["on"] = "noted"
        st[t["src"]].to(st[t["dst"]], **kw)
    ns["ok"] = True
    ns["fine"] = True
    ns["blocked"] = False

    def noted(self):
        pass
    noted.__qualname__ = f"{name}.noted"
    ns["noted"] = noted
    return type(name, (StateMachine,), ns)


def picture(graph):
    nodes, edges = [], []
    for n in graph.get_nodes():
        a = n.get_attributes()
        nodes.append({"name": n.get_name().strip('"'), "label": str(a.get("label", "")).strip('"'), "peripheries": str(a.get("peripheries", "")),
                      "fillcolor": str(a.get("fillcolor", "")).strip('"'), "penwidth": str(a.get("penwidth", ""))})
    for e in graph.get_edges():
        a = e.get_attributes()
        edges.append({"src": str(e.get_source()).strip('"'), "dst": str(e.get_destination()).strip('"'), "label": str(a.get("label", "")).strip('"')})
    return nodes, edges


def check_graph(spec, machine, graph, current):
    """-> None or a description of what the picture gets wrong.  `current`: id of the current state (instances) or None."""
    from statemachine.contrib.diagram import DotGraphMachine
    nodes, edges = picture(graph)
    ids = spec["ids"]
    names = sorted(n["name"] for n in nodes)
    if names != sorted(ids + ["i"]):
        return f"nodes {names}, expected one per state plus 'i': {sorted(ids + ['i'])}"
    init_edges = [e for e in edges if e["src"] == "i"]
    if [(e["src"], e["dst"]) for e in init_edges] != [("i", ids[0])]:
        return f"initial pseudo-node edges {init_edges}, expected exactly i -> {ids[0]}"
    ext = [t for t in spec["transitions"] if not t["internal"]]
    want = sorted((t["src"], t["dst"], " ".join(t["events"]), tuple(t["cond"]), tuple(t["unless"])) for t in ext)
    got = []
    for e in edges:
        if e["src"] == "i":
            continue
        label = e["label"].replace("\\n", "\n")
        head, _, guards = label.partition("\n")
        guards = guards.strip().strip("[]")
        gl = [g.strip() for g in guards.split(",") if g.strip()]
        got.append((e["src"], e["dst"], head.strip(), tuple(g for g in gl if not g.startswith("!")), tuple(g[1:] for g in gl if g.startswith("!"))))
    if sorted(got) != want:
        return f"edges {sorted(got)}, expected one per external transition: {want}"
    active_fill = DotGraphMachine.state_active_fillcolor
    for n in nodes:
        if n["name"] == "i":
            continue
        per = "2" if n["name"] == spec["final"] else "1"
        if n["peripheries"] != per:
            return f"state {n['name']}: peripheries {n['peripheries']!r}, expected {per}"
        highlighted = n["fillcolor"] == active_fill
        if highlighted != (n["name"] == current):
            return f"state {n['name']}: highlighted={highlighted} but current state is {current!r}"
        internals = [t for t in spec["transitions"] if t["internal"] and t["src"] == n["name"]]
        label = n["label"].replace("\\n", "\n")
        for t in internals:
            want = " ".join(t["events"]) + " / noted"
            if want not in label:
                return f"state {n['name']}: internal transition is not listed as {want!r} in its label {n['label']!r}"
        for phase, key in (("entry", "enter"), ("exit", "exit")):
            has = n["name"] in spec.get(key, [])
            line = next((ln for ln in label.split("\n") if ln.startswith(phase + " / ")), None)
            if has and (line is None or "noted" not in line or "!noted" in line):
                return f"state {n['name']}: its {phase} action `noted` is drawn as {line!r} (label {n['label']!r})"
            if not has and line is not None and "noted" in line:
                return f"state {n['name']}: an {phase} action is drawn that the state does not have: {line!r}"
    return None


def run_spec(spec):
    from statemachine.contrib.diagram import DotGraphMachine
    from statemachine.exceptions import InvalidDefinition
    try:
        cls = build(spec)
    except InvalidDefinition:
        return "skip"
    try:
        d = check_graph(spec, cls, DotGraphMachine(cls).get_graph(), None)
        if d:
            return {"what": "class diagram: " + d}
        sm = cls()
        for step, ev in enumerate([None] + list(spec["walk"])):
            if ev is not None:
                try:
                    sm.send(ev)
                except Exception:  # noqa: BLE001
                    pass
            # both ways of asking for an instance's picture: the documented DotGraphMachine(sm) and sm._graph()
            for how, graph in (("DotGraphMachine(sm)", DotGraphMachine(sm).get_graph()), ("sm._graph()", sm._graph())):
                d = check_graph(spec, sm, graph, sm.current_state.id)
                if d:
                    return {"what": f"instance diagram via {how} after {step} events (current state {sm.current_state.id}, "
                                    f"value {sm.current_state_value!r}): " + d}
    except Exception as e:  # noqa: BLE001
        return {"what": f"drawing raised {type(e).__name__}: {str(e)[:160]}"}
    return None


MIN_CASES = 2500  # a loaded machine does not shrink what is explored (time cap: 10x the budget)


def run(limit_s, seed):
    rng = random.Random(seed)
    t0 = time.time()
    n = skipped = 0
    while time.time() - t0 < limit_s or (n < MIN_CASES and time.time() - t0 < 10 * limit_s):
        spec = gen_spec(rng)
        r = run_spec(spec)
        if r == "skip":
            skipped += 1
            continue
        n += 1
        if r:
            return {"cases": n, "violation": {"spec": spec, "difference": r}}
    return {"cases": n, "skipped_invalid_definitions": skipped, "violation": None, "seconds": round(time.time() - t0, 1)}


REPLAY = '''"""Replay (C18 bounded layer): the generated diagram is not a faithful picture of this machine."""
import json, sys
sys.path.insert(0, "/verif")
from runtime import diagram_check
spec = json.loads({spec!r})
diff = diagram_check.run_spec(spec)
print("machine", spec)
print("difference", diff)
sys.exit(1 if diff and diff != "skip" else 0)
'''

if __name__ == "__main__":
    limit = float(sys.argv[1]) if len(sys.argv) > 1 else 10
    seed = int(sys.argv[2]) if len(sys.argv) > 2 else 0
    res = run(limit, seed)
    if res["violation"]:
        os.makedirs("/verif/replays", exist_ok=True)
        sp = json.dumps(res["violation"]["spec"])
        path = f"/verif/replays/C18-diagram-{abs(hash(sp)) % 10**8}.py"
        open(path, "w").write(REPLAY.format(spec=sp))
        res["replay"] = path
    print(json.dumps(res, default=str))
    sys.exit(1 if res["violation"] else 0)
