"""Per-property wiring: lemmas, frame scans, bounded stand-ins, replay search, assumptions.
Which functions a property depends on comes from `Contract.properties`; which obligations of
those functions count for it comes from the `Cxx|` tags in obligation labels (untagged
obligations — callee preconditions, frames, well-formedness — count for every property of the
function)."""
from __future__ import annotations

COMMON_ASSUMPTIONS = [
    "EnvCB (DESIGN 3.4): user callbacks touch engine state only through the public API; in RTC mode with the lock held a nested send only appends to the queue",
    "WF(cls) (DESIGN 3.3): transition lists hold pairwise distinct well-formed transitions; state values are pairwise distinct and mapped",
    "single-machine world: contracts speak about one machine/engine/registry/model; other machines are covered by the frame",
    "termination is not proved (partial correctness)",
    "left-to-right evaluation order, id() injective on live objects, weakref.proxy/ref transparent (DESIGN 2.3)",
]

def _lemmas_cnt():
    from contracts.callbacks import lemma_cnt_monotone
    return lemma_cnt_monotone()


def _lemma_not_wedged():
    """C04: after a failed outermost drain the engine satisfies the precondition of the next
    outermost call again (lock free, queue empty), so the next event is processed normally."""
    import z3
    from pyvc.core import Exc, Obligation, O, Run, StateView, fresh, Int
    from types import SimpleNamespace
    from contracts.engines import SyncProcessingLoop, is_exception
    from contracts.model import W, locked, qh, qt, rtc
    c = SyncProcessingLoop()
    run = Run("lemma")
    s0, s1 = StateView(run, {}), StateView(Run("lemma1"), {})
    # two unrelated symbolic heaps: give the second its own constants
    run1 = s1._run
    a = SimpleNamespace(self=O(W.ENG, "SyncEngine"))
    tag = fresh("tag", Int)
    x = Exc(tag, {})
    outer = z3.And(rtc(s0), z3.Not(locked(s0)))
    pre = list(c.pre(s0, a).values())
    frame = [s1["Engine._rtc"] == s0["Engine._rtc"]]
    exc_post = list(c.exc_post(s0, s1, a, x).values())
    goal = z3.And(rtc(s1), z3.Not(locked(s1)), qh(s1) == qt(s1))
    return [Obligation("lemma:C04|not-wedged/exc-post-of-outer-drain-reestablishes-outer-precondition", "lemma", "lemma",
                       pre + frame + exc_post + [outer, is_exception(x)], goal)]


def _scans_engine():
    from . import scans
    return scans.scan_state_field_writers() + scans.scan_queue_mutators() + scans.scan_lock_operations()


PROPERTIES = {
    "C01": {"scans": [_scans_engine]},
    "C02": {"lemmas": [_lemmas_cnt], "scans": [_scans_engine]},
    "C03": {"scans": [_scans_engine]},
    "C04": {"lemmas": [_lemma_not_wedged], "scans": [_scans_engine]},
    "C14": {},
    "C05": {"assumptions": [
        "asyncio.gather / as_completed / run_async_from_sync: assumed contracts (pyvc/models.py); the order of effects inside one callback group is left unconstrained, as documented",
        "relational reading: sync and async functions are verified against the SAME contract classes"]},
    "C10": {"scans": [_scans_engine]},
    "C11": {},
    "C13": {},
    "C07": {"lemmas": [lambda: __import__("contracts.signature", fromlist=["x"]).scan_signature_cache_key()],
            "assumptions": ["inspect.Signature validity (kind order, distinct names) as a precondition of bind_expected",
                            "inspect.BoundArguments.args/.kwargs (how a binding is turned into a call) are CPython's",
                            "callable_method / attr_method / event_method adapters (dispatcher.py) are not under contract yet"]},
    "C09": {"assumptions": [
        "REACH is the least relation closed under 'start' and 'transition target': the induction principle is applied once, to the set yielded by visit_connected_states (Visit.derived); closedness of that set is a discharged postcondition",
        "State objects are compared by identity in sets/dicts (State.__hash__/__eq__ consistent, (name,id) pairs distinct)",
        "cls.states / cls.final_states / cls.initial_state as set up by StateMachineMetaclass.__init__ (class_wf)"]},
}
