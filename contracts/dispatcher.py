"""Contracts of statemachine/dispatcher.py (C12): how callback names are looked up on the providers
(machine, model, listeners)."""
from __future__ import annotations

import z3

from pyvc.core import (
    A_II, B, BM, CLASSES, EXC_CODE, Exc, I, NONE, NoneV, O, Py, S, STR_REF, T, Int, Bool, Str, ref_of, truthy, FIRST_ADDR,
    ClassModel, MethodSpec, Unsupported, HEAP_SORTS, fresh,
)
from pyvc.execu import BUILTINS, CONTRACTS, GLOBAL_NAMES, CallArgs, Contract, LoopSpec, Raise, register
from pyvc.models import model

from .model import C, INL, valid_obj

DPQ = "statemachine.dispatcher:"
ATTR2 = z3.Function("ATTR_OF", Int, Str, Int)  # getattr(obj, name)
CALLABLE = z3.Function("CALLABLE", Int, Bool)
KIND_ATTR, KIND_EVENT, KIND_CALLABLE = 1, 2, 3

ClassModel("Listener", fields={"obj": "Val", "all_attrs": "sset", "resolver_id": "str"},
           methods={"build_key": INL(DPQ + "Listener.build_key")})
CONTRACTS[DPQ + "Listener.build_key"] = type("InlBuildKey", (Contract,), {"qualnames": [DPQ + "Listener.build_key"], "inline": True})()
ClassModel("Listeners", fields={"items": "list[Listener]", "all_attrs": "sset"})
ClassModel("Builder", fields={"kind": "int", "target": "Val", "attr": "str"})


def _val_getattr(ex, path, obj, name, default, node):
    if not isinstance(name, S):
        raise Unsupported("getattr(<provider>, <non-str>)")
    return [(path, O(ATTR2(obj.e, name.e), "Val"))]


CLASSES["Val"].getattr_fn = _val_getattr
CLASSES["Val"].callable_fn = lambda path, v: CALLABLE(v.e)


def _partial(ex, path, ca, node):
    """functools.partial(attr_method | event_method | callable_method, ...): a deferred adapter
    constructor, described by which adapter and on what."""
    f = ca.pos[0]
    if not (isinstance(f, Py) and f.obj[0] == "adapter"):
        raise Unsupported("partial of a non-adapter")
    b = path.alloc("Builder", "builder")
    kind = {"attr_method": KIND_ATTR, "event_method": KIND_EVENT, "callable_method": KIND_CALLABLE}[f.obj[1]]
    path.store("Builder.kind", b.e, z3.IntVal(kind))
    if kind == KIND_ATTR:
        path.store("Builder.attr", b.e, ca.pos[1].e)
        path.store("Builder.target", b.e, ref_of(ca.pos[2]))
    else:
        path.store("Builder.target", b.e, ref_of(ca.pos[1]))
    return [(path, b)]


BUILTINS["partial"] = _partial
GLOBAL_NAMES["partial"] = Py(("builtin", "partial"))
for _a in ("attr_method", "event_method", "callable_method"):
    GLOBAL_NAMES[_a] = Py(("adapter", _a))

NPROV = z3.Function("NPROV", Int, Str, Int, Int)  # NPROV(listeners, name, i): providers of `name` among the first i


def providers(s, ls):
    lst = s.sel("Listeners.items", ls)
    return s.sel("list.arr", lst), s.sel("list.len", lst)


def provides(s, l, name):
    return z3.Select(s.sel("sset.has", s.sel("Listener.all_attrs", l)), name)


def nprov_definition(s, ls, name):
    arr, n = providers(s, ls)
    i, i1, i2 = z3.Const("i!np", Int), z3.Const("i1!np", Int), z3.Const("i2!np", Int)
    return z3.And(
        NPROV(ls, name, 0) == 0,
        z3.ForAll([i], z3.Implies(z3.And(i >= 0, i < n), NPROV(ls, name, i + 1) == NPROV(ls, name, i) + z3.If(provides(s, z3.Select(arr, i), name), 1, 0)),
                  patterns=[NPROV(ls, name, i)]),
        z3.ForAll([i1, i2], z3.Implies(z3.And(0 <= i1, i1 <= i2, i2 <= n), NPROV(ls, name, i1) <= NPROV(ls, name, i2)),
                  patterns=[z3.MultiPattern(NPROV(ls, name, i1), NPROV(ls, name, i2))]))


def key_of(s, l, name):
    return z3.Function("fmt<{}|@|{}>", Str, Str, Str)(name, s.sel("Listener.resolver_id", l))


@register
class SearchName(Contract):
    """Listeners.search_name(name) (C12): EVERY provider that has the name contributes exactly one
    (key, builder) pair, in provider order; the pair depends on that provider alone (its id in the key,
    its attribute in the builder) — the statement is symmetric in the providers, the machine being
    merely provider 0."""

    qualnames = [DPQ + "Listeners.search_name"]
    params = [("self", "Listeners"), ("name", "str")]
    returns = "None"
    generator = True
    modifies = ["ghost.ylog", "ghost.ylog2", "ghost.ny", "Builder.kind+", "Builder.target+", "Builder.attr+"]
    properties = ["C12"]

    def pre(self, s, a):
        arr, n = providers(s, a.self.e)
        i = z3.Const("i!snp", Int)
        return {"providers-valid": z3.And(n >= 0, valid_obj(s, s.sel("Listeners.items", a.self.e)), z3.ForAll([i], z3.Implies(
            z3.And(i >= 0, i < n), valid_obj(s, z3.Select(arr, i))))), "fresh-output": s.g("ny") == 0}

    def reveal(self, s, a):
        return {"NPROV-definition": nprov_definition(s, a.self.e, a.name.e)}

    def _yielded(self, s0, s, a, upto):
        arr, n = providers(s0, a.self.e)
        i = z3.Const("i!sny", Int)
        l = z3.Select(arr, i)
        pos = NPROV(a.self.e, a.name.e, i)
        b = z3.Select(s.g("ylog2"), pos)
        func = ATTR2(s0.sel("Listener.obj", l), a.name.e)
        is_event = z3.And(func != NONE, z3.Function("IS_BOUND_EVENT_OBJ", Int, Bool)(func))
        return z3.ForAll([i], z3.Implies(z3.And(i >= 0, i < upto, provides(s0, l, a.name.e)), z3.And(
            z3.Select(s.g("ylog"), pos) == STR_REF(key_of(s0, l, a.name.e)),
            b >= s0["ghost.alloc"], b < s["ghost.alloc"],
            s.sel("Builder.kind", b) == z3.If(z3.Not(CALLABLE(func)), KIND_ATTR, z3.If(is_event, KIND_EVENT, KIND_CALLABLE)),
            s.sel("Builder.target", b) == z3.If(z3.Not(CALLABLE(func)), s0.sel("Listener.obj", l), func))),
            patterns=[NPROV(a.self.e, a.name.e, i)])

    def post(self, s0, s, a, r):
        n = providers(s0, a.self.e)[1]
        return {
            "C12|one-pair-per-provider-that-has-the-name": s.g("ny") == NPROV(a.self.e, a.name.e, n),
            "C12|in-provider-order-each-from-its-own-provider": self._yielded(s0, s, a, n),
        }

    def _inv(self, s0, s, a, l):
        return {
            "C12|count-so-far": z3.And(s.g("ny") == NPROV(a.self.e, a.name.e, l.i), s.g("ny") >= 0),
            "C12|yielded-so-far": self._yielded(s0, s, a, l.i),
        }

    @property
    def loops(self):
        return {0: LoopSpec(self._inv)}


def lemma_nprov_monotone():
    """Induction for: 0 <= i1 <= i2 <= n  =>  NPROV(i1) <= NPROV(i2), from the recursive definition."""
    from pyvc.core import Obligation
    ls, n = z3.Ints("ls!l n!l")
    name = z3.Const("name!l", Str)
    i, i1, i2 = z3.Ints("i!l i1!l i2!l")
    has = z3.Function("provides!l", Int, Bool)
    defn = z3.ForAll([i], z3.Implies(z3.And(i >= 0, i < n), NPROV(ls, name, i + 1) == NPROV(ls, name, i) + z3.If(has(i), 1, 0)),
                     patterns=[NPROV(ls, name, i)])
    return [
        Obligation("lemma:nprov-monotone/base", "lemma", "lemma", [defn, i1 >= 0, i1 <= n], NPROV(ls, name, i1) <= NPROV(ls, name, i1)),
        Obligation("lemma:nprov-monotone/step", "lemma", "lemma",
                   [defn, 0 <= i1, i1 <= i2, i2 + 1 <= n, NPROV(ls, name, i1) <= NPROV(ls, name, i2)],
                   NPROV(ls, name, i1) <= NPROV(ls, name, i2 + 1)),
    ]
