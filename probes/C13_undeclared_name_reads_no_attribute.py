"""Probe (C13, bounded): a name passed to send() that is not a declared event is an unknown event; it is not even LOOKED UP
on the machine, so a property of that name (a getter with an effect, a getter that raises) is never evaluated, strict or
tolerant.  Concrete companion of the obligation `C13|a-name-that-is-not-a-declared-event-is-never-looked-up-on-the-machine`.
Exit 1 = violated."""
import sys

from statemachine import State, StateMachine
from statemachine.exceptions import TransitionNotAllowed


class DoorC13p(StateMachine):
    closed = State(initial=True)
    opened = State()
    open_door = closed.to(opened)
    close_door = opened.to(closed)

    def __init__(self, *args, **kwargs):
        self.reads = 0
        super().__init__(*args, **kwargs)

    @property
    def audit_probe_c13p(self):
        self.reads += 1
        return self.reads

    @property
    def remote_status_c13p(self):
        raise RuntimeError("backend not reachable")


problems = []
for tolerant in (False, True):
    sm = DoorC13p(allow_event_without_transition=tolerant)
    for name in ("audit_probe_c13p", "remote_status_c13p"):
        try:
            r = sm.send(name)
            if not tolerant:
                problems.append(f"strict send({name!r}) returned {r!r} instead of raising TransitionNotAllowed")
            elif r is not None:
                problems.append(f"tolerant send({name!r}) returned {r!r}")
        except TransitionNotAllowed:
            if tolerant:
                problems.append(f"tolerant send({name!r}) raised TransitionNotAllowed")
        except Exception as e:  # noqa: BLE001
            problems.append(f"send({name!r}) evaluated a property of the machine: {type(e).__name__}: {e}")
    if sm.reads:
        problems.append(f"send() evaluated a property getter {sm.reads}x (tolerant={tolerant})")
    if sm.current_state.id != "closed":
        problems.append("state changed")
    sm.send("open_door")
    if sm.current_state.id != "opened":
        problems.append("declared event did not fire")
if problems:
    print("C13 probe: " + "; ".join(problems))
    sys.exit(1)
print("OK")
