"""Probe (C14/C02, bounded): an attribute of the machine that is a State (or an event) is never taken for a
naming-convention callback, however it is named: a state called `on_hold` next to an event `hold`, a state `before_ship`
next to `ship`.  Such events have no before/on callbacks and return None.  Exit 1 = violated."""
import sys

from statemachine import State, StateMachine


class CallsC14p(StateMachine):
    talking = State(initial=True)
    on_hold = State()
    before_end = State()
    ended = State(final=True)

    hold = talking.to(on_hold)
    resume = on_hold.to(talking)
    end = talking.to(before_end)
    finish = before_end.to(ended)


problems = []
sm = CallsC14p()
for event, state in (("hold", "on_hold"), ("resume", "talking"), ("hold", "on_hold"), ("resume", "talking"), ("end", "before_end"), ("finish", "ended")):
    r = sm.send(event)
    if r is not None:
        problems.append(f"send({event!r}) returned {r!r}; the event has no before/on callbacks, expected None")
    if sm.current_state.id != state:
        problems.append(f"after {event!r}: state {sm.current_state.id!r}, expected {state!r}")
for p in problems:
    print("VIOLATED:", p)
print("ok" if not problems else f"{len(problems)} problems")
sys.exit(1 if problems else 0)
