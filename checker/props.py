"""Per-property wiring: lemmas, frame scans, bounded stand-ins, replay search, assumptions.
Which functions a property depends on comes from `Contract.properties`; which obligations of
those functions count for it comes from the `Cxx|` tags in obligation labels (untagged
obligations — callee preconditions, frames, well-formedness — count for every property of the
function)."""
from __future__ import annotations

COMMON_ASSUMPTIONS = [
    "EnvCB (DESIGN 3.4): user callbacks touch engine state only through the public API; in RTC mode with the lock held a nested send only appends to the queue",
    "WF(cls) (DESIGN 3.3): transition lists hold pairwise distinct well-formed transitions; state values are pairwise distinct and mapped",
    "single-machine world: contracts speak about one machine/engine/registry/model; other machines are covered by the frame",
    "termination is not proved (partial correctness)",
    "left-to-right evaluation order, id() injective on live objects, weakref.proxy/ref transparent (DESIGN 2.3)",
]

def _lemmas_cnt():
    from contracts.callbacks import lemma_cnt_monotone
    return lemma_cnt_monotone()


def _lemma_not_wedged():
    """C04: after a failed outermost drain the engine satisfies the precondition of the next
    outermost call again (lock free, queue empty), so the next event is processed normally."""
    import z3
    from pyvc.core import Exc, Obligation, O, Run, StateView, fresh, Int
    from types import SimpleNamespace
    from contracts.engines import SyncProcessingLoop, is_exception
    from contracts.model import W, locked, qh, qt, rtc
    c = SyncProcessingLoop()
    run = Run("lemma")
    s0, s1 = StateView(run, {}), StateView(Run("lemma1"), {})
    # two unrelated symbolic heaps: give the second its own constants
    run1 = s1._run
    a = SimpleNamespace(self=O(W.ENG, "SyncEngine"))
    tag = fresh("tag", Int)
    x = Exc(tag, {})
    outer = z3.And(rtc(s0), z3.Not(locked(s0)))
    pre = list(c.pre(s0, a).values())
    frame = [s1["Engine._rtc"] == s0["Engine._rtc"]]
    exc_post = list(c.exc_post(s0, s1, a, x).values())
    goal = z3.And(rtc(s1), z3.Not(locked(s1)), qh(s1) == qt(s1))
    return [Obligation("lemma:C04|not-wedged/exc-post-of-outer-drain-reestablishes-outer-precondition", "lemma", "lemma",
                       pre + frame + exc_post + [outer, is_exception(x)], goal)]


def scenario_layer(pid, quick_s=8, thorough_s=120):
    """Bounded stand-in / cross-check (DESIGN 2.7): random small machines (<= 3 states, <= 5 transitions,
    <= 2 events, guards/validators/actions/faults/nested sends, rtc x allow x sync/async, histories <= 4)
    run on the real library and compared with the reference interpreter.  Never counted as proved."""
    import json as _json

    def run(tier, seed, run_native):
        budget = thorough_s if tier == "thorough" else quick_s
        rc, out, err = run_native(["-m", "runtime.scenario", pid, str(budget), str(seed)], timeout=budget * 12 + 300)
        try:
            res = _json.loads(out.strip().splitlines()[-1])
        except Exception:
            return {"what": "scenario layer", "error": (err or out)[-400:], "violations": []}
        r = {"what": "scenario layer: real library vs reference interpreter on random small machines (bounded, not a proof)",
             "bound": "<=3 states, <=5 transitions, <=2 events, history <=4, one fault, <=2 nested sends per callback",
             "evaluations": res["evaluations"], "distinct": res["distinct"], "skipped_non_terminating": res.get("skipped_runaway", 0),
             "seconds": res["seconds"], "violations": []}
        if res.get("found"):
            r["violations"].append({"name": f"bounded:{pid}:scenario-disagrees-with-reference", "replay": res["replay"],
                                    "difference": res["difference"]})
        return r
    return run


def scenario_search(pid, budget_s=25):
    def run(failing, tier, seed, run_native):
        import json as _json
        rc, out, err = run_native(["-m", "runtime.scenario", pid, str(budget_s), str(seed + 7)], timeout=budget_s * 3 + 60)
        try:
            res = _json.loads(out.strip().splitlines()[-1])
        except Exception:
            return None
        return res.get("replay")
    return run


def expr_layer(quick_budget=4, thorough_budget=5):
    """C08 lexical layer, bounded (DESIGN 4.C08): all well-formed expressions up to a token budget."""
    import json as _json

    def run(tier, seed, run_native):
        budget, limit = (thorough_budget, 400) if tier == "thorough" else (quick_budget, 60)
        rc, out, err = run_native(["-m", "runtime.expr_enum", str(budget), str(limit)], timeout=limit * 12 + 300)
        try:
            res = _json.loads(out.strip().splitlines()[-1])
        except Exception:
            return {"what": "C08 lexical layer", "error": (err or out)[-400:], "violations": []}
        r = {"what": "C08 lexical layer (text -> AST): every well-formed expression of the documented grammar up to the token "
                     "budget, 3 spacings x 2 operator spellings, all valuations, real parse_boolean_expr vs CPython eval (bounded, not a proof)",
             "bound": f"<= {budget} tokens over names {{a, v1, nova, not_x}}, literals {{True, 0, 1, 'v', 'a^b'}}, 6 comparisons, not/and/or, parentheses",
             "evaluations": res["cases"], "distinct": res["expressions"], "exhaustive": res.get("exhaustive", False),
             "known_region_hits": res["known_region_hits"], "seconds": res.get("seconds"), "violations": []}
        if res.get("violation"):
            r["violations"].append({"name": "bounded:C08:expression-disagrees-with-python", "replay": res.get("replay"),
                                    "difference": res["violation"]})
        for reg, hits in res["known_region_hits"].items():
            if hits:
                r["violations"].append({"name": f"bounded:C08:lexical-region-{reg}", "replay": None, "difference": f"{hits} disagreements in region {reg}"})
        return r
    return run


def sig_layer(pid="C07", quick_s=20, thorough_s=400):
    """C07 end-to-end layer, bounded (runtime/sig_enum.py): callbacks of every small signature shape on a real machine."""
    import json as _json

    def run(tier, seed, run_native):
        limit, mx = (thorough_s, 3) if tier == "thorough" else (quick_s, 2)
        rc, out, err = run_native(["-m", "runtime.sig_enum", str(limit), str(seed), str(mx)], timeout=limit * 12 + 300)
        try:
            res = _json.loads(out.strip().splitlines()[-1])
        except Exception:
            return {"what": f"{pid} signature end-to-end layer", "error": (err or out)[-400:], "violations": []}
        r = {"what": "C07 end-to-end layer: callbacks of every small signature shape (positional-only / positional-or-keyword / keyword-only, "
                     "with and without defaults, *args, **kwargs) attached as function, method, functools.partial and coroutine, plus lambdas of one "
                     "class body, closures of one factory and the event's own kwargs across phases, on a REAL machine vs an executable reading of "
                     "the property (bounded, not a proof)",
             "bound": f"<= {mx} named parameters over 6 names (3 of them built-in names), 0-3 positional arguments x 5 keyword sets, send() and direct call; "
                      f"time budget {limit}s (shapes shuffled by seed; exhaustive only if reported so); region PO-by-keyword excluded",
             "evaluations": res.get("cases"), "distinct": res.get("cases"), "exhaustive": res.get("exhaustive_over_shapes", False),
             "seconds": res.get("seconds"), "violations": []}
        if res.get("violation"):
            r["violations"].append({"name": f"bounded:{pid}:callback-received-other-arguments-than-declared", "replay": res.get("replay"),
                                    "difference": res["violation"]})
        return r
    return run


def clone_layer(quick_s=15, thorough_s=300):
    """C17 bounded layer (runtime/clone_check.py): original vs deepcopy/pickle clone on random machines and histories."""
    import json as _json

    def run(tier, seed, run_native):
        limit = thorough_s if tier == "thorough" else quick_s
        rc, out, err = run_native(["-m", "runtime.clone_check", str(limit), str(seed)], timeout=limit * 12 + 300)
        try:
            res = _json.loads(out.strip().splitlines()[-1])
        except Exception:
            return {"what": "C17 clone layer", "error": (err or out)[-400:], "violations": []}
        r = {"what": "C17 clone layer: random machines (2-4 states, falsy state values, guards that depend on private attributes, constructor and "
                     "add_listener listeners, external model, sync/async, rtc on/off) driven through a random prefix, cloned by deepcopy or pickle "
                     "(also before the initial activation of an async machine), then original and clone driven through the same suffix and "
                     "compared (traces, results, exceptions, attributes, listener logs, relative order of machine and listener callbacks), and the "
                     "original re-checked after the clone alone is driven further (bounded, not a proof)",
             "bound": f"time budget {limit}s, seed {seed}; prefixes <= 4 events, suffixes <= 5 events",
             "evaluations": res.get("cases"), "distinct": res.get("cases"), "seconds": res.get("seconds"), "violations": []}
        if res.get("violation"):
            r["violations"].append({"name": "bounded:C17:clone-differs-from-or-shares-state-with-the-original", "replay": res.get("replay"),
                                    "difference": res["violation"]})
        return r
    return run


def render_layer(quick_s=15, thorough_s=300):
    """C15 bounded layer (runtime/render_check.py): every declaration style of random abstract machines, compared."""
    import json as _json

    def run(tier, seed, run_native):
        limit = thorough_s if tier == "thorough" else quick_s
        rc, out, err = run_native(["-m", "runtime.render_check", str(limit), str(seed)], timeout=limit * 12 + 300)
        try:
            res = _json.loads(out.strip().splitlines()[-1])
        except Exception:
            return {"what": "C15 rendering layer", "error": (err or out)[-400:], "violations": []}
        r = {"what": "C15 rendering layer: random abstract machines (2-4 states in shuffled declaration order, 1-3 events, guards, transitions shared "
                     "by two events, an optional any-group) written as class-body source in 20 declaration styles, executed on the real library "
                     "and compared on states, events, allowed events per step, outcomes and convention-callback traces over random event "
                     "sequences and guard verdicts (bounded, not a proof)",
             "bound": f"time budget {limit}s (at least 150 machines), seed {seed}; 5 sequences of <= 6 events per machine; styles: " + ", ".join(res.get("styles", [])),
             "evaluations": res.get("cases"), "distinct": res.get("cases"), "seconds": res.get("seconds"), "violations": []}
        if res.get("violation"):
            r["violations"].append({"name": "bounded:C15:two-declaration-styles-give-different-machines", "replay": res.get("replay"),
                                    "difference": res["violation"]})
        return r
    return run


def diagram_layer(quick_s=8, thorough_s=200):
    """C18 bounded layer (runtime/diagram_check.py): the real pydot graph of random machines vs what the property requires."""
    import json as _json

    def run(tier, seed, run_native):
        limit = thorough_s if tier == "thorough" else quick_s
        rc, out, err = run_native(["-m", "runtime.diagram_check", str(limit), str(seed)], timeout=limit * 12 + 300)
        try:
            res = _json.loads(out.strip().splitlines()[-1])
        except Exception:
            return {"what": "C18 diagram layer", "error": (err or out)[-400:], "violations": []}
        r = {"what": "C18 diagram layer: the pydot graph of the real DotGraphMachine for random machines (2-4 states, str/int/falsy values, several "
                     "transitions between the same states, multi-event transitions, cond/unless guards, internal transitions), for the class and "
                     "for an instance after every step of a random walk: nodes, initial edge, one edge per external transition with events and "
                     "guards, peripheries of final states, exactly the current state highlighted (bounded, not a proof)",
             "bound": f"time budget {limit}s, seed {seed}; walks <= 5 events", "evaluations": res.get("cases"), "distinct": res.get("cases"),
             "seconds": res.get("seconds"), "violations": []}
        if res.get("violation"):
            r["violations"].append({"name": "bounded:C18:diagram-differs-from-the-machine", "replay": res.get("replay"), "difference": res["violation"]})
        return r
    return run


def definition_layer(quick_s=10, thorough_s=420):
    """C09 bounded layer (runtime/definition_check.py): the class statement's verdict on small graphs vs plain graph search."""
    import json as _json

    def run(tier, seed, run_native):
        limit = thorough_s if tier == "thorough" else quick_s
        extra = ["exhaustive"] if tier == "thorough" else []
        rc, out, err = run_native(["-m", "runtime.definition_check", str(limit), str(seed)] + extra, timeout=limit * 12 + 300)
        try:
            res = _json.loads(out.strip().splitlines()[-1])
        except Exception:
            return {"what": "C09 definition layer", "error": (err or out)[-400:], "violations": []}
        r = {"what": "C09 definition layer: directed graphs over 1..5 states, any initial/final flags, transition multisets with self loops, internal "
                     "transitions, parallel edges and from_.any(), strict_states on/off: verdict of the real class statement (accepted / "
                     "InvalidDefinition / warning) vs an independent reading of the property by plain graph search (bounded, not a proof)",
             "bound": f"time budget {limit}s, seed {seed}; thorough tier first enumerates ALL graphs with <= 3 states and <= 3 transitions "
                      f"(complete: {res.get('exhaustive_up_to_3_states_3_transitions')}), then random graphs up to 5 states and 10 transitions",
             "evaluations": res.get("cases"), "distinct": res.get("cases"), "seconds": res.get("seconds"), "violations": []}
        if res.get("violation"):
            r["violations"].append({"name": "bounded:C09:class-statement-verdict-differs-from-the-property", "replay": res.get("replay"),
                                    "difference": res["violation"]})
        return r
    return run


def api_layer(pid, quick_s=6, thorough_s=90):
    """Bounded API-level stand-in (runtime/api_checks.py): random small cases on the real library vs a
    reference computed from the property statement.  Never counted as proved."""
    import json as _json

    def run(tier, seed, run_native):
        budget = thorough_s if tier == "thorough" else quick_s
        rc, out, err = run_native(["-m", "runtime.api_checks", pid, str(budget), str(seed)], timeout=budget * 12 + 300)
        try:
            res = _json.loads(out.strip().splitlines()[-1])
        except Exception:
            return {"what": f"{pid} api layer", "error": (err or out)[-400:], "violations": []}
        r = {"what": f"{pid} API layer: random small cases on the real library vs a reference written from the property (bounded, not a proof)",
             "bound": "2-4 states, 1-4 events, <= 7 transitions, <= 3 listeners/targets, walks of 4 steps", "evaluations": res["cases"],
             "distinct": res["cases"], "violations": []}
        if res.get("violation"):
            r["violations"].append({"name": f"bounded:{pid}:api-disagrees-with-reference", "replay": res.get("replay"),
                                    "difference": res["violation"]})
        return r
    return run


def witnesses(pid, names):
    """Recorded witnesses of known findings are replayed on every run: a witness that still fails
    is reported under the obligation name `witness:<name>` (matched by known_findings.jsonl)."""
    import os

    def run(tier, seed, run_native):
        r = {"what": "replay of recorded witnesses", "bound": f"{len(names)} scripts", "evaluations": len(names), "distinct": len(names), "violations": []}
        for nm in names:
            rc, out, err = run_native([os.path.join("witness", nm + ".py")], timeout=120)
            if rc == 1:
                r["violations"].append({"name": f"witness:{nm}", "replay": os.path.join("/verif/witness", nm + ".py"),
                                        "difference": out.strip()[-300:]})
            elif rc == 124:
                r["error"] = f"timeout running {nm}"  # a loaded machine, not a verdict
            elif rc != 0:
                r["violations"].append({"name": f"witness-crashed:{nm}", "replay": None, "difference": (err or out)[-300:]})
        return r
    return run


def probes(pid, names):
    """Probes (/verif/probes): small concrete uses of the real library that must behave as the property says (exit 0);
    a bounded part like the layers above, for corners the contracts do not reach.  Exit 1 = violated, replayable as is."""
    import os

    def run(tier, seed, run_native):
        r = {"what": f"{pid} probes: concrete uses of the real library for corners outside the contracts (bounded, not a proof)",
             "bound": ", ".join(names), "evaluations": len(names), "distinct": len(names), "violations": []}
        for nm in names:
            rc, out, err = run_native([os.path.join("probes", nm + ".py")], timeout=180)
            if rc == 1:
                r["violations"].append({"name": f"bounded:{pid}:probe:{nm}", "replay": os.path.join("/verif/probes", nm + ".py"),
                                        "difference": out.strip()[-300:]})
            elif rc == 124:
                r["error"] = f"timeout running {nm}"  # a loaded machine, not a verdict
            elif rc != 0:
                r["violations"].append({"name": f"probe-crashed:{nm}", "replay": None, "difference": (err or out)[-300:]})
        return r
    return run


def fixed_witnesses(pid, names):
    """Witnesses of REPAIRED defects (known_findings.jsonl `fixed:` lines) are replayed on every run: a repaired defect that
    comes back is a violation like any other (a fixed entry suppresses nothing)."""
    import os

    def run(tier, seed, run_native):
        r = {"what": f"{pid}: witnesses of repaired defects must keep passing (bounded, not a proof)", "bound": ", ".join(names),
             "evaluations": len(names), "distinct": len(names), "violations": []}
        for nm in names:
            rc, out, err = run_native([os.path.join("witness", nm + ".py")], timeout=180)
            if rc == 1:
                r["violations"].append({"name": f"bounded:{pid}:repaired-defect-is-back:{nm}", "replay": os.path.join("/verif/witness", nm + ".py"),
                                        "difference": out.strip()[-300:]})
            elif rc == 124:
                r["error"] = f"timeout running {nm}"  # a loaded machine, not a verdict
            elif rc != 0:
                r["violations"].append({"name": f"witness-crashed:{nm}", "replay": None, "difference": (err or out)[-300:]})
        return r
    return run


def _scans_engine():
    from . import scans
    return scans.scan_state_field_writers() + scans.scan_queue_mutators() + scans.scan_lock_operations()


PROPERTIES = {
    "C01": {"scans": [_scans_engine], "bounded": [scenario_layer("C01")], "search": scenario_search("C01")},
    "C02": {"lemmas": [_lemmas_cnt], "scans": [_scans_engine],
            # the declaration styles decide in WHICH group a callback is registered (decorator forms, event= strings, conventions)
            "bounded": [scenario_layer("C02"), render_layer(quick_s=8, thorough_s=60), probes("C02", ["C02_the_given_callable_runs_not_a_namesake"])], "search": scenario_search("C02")},
    "C03": {"scans": [_scans_engine], "bounded": [scenario_layer("C03")], "search": scenario_search("C03")},
    "C04": {"lemmas": [_lemma_not_wedged], "scans": [_scans_engine], "bounded": [scenario_layer("C04")], "search": scenario_search("C04")},
    "C14": {"bounded": [scenario_layer("C14"), probes("C14", ["C14_states_named_like_conventions_are_not_callbacks"])], "search": scenario_search("C14")},
    "C05": {"assumptions": [
        "asyncio.gather / as_completed / run_async_from_sync: assumed contracts (pyvc/models.py); the order of effects inside one callback group is left unconstrained, as documented",
        "relational reading: sync and async functions are verified against the SAME contract classes"],
        "bounded": [scenario_layer("C05"), probes("C05", ["C05_sync_driver_keeps_one_loop"])], "search": scenario_search("C05")},
    "C10": {"scans": [_scans_engine], "bounded": [fixed_witnesses("C10", ['C10_falsy_values']), scenario_layer("C10"), probes("C10", ["C10_every_transition_stores_the_target_value", "C10_falsy_machine_instance"])],
            "search": scenario_search("C10")},
    "C11": {"bounded": [fixed_witnesses("C11", ['C11_nonrtc_resume']), scenario_layer("C11"), probes("C11", ["C11_mixin_resumes_stored_state"])], "search": scenario_search("C11")},
    "C13": {"bounded": [fixed_witnesses("C13", ['C13_send_attribute']), probes("C13", ["C13_undeclared_name_reads_no_attribute"]), api_layer("C13"), render_layer(quick_s=8, thorough_s=60)], "assumptions": [
        "TransitionList.unique_events, StateMachine.events / allowed_events and bind_events_to are NOT under contract (the "
        "ordered-dedup invariant did not discharge in the time budget): covered by the bounded API layer only; send, "
        "Event.__call__ and Event.__get__ are proved"]},
    "C12": {"lemmas": [_lemmas_cnt, lambda: __import__("contracts.dispatcher", fromlist=["x"]).lemma_nprov_monotone()],
            "bounded": [api_layer("C12"), probes("C12", ["C12_equal_but_distinct_listeners"]),
                        witnesses("C12", ["C12_late_async_listener", "C12_reattach_duplicates_expression_guard"])],
            "assumptions": ["Listeners.search_name is proved (every provider of a name contributes one pair, symmetric in the providers); "
                            "Listeners.resolve / build / _take_callback, CallbacksExecutor.add and StateMachine._register_callbacks / "
                            "add_listener are not under contract yet: the bounded API layer stands in; the registry/executor/wrapper "
                            "chain they feed is proved (C01, C02)",
                            "dir()/getattr()/callable() on provider objects as documented (reflective primitives, ATTR_OF / CALLABLE oracles)"]},
    "C15": {"bounded": [api_layer("C15"), render_layer(), witnesses("C15", ["C15_any_skips_later_states"])],
            "assumptions": ["builders (to / from_ / itself / any, |, add_transitions, Events.add, factory.add_*, States.from_enum) are not under "
                            "contract yet: the bounded API layer (all renderings of random small abstract machines) stands in"]},
    "C16": {"bounded": [api_layer("C16"), sig_layer("C16", quick_s=4, thorough_s=60), probes("C16", ["C16_registry_by_qualified_name"]),
                        witnesses("C16", ["C16_subclass_changes_base", "C07_signature_cache_key"])],
            "scans": [lambda: __import__("checker.scans", fromlist=["x"]).scan_ownership()],
            "assumptions": ["ownership table (checker/scans.py) is part of the contract: every heap write site in the package is classified"]},
    "C07": {"lemmas": [lambda: __import__("contracts.signature", fromlist=["x"]).scan_signature_cache_key()],
            "bounded": [fixed_witnesses("C07", ['C07_kwonly_after_surplus_positional']), sig_layer("C07")],
            "assumptions": ["inspect.Signature validity (kind order, distinct names) as a precondition of bind_expected",
                            "inspect.BoundArguments.args/.kwargs (how a binding is turned into a call) are CPython's (modelled as two attributes of the binding object)",
                            "attr_method / event_method adapters (dispatcher.py) and Event.__call__'s stripping of reserved names are not under contract: "
                            "covered by the bounded end-to-end layer only"]},
    "C08": {"bounded": [probes("C08", ["C08_decorated_guards_keep_their_polarity"]), fixed_witnesses("C08", ['C08_unsupported_structure_exception']), expr_layer(), render_layer(quick_s=8, thorough_s=60)],  # cond/unless must survive every declaration style (from_.any() copies)
            "assumptions": [
                "operands of guard expressions are read without side effects (OperandCall oracle)",
                "build_expression / parse_boolean_expr (AST walk) and Listeners.build are not under contract yet: the AST->closure mapping is covered by the bounded lexical layer only; the five combinator closures, the guard conjunction (all/async_all, expected_value) and CallbacksRegistry.check are proved",
                "operator.eq/ne/gt/ge/lt/le are Python's comparisons (CMP)"]},
    "C17": {"bounded": [fixed_witnesses("C17", ['C17_clone_engine_and_activation', 'C17_ctor_listener_order']), clone_layer(), witnesses("C17", ["C17_equal_listeners_collapse"])], "assumptions": [
        "copy.deepcopy / pickle protocol: the dict returned by __getstate__ is deep-copied and __setstate__ runs on a blank instance (so original and clone share no mutable state)",
        "_register_callbacks / add_listener / _get_engine / async_or_sync / engine.start enter through abstract contracts read off their bodies (what they do to has_async_callbacks, the listeners and the pending activation)",
        "behavioural equality after the round trip follows from equal views (same class, stored value, options, listeners, engine kind, pending activation) by the engine contracts of C01-C04"]},
    "C18": {"bounded": [diagram_layer()], "assumptions": [
        "pydot: Node/Edge store what they are given, add_node/add_edge append (ghost origin/count fields)",
        "machine is an instance; _get_graph, _state_actions and label strings are styling only (assumed)",
        "WF(cls): states pairwise distinct, a transition object sits at one position of one state's list"]},
    "C06": {"lemmas": [lambda: __import__("checker.og", fromlist=["x"]).all_obligations()], "scans": [_scans_engine],
            "bounded": [witnesses("C06", ["C06_thread_stranded_event"])],
            "assumptions": [
                "atomicity model: asyncio = blocks between awaits are atomic (AST scans check the premises on the real async processing_loop and Event.__call__); threads = each deque/Lock method call is atomic under the GIL",
                "the outline is per role, so it is unbounded in the number of senders and events; it is a proof about this model, not about CPython's scheduler",
                "fair completion of senders; no failures (with a failure C04's 'queue dropped' takes precedence)"]},
    "C09": {"bounded": [definition_layer()], "assumptions": [
        "REACH is the least relation closed under 'start' and 'transition target': the induction principle is applied once, to the set yielded by visit_connected_states (Visit.derived); closedness of that set is a discharged postcondition",
        "State objects are compared by identity in sets/dicts (State.__hash__/__eq__ consistent, (name,id) pairs distinct)",
        "cls.states / cls.final_states / cls.initial_state as set up by StateMachineMetaclass.__init__ (class_wf)"]},
}
