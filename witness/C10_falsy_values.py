"""C10 witnesses (#1, #2): a falsy-but-valid start_value must select the start state, and a model
object that happens to be falsy (defines __len__ -> 0) must be the one used.  Exit 1 if a defect is present."""
import sys
from statemachine import State, StateMachine


class M(StateMachine):
    zero = State(value=0)
    one = State(value=1, initial=True)
    two = State(value=2)
    a = one.to(two)
    b = two.to(zero)
    c = zero.to(one)


class Bag:
    """A domain object that is falsy when empty."""

    def __init__(self):
        self.items = []
        self.state = None

    def __len__(self):
        return len(self.items)


bad = []
sm = M(start_value=0)
if sm.current_state_value != 0:
    bad.append(f"start_value=0 ignored: started in {sm.current_state_value!r}")
bag = Bag()
sm = M(bag)
if sm.model is not bag:
    bad.append("falsy user model replaced by a fresh Model()")
elif bag.state != 1:
    bad.append("user model did not receive the state")
if bad:
    print("C10 VIOLATED:", "; ".join(bad))
    sys.exit(1)
print("ok")
