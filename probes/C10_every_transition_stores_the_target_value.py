"""Probe (C10, bounded): "after every transition the field holds the target state's value" — also when something writes
another valid value into the field while the transition's own `before`/`on` callbacks run (the contracts assume callbacks
leave the state field alone, EnvCB; this corner is outside them).  Internal and external transitions, self transitions,
sync and async engines, falsy values.  Exit 1 = violated."""
import asyncio
import sys

from statemachine import State, StateMachine

errors = []


class RecordC10p:
    def __init__(self):
        self.step = None


def build(is_async):
    ns = {}

    class ProbeC10(StateMachine):
        idle = State(initial=True, value=0)
        running = State(value=1)
        done = State(value="", final=True)

        start = idle.to(running, before="scribble")
        beat = running.to.itself(internal=True, on="scribble")
        again = running.to.itself(on="scribble")
        finish = running.to(done, on="scribble")

        if is_async:
            async def scribble(self):
                self.model.step = 0  # a valid value written behind the machine's back
        else:
            def scribble(self):
                self.model.step = 0

    ProbeC10.scribble.__qualname__ = f"ProbeC10_{'a' if is_async else 's'}.scribble"
    return ProbeC10


def check(tag, sm, rec, want):
    if rec.step != want:
        errors.append(f"{tag}: field holds {rec.step!r}, the transition's target has value {want!r}")
    if sm.current_state_value != want:
        errors.append(f"{tag}: current_state_value {sm.current_state_value!r} != {want!r}")
    active = [s.id for s in sm.states if getattr(sm, s.id).is_active]
    if len(active) != 1:
        errors.append(f"{tag}: active states {active}")


def drive_sync():
    rec = RecordC10p()
    sm = build(False)(rec, state_field="step")
    for ev, want in (("start", 1), ("beat", 1), ("again", 1), ("finish", "")):
        sm.send(ev)
        check("sync " + ev, sm, rec, want)


async def drive_async():
    rec = RecordC10p()
    sm = build(True)(rec, state_field="step")
    await sm.activate_initial_state()
    for ev, want in (("start", 1), ("beat", 1), ("again", 1), ("finish", "")):
        await sm.send(ev)
        check("async " + ev, sm, rec, want)


for fn in (drive_sync, lambda: asyncio.run(drive_async())):
    try:
        fn()
    except Exception as e:  # noqa: BLE001
        errors.append(f"raised {type(e).__name__}: {e}")
for e in errors:
    print("VIOLATED:", e)
print("ok" if not errors else f"{len(errors)} problems")
sys.exit(1 if errors else 0)
