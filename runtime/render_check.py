"""C15, bounded layer (labelled bounded, never counted as proved): one random abstract machine is written out in every
documented declaration style as CLASS-BODY SOURCE TEXT (so that statement order inside the class body is part of what
is exercised), each text is executed against the REAL library, and all renderings are compared on

  * states (id, initial, final) and the set of event ids,
  * for random event sequences (unknown events included) and scripted guard verdicts: the allowed events before every
    step, the outcome of every send (ok / exception class), the state after it, and the trace of the naming-convention
    callbacks (before_/on_/after_<event>, on_enter_/on_exit_<state>).

Styles: `a.to(b)` joined with `|`; `b.from_(a)`; `event="e0 e1"` strings; `event=[...]` lists; explicit `Event(...)`
attributes below and ABOVE the states; a mix of `event=` strings and class attributes for one event; `to.itself()`;
`States.from_enum` with Enum and with IntEnum (a member of value 0 is falsy); `States({...})`; a subclass of a base
that declares everything; `target.from_.any()` versus explicit transitions from every non-final state (the any-event is
declared after all states and owns its event, so the recorded finding "any() skips later states" is not in play).

The oracle is agreement between renderings; no reference interpreter is involved.
"""
from __future__ import annotations

import itertools
import json
import os
import random
import sys
import time
import warnings

warnings.simplefilter("ignore")
_uid = itertools.count()


def gen_abstract(rng: random.Random):
    n = rng.randint(2, 4)
    ids = [f"s{k}" for k in range(n)]
    final = ids[-1] if rng.random() < 0.5 else None
    evs = [f"e{k}" for k in range(rng.randint(1, 3))]
    trans = []  # (events tuple, src, dst, guard)
    for k in range(n - 1):
        trans.append(((rng.choice(evs),), ids[k], ids[k + 1], rng.choice([None, None, "ok", "!ok"])))
    if final is None:
        trans.append(((rng.choice(evs),), ids[-1], ids[0], None))
    for _ in range(rng.randint(0, 3)):
        src = rng.choice([i for i in ids if i != final])
        es = tuple(sorted(set(rng.sample(evs, min(len(evs), rng.choice([1, 1, 2]))))))
        trans.append((es, src, rng.choice(ids), rng.choice([None, "ok", "!ok"])))
    # no two transitions with the same (src, dst, events): keep the spec a set
    seen, out = set(), []
    for t in trans:
        key = (t[0], t[1], t[2])
        if key not in seen:
            seen.add(key)
            out.append(t)
    any_group = None
    if rng.random() < 0.4:
        tgt = rng.choice(ids)
        any_group = {"event": "anyev", "target": tgt, "guard": rng.choice([None, "ok", "!ok"])}
    evs = [e for e in evs if any(e in t[0] for t in out)]  # only events that some transition uses
    order = list(ids)
    if rng.random() < 0.5:
        rng.shuffle(order)  # the order of the State attributes in the class body is not the order of the ids
    return {"ids": ids, "final": final, "events": evs, "transitions": out, "any": any_group, "order": order}


def guard_kw(g):
    if g == "ok":
        return ', cond="ok"'
    if g == "!ok":
        return ', unless="ok"'
    return ""


def callbacks_src(spec, decorators=False, state_params=False):
    lines = ["    def ok(self):", "        return self.flags.pop(0) if self.flags else True"]
    evs = list(spec["events"]) + (["anyev"] if spec["any"] else [])
    for e in evs:
        for ph in ("before", "on", "after"):
            if decorators and ph == "on":
                continue  # the decorated function that DECLARES the event is its `on` action (written with the transitions)
            lines += [f"    def {ph}_{e}(self):", f"        self.trace.append('{ph}_{e}')"]
    pre = "do" if state_params else "on"  # State(enter="do_enter_x", exit="do_exit_x") instead of the naming convention
    for s in spec["ids"]:
        lines += [f"    def {pre}_enter_{s}(self):", f"        self.__dict__.setdefault('trace', []).append('on_enter_{s}')",
                  f"    def {pre}_exit_{s}(self):", f"        self.trace.append('on_exit_{s}')"]
    return lines


def states_src(spec, prefix="", params=False):
    out = []
    for s in spec.get("order", spec["ids"]):
        args = [f'enter="do_enter_{s}"', f'exit="do_exit_{s}"'] if params else []
        if s == spec["ids"][0]:
            args.append("initial=True")
        if s == spec["final"]:
            args.append("final=True")
        out.append(f"    {s} = State({', '.join(args)})")
    return out


def non_final(spec):
    return [s for s in spec.get("order", spec["ids"]) if s != spec["final"]]


def any_explicit(spec, P=""):
    a = spec["any"]
    return [f"{P}{s}.to({P}{a['target']}{guard_kw(a['guard'])})" for s in non_final(spec)]


def render(spec, style, name):
    """-> python source of a module defining class `name`."""
    T, ids, evs = spec["transitions"], spec["ids"], spec["events"]
    L = ["from enum import Enum, IntEnum", "from statemachine import Event, State, StateMachine", "from statemachine.states import States", ""]
    P = ""  # prefix of state names inside the class body
    body = []
    if style in ("enum", "intenum", "enum_finalset"):
        base = "IntEnum" if style == "intenum" else "Enum"
        order = spec.get("order", ids)
        vals = {s: (len(ids) - 1 - k if style == "intenum" else k + 1) for k, s in enumerate(order)}
        L += [f"class E_{name}({base}):"] + [f"    {s} = {vals[s]}" for s in order] + [""]
        # a single member for Enum, a frozenset of members for IntEnum: `final` takes one state or any iterable of states
        # `final` takes one member (for IntEnum that member may be 0, i.e. falsy) or any iterable of members (a frozenset)
        fin = "" if not spec["final"] else (f", final=frozenset({{E_{name}.{spec['final']}}})" if style == "enum_finalset" else f", final=E_{name}.{spec['final']}")
        body.append(f"    _ = States.from_enum(E_{name}, initial=E_{name}.{ids[0]}{fin})")
        P = "_."
    elif style == "states_dict":
        items = []
        for s in spec.get("order", ids):
            a = ["initial=True"] if s == ids[0] else []
            if s == spec["final"]:
                a.append("final=True")
            items.append(f'"{s}": State({", ".join(a)})')
        body.append("    _ = States({" + ", ".join(items) + "})")
        P = "_."
    elif style == "events_first":
        body += [f'    {e} = Event(name="{e}")' for e in evs]
        body += states_src(spec)
    else:
        body += states_src(spec, params=(style == "state_params"))

    def tr(t, with_event=None):
        es, s, d, g = t
        ev = ""
        if with_event == "str":
            ev = f', event="{" ".join(es)}"'
        elif with_event == "list":
            ev = ", event=[" + ", ".join(f'"{e}"' for e in es) + "]"
        elif with_event == "list_overlap":
            # the same events, written with an overlap: ["e0", "e0 e1"] names e0 twice and must still bind e1
            ev = ", event=[" + ", ".join([f'"{es[0]}"', '"' + " ".join(es) + '"']) + "]"
        elif with_event == "obj":
            ev = ", event=[" + ", ".join(es) + "]"
        if style == "from_":
            return f"{P}{d}.from_({P}{s}{guard_kw(g)}{ev})"
        if style == "itself" and s == d:
            return f"{P}{s}.to.itself({guard_kw(g).lstrip(', ')}{ev if not guard_kw(g) else ev})".replace("(, ", "(")
        return f"{P}{s}.to({P}{d}{guard_kw(g)}{ev})"

    if style in ("event_str", "event_list", "event_list_overlap"):
        body += ["    " + tr(t, {"event_str": "str", "event_list": "list", "event_list_overlap": "list_overlap"}[style]) for t in T]
    elif style in ("states_first", "events_first"):
        if style == "states_first":
            body += [f'    {e} = Event(name="{e}")' for e in evs]
        body += ["    " + tr(t, "obj") for t in T]
    else:
        # per-event class attributes (no helper attributes: every TransitionList attribute of a class body is an event);
        # a transition that serves several events is written once per event here, and ONCE in the event= styles above
        for e in evs:
            mine = [t for t in T if e in t[0]]
            if not mine:
                continue
            if style == "mixed_inline" and len(mine) > 1:
                es, s_, d_, g_ = mine[0]
                body.append(f"    {e} = " + " | ".join([tr(((e,), s_, d_, g_), "str")] + [tr(((e,), t[1], t[2], t[3])) for t in mine[1:]]))
                continue
            if style == "mixed" and len(mine) > 1:
                # the first transition of this event names it with event="..."; the others come through the attribute
                es, s_, d_, g_ = mine[0]
                body.append("    " + tr(((e,), s_, d_, g_), "str"))
                mine = mine[1:]
            if style == "from_multi":
                parts, k = [], 0
                while k < len(mine):
                    grp = [mine[k]]
                    while k + 1 < len(mine) and (mine[k + 1][2], mine[k + 1][3]) == (mine[k][2], mine[k][3]) and mine[k + 1][1] not in [g[1] for g in grp]:
                        k += 1
                        grp.append(mine[k])
                    parts.append(f"{P}{grp[0][2]}.from_(" + ", ".join(f"{P}{g[1]}" for g in grp) + guard_kw(grp[0][3]) + ")")
                    k += 1
                chain = " | ".join(parts)
            else:
                chain = " | ".join(tr(((e,), t[1], t[2], t[3])) for t in mine)
            if style == "decorator":
                # `@<transitions> def <event>(self): ...` declares the event; the function is its `on` action
                body += [f"    @({chain})", f"    def {e}(self):", f"        self.trace.append('on_{e}')"]
            else:
                body.append(f"    {e} = " + chain)
    if spec["any"]:
        a = spec["any"]
        if style in ("any",):
            body.append(f"    anyev = {P}{a['target']}.from_.any({guard_kw(a['guard']).lstrip(', ')})")
        elif style == "decorator":
            body += ["    @(" + " | ".join(any_explicit(spec, P)) + ")", "    def anyev(self):", "        self.trace.append('on_anyev')"]
        else:
            body.append("    anyev = " + " | ".join(any_explicit(spec, P)))
    cls = [f"class {name}(StateMachine):"] + body + callbacks_src(spec, decorators=(style == "decorator"), state_params=(style == "state_params"))
    if style == "subclass":
        cls = [f"class Base_{name}(StateMachine):"] + body + callbacks_src(spec) + ["", f"class {name}(Base_{name}):", "    pass"]
    if style == "subclass_mixin":
        # a plain mixin listed BEFORE the machine base: everything is still inherited from the base
        cls = [f"class Base_{name}(StateMachine):"] + body + callbacks_src(spec) + [
            "", f"class Mix_{name}:", "    helper_flag = True", "", f"class {name}(Mix_{name}, Base_{name}):", "    pass"]
    return "\n".join(L + cls) + "\n"


STYLES = ["plain", "from_", "from_multi", "event_str", "event_list", "event_list_overlap", "states_first", "events_first", "mixed", "mixed_inline", "decorator", "state_params", "itself",
          "enum", "intenum", "enum_finalset", "states_dict", "subclass", "subclass_mixin", "any"]


def observe(cls, seqs):
    from statemachine.exceptions import TransitionNotAllowed
    out = {"states": sorted((s.id, bool(s.initial), bool(s.final)) for s in cls.states),
           "events": sorted({str(e) for e in cls.events}), "runs": []}
    for seq, flags in seqs:
        sm = cls.__new__(cls)
        sm.flags = list(flags)
        sm.trace = []
        cls.__init__(sm)
        steps = []
        for ev in seq:
            allowed = sorted({str(e) for e in sm.allowed_events})
            try:
                sm.send(ev)
                res = "ok"
            except TransitionNotAllowed:
                res = "TransitionNotAllowed"
            except Exception as e:  # noqa: BLE001
                res = type(e).__name__
            steps.append((ev, allowed, res, sm.current_state.id))
        out["runs"].append({"steps": steps, "trace": list(sm.trace)})
    return out


def run_spec(spec, seed=0):
    rng = random.Random(seed)
    evs = list(spec["events"]) + (["anyev"] if spec["any"] else []) + ["nope"]
    seqs = [([rng.choice(evs) for _ in range(rng.randint(1, 6))], [rng.random() < 0.6 for _ in range(8)]) for _ in range(5)]
    base = None
    for style in STYLES:
        if style == "any" and not spec["any"]:
            continue
        if style == "itself" and not any(t[1] == t[2] for t in spec["transitions"]):
            continue
        name = f"R{next(_uid)}_{style}"
        src = render(spec, style, name)
        ns = {}
        try:
            exec(compile(src, f"<rendering {style}>", "exec"), ns)  # noqa: S102
            got = observe(ns[name], seqs)
        except Exception as e:  # noqa: BLE001
            got = {"definition_error": f"{type(e).__name__}: {str(e)[:160]}"}
        if base is None:
            base = (style, got, src)
            if "definition_error" in got:
                return None  # the abstract machine itself is not a valid definition (e.g. unreachable state): not a verdict
        elif got != base[1]:
            diff = next((k for k in ("definition_error", "states", "events") if got.get(k) != base[1].get(k)), "runs")
            return {"what": f"rendering '{style}' differs from rendering '{base[0]}' in {diff}", "a": base[1] if diff != "runs" else
                    _first_run_diff(base[1], got), "source_a": base[2], "source_b": src}
    return None


def _first_run_diff(a, b):
    for ra, rb in zip(a.get("runs", []), b.get("runs", [])):
        if ra != rb:
            return {"a": ra, "b": rb}
    return {"a": a.get("runs"), "b": b.get("runs")}


MIN_CASES = 150  # a loaded machine does not shrink what is explored (time cap: 10x the budget)


def run(limit_s, seed):
    rng = random.Random(seed)
    t0 = time.time()
    n = skipped = 0
    while time.time() - t0 < limit_s or (n < MIN_CASES and time.time() - t0 < 10 * limit_s):
        spec = gen_abstract(rng)
        n += 1
        diff = run_spec(spec, seed + n)
        if diff:
            return {"cases": n, "violation": {"spec": spec, "seed": seed + n, "difference": diff}}
    return {"cases": n, "violation": None, "seconds": round(time.time() - t0, 1), "styles": STYLES}


REPLAY = '''"""Replay (C15 bounded layer): two declaration styles of the same abstract machine give different machines."""
import json, sys
sys.path.insert(0, "/verif")
from runtime import render_check
spec = json.loads({spec!r})
spec["transitions"] = [(tuple(t[0]), t[1], t[2], t[3]) for t in spec["transitions"]]
diff = render_check.run_spec(spec, {seed})
if diff:
    print(diff["what"])
    print("--- rendering a ---"); print(diff["source_a"])
    print("--- rendering b ---"); print(diff["source_b"])
    print("observed:", diff["a"])
sys.exit(1 if diff else 0)
'''

if __name__ == "__main__":
    limit = float(sys.argv[1]) if len(sys.argv) > 1 else 15
    seed = int(sys.argv[2]) if len(sys.argv) > 2 else 0
    res = run(limit, seed)
    if res["violation"]:
        os.makedirs("/verif/replays", exist_ok=True)
        sp = json.dumps(res["violation"]["spec"])
        path = f"/verif/replays/C15-render-{abs(hash(sp)) % 10**8}.py"
        open(path, "w").write(REPLAY.format(spec=sp, seed=res["violation"]["seed"]))
        res["replay"] = path
        res["violation"]["difference"] = {k: v for k, v in res["violation"]["difference"].items() if not k.startswith("source")}
    print(json.dumps(res, default=str)[:6000])
    sys.exit(1 if res["violation"] else 0)
