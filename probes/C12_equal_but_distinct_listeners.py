"""Probe (C12, bounded): listeners are told apart by identity, not by equality — two distinct listener objects that
compare equal (value objects, frozen dataclasses) are both attached, both called, and each only once.  Exit 1 = violated."""
import sys
from dataclasses import dataclass, field

from statemachine import State, StateMachine

calls = []


@dataclass(frozen=True)
class AuditC12p:
    channel: str
    sink: list = field(default_factory=list, compare=False, hash=False)

    def on_go(self):
        self.sink.append("on_go")
        calls.append(id(self))

    def ready(self):
        calls.append(("guard", id(self)))
        return True


class MachineC12p(StateMachine):
    a = State(initial=True)
    b = State(final=True)
    go = a.to(b, cond="ready")

    def ready(self):
        return True


problems = []
for how in ("constructor+add", "add+add", "one add call"):
    calls.clear()
    l1, l2 = AuditC12p("ops"), AuditC12p("ops")
    assert l1 == l2 and l1 is not l2
    if how == "constructor+add":
        sm = MachineC12p(listeners=[l1])
        sm.add_listener(l2)
    elif how == "add+add":
        sm = MachineC12p()
        sm.add_listener(l1)
        sm.add_listener(l2)
    else:
        sm = MachineC12p()
        sm.add_listener(l1, l2)
    sm.go()
    if l1.sink != ["on_go"] or l2.sink != ["on_go"]:
        problems.append(f"{how}: callbacks received: first listener {l1.sink}, second listener {l2.sink} (each must get exactly one on_go)")
    guards = [c for c in calls if isinstance(c, tuple)]
    if sorted(g[1] for g in guards) != sorted([id(l1), id(l2)]):
        problems.append(f"{how}: guard `ready` evaluated on {len(guards)} of the 2 listeners")
for p in problems:
    print("VIOLATED:", p)
print("ok" if not problems else f"{len(problems)} problems")
sys.exit(1 if problems else 0)
