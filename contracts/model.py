"""Shared abstract model (DESIGN 3): class tables read by the executor, ghost state, the
single-machine world constants, well-formedness predicates and the environment contract (EnvCB).

World: contracts reason about ONE machine `SM` with engine `ENG`, registry `REG`, model `MODEL`,
queue `Q`, lock `LK`; other machines are covered by the frame (nothing here writes their fields).
"""
from __future__ import annotations

import ast
from types import SimpleNamespace

import z3

from pyvc.core import (
    B, CLASSES, Exc, FIRST_ADDR, HEAP_SORTS, I, NONE, NoneV, O, Py, S, T, V, A_II, A_IB, ClassModel,
    MethodSpec, Unsupported, boxb, declare_ghost, fresh, load_module, ref_of, truthy, wrap,
    Int, Bool, Str,
)
from pyvc.execu import CONTRACTS, GLOBAL_NAMES, CallArgs, Raise, builtin
from pyvc import models as _models  # noqa: F401  registers builtin models
from pyvc.models import model

# --------------------------------------------------------------------------- world constants
W = SimpleNamespace(
    SM=z3.Int("SM"), ENG=z3.Int("ENG"), REG=z3.Int("REG"), MODEL=z3.Int("MODEL"), Q=z3.Int("Q"),
    LK=z3.Int("LK"), SENT=z3.Int("SENT"), SMAP=z3.Int("SMAP"), REGD=z3.Int("REGD"), CACHE=z3.Int("CACHE"),
)

INITIAL_ID = z3.StringVal("__initial__")

# --------------------------------------------------------------------------- ghost state
declare_ghost("ntrig", Int)  # number of _trigger calls so far
declare_ghost("trig_log", A_II)  # k-th _trigger call processed this TriggerData
declare_ghost("trig_res", A_II)  # ... and returned this
declare_ghost("ng", Int)  # group-level log cursor: one record per registry call/all
declare_ghost("g_key", z3.ArraySort(Int, Str))
declare_ghost("g_ms", A_II)  # model state value when the group started
declare_ghost("g_ks", A_II)  # kwargs['state'] when the group started
declare_ghost("g_kind", A_II)  # 1 = call, 2 = all
declare_ghost("g_ok", A_IB)  # result of `all`
declare_ghost("g_res", z3.ArraySort(Int, A_II))  # result list of `call` (content snapshot)
declare_ghost("g_reslen", A_II)
declare_ghost("st", z3.ArraySort(Int, A_II))  # st[td][t]: 0 untouched, 1 rejected, 2 executed, 3 raised
declare_ghost("ac", z3.ArraySort(Int, A_II))  # ac[td][t]: how many times _activate(td, t) was entered
declare_ghost("ares", z3.ArraySort(Int, A_II))  # ares[td][t]: what the last _activate(td, t) returned as result
declare_ghost("depth", Int)
declare_ghost("ncb", Int)  # callback-level log cursor: one record per CallbackWrapper invocation
declare_ghost("cb_who", A_II)  # which wrapper
declare_ghost("cb_ms", A_II)  # model state value when it was invoked
declare_ghost("cb_ks", A_II)  # kwargs['state'] when it was invoked
CB_LOG = ["ghost.ncb", "ghost.cb_who", "ghost.cb_ms", "ghost.cb_ks"]

GK_CALL, GK_ALL = 1, 2

MATCH = z3.Function("MATCH", Int, Str, Bool)  # transition t is bound to the event id

# --------------------------------------------------------------------------- class tables


def C(q):
    return MethodSpec("contract", q)


def INL(q):
    return MethodSpec("inline", q)


SYNC = "statemachine.engines.sync:SyncEngine."
ASYN = "statemachine.engines.async_:AsyncEngine."
BASE = "statemachine.engines.base:BaseEngine."
SMQ = "statemachine.statemachine:StateMachine."
CBQ = "statemachine.callbacks:"

ClassModel(
    "BaseEngine",
    heapname="Engine",
    fields={
        "_rtc": "bool",
        "_external_queue": "deque[TriggerData]",
        "_processing": "Lock",
        "_sentinel": "object",
        "sm": "StateMachine",
    },
    methods={"put": C(BASE + "put"), "_initial_transition": C(BASE + "_initial_transition"), "start": C(BASE + "start")},
)
ClassModel(
    "SyncEngine",
    bases=["BaseEngine"],
    methods={
        "_trigger": C(SYNC + "_trigger"),
        "_activate": C(SYNC + "_activate"),
        "processing_loop": C(SYNC + "processing_loop"),
        "activate_initial_state": C(SYNC + "activate_initial_state"),
        "start": C(SYNC + "start"),
    },
)
ClassModel(
    "AsyncEngine",
    bases=["BaseEngine"],
    methods={
        "_trigger": C(ASYN + "_trigger"),
        "_activate": C(ASYN + "_activate"),
        "processing_loop": C(ASYN + "processing_loop"),
        "activate_initial_state": C(ASYN + "activate_initial_state"),
        "start": C(BASE + "start"),
    },
)

ClassModel(
    "StateMachine",
    fields={
        "model": "Model",
        "state_field": "str",
        "start_value": "Val",
        "allow_event_without_transition": "bool",
        "_callbacks": "CallbacksRegistry",
        "_states_for_instance": "idict[State,IState]",
        "_engine": "Engine",
        "states_map": "idict[Val,State]",
        "initial_state": "State",
    },
    props={"current_state": C(SMQ + "current_state"), "current_state_value": C(SMQ + "current_state_value")},
    setters={
        "current_state": C(SMQ + "current_state@setter"),
        "current_state_value": C(SMQ + "current_state_value@setter"),
    },
    methods={"_get_initial_state": C(SMQ + "_get_initial_state")},
    py_fields={},
)
CLASSES["Val"].truthy_fn = lambda path, v: truthy(v.e)

ClassModel("Model", fields={"state": "Val"})

ClassModel(
    "CallbacksRegistry",
    fields={"_registry": "ddict[str,CallbacksExecutor]", "has_async_callbacks": "bool"},
    methods={
        "call": C(CBQ + "CallbacksRegistry.call"),
        "all": C(CBQ + "CallbacksRegistry.all"),
        "async_call": C(CBQ + "CallbacksRegistry.async_call"),
        "async_all": C(CBQ + "CallbacksRegistry.async_all"),
    },
)

ClassModel("SpecListGrouper", fields={"key": "str", "list": "CallbackSpecList", "group": "int"})
ClassModel("CallbackSpecList", fields={"items": "list[CallbackSpec]"})


def event_eq(ex, path, a, b):
    """Event is a str subclass: equality is string equality of the ids."""
    ida = path.sel("Event.id", a.e)
    if isinstance(b, S):
        return ida == b.e
    if isinstance(b, O) and CLASSES.get(b.cls.split("[")[0]) is not None and b.cls in ("Event", "BoundEvent"):
        return ida == path.sel("Event.id", b.e)
    if isinstance(b, NoneV):
        return z3.BoolVal(False)
    if isinstance(b, O) and b.cls in ("Val", "Opt[Event]"):
        # a str-typed dynamic value: only Event objects are modelled as str-like references
        return z3.And(b.e != NONE, ida == path.sel("Event.id", b.e))
    raise Unsupported(f"Event == {b}")


ev_model = ClassModel(
    "Event",
    fields={"id": "str", "name": "str", "_sm": "Opt[StateMachine]", "_has_real_id": "bool",
            "_transitions": "Opt[TransitionList]"},
    eq_fn=event_eq,
)
ev_model.as_str = lambda path, v: path.sel("Event.id", v.e)
ClassModel("BoundEvent", bases=["Event"], heapname="Event")

ClassModel("Events", fields={"_items": "list[Event]"},
           iter_fn=lambda ex, path, v: O(path.sel("Events._items", v.e), "list[Event]"),
           methods={"match": C("statemachine.events:Events.match")})

ClassModel(
    "Transition",
    fields={
        "source": "Opt[State]",
        "target": "State",
        "internal": "bool",
        "_events": "Events",
        "_specs": "CallbackSpecList",
        "validators": "SpecListGrouper",
        "before": "SpecListGrouper",
        "on": "SpecListGrouper",
        "after": "SpecListGrouper",
        "cond": "SpecListGrouper",
    },
    methods={"match": C("statemachine.transition:Transition.match")},
)

ClassModel(
    "TransitionList",
    fields={"transitions": "list[Transition]"},
    iter_fn=lambda ex, path, v: O(path.sel("TransitionList.transitions", v.e), "list[Transition]"),
)

ClassModel(
    "State",
    fields={
        "name": "str",
        "value": "Val",
        "_initial": "bool",
        "_final": "bool",
        "_id": "str",
        "transitions": "TransitionList",
        "_specs": "CallbackSpecList",
        "enter": "SpecListGrouper",
        "exit": "SpecListGrouper",
    },
)


@model
def istate_ref(ex, path, recv, ca, node):
    return [(path, O(path.sel("IState._state", recv.e), "State"))]


STQ = "statemachine.state:InstanceState."
ClassModel(
    "IState",
    # `_id` exists only on the dead-referent path of InstanceState.id (`self._state() or self`)
    fields={"_state": "State", "_machine": "StateMachine", "_id": "str"},
    methods={"_state": istate_ref},
    props={
        "transitions": INL(STQ + "transitions"),
        "value": INL(STQ + "value"),
        "name": INL(STQ + "name"),
        "enter": INL(STQ + "enter"),
        "exit": INL(STQ + "exit"),
    },
)


# ---- dataclasses: constructor derived mechanically from the real class statement -----------
def dataclass_ctor(modname: str, clsname: str, types: dict):
    def ctor(ex, path, ca, node):
        tree = load_module(modname)
        cnode = next(n for n in tree.body if isinstance(n, ast.ClassDef) and n.name == clsname)
        obj = path.alloc(clsname, clsname.lower())
        pos = list(ca.pos)
        kw = dict(ca.kw)
        for st in cnode.body:
            if not isinstance(st, ast.AnnAssign):
                continue
            fname = st.target.id
            init, default = True, None
            if isinstance(st.value, ast.Call) and getattr(st.value.func, "id", "") == "field":
                for k in st.value.keywords:
                    if k.arg == "init" and isinstance(k.value, ast.Constant) and k.value.value is False:
                        init = False
                    if k.arg == "default_factory":
                        default = ("factory", k.value.id)
                    if k.arg == "default":
                        default = ("const", k.value)
            elif st.value is not None:
                default = ("const", st.value)
            if not init:
                continue
            if pos:
                v = pos.pop(0)
            elif fname in kw:
                v = kw.pop(fname)
            elif default is not None:
                if default[0] == "factory":
                    if default[1] == "tuple":
                        v = path.alloc("tuple", "emptytuple")
                    elif default[1] == "dict":
                        v = path.alloc("dict[str,Val]", "emptydict")
                        path.store("dict.has", v.e, z3.K(Str, False))
                    else:
                        raise Unsupported(f"default_factory {default[1]}")
                else:
                    rs = ex.ev(default[1], path)
                    v = rs[0][1]
            else:
                raise Unsupported(f"{clsname}(): missing field {fname}")
            res = ex.setattr_v(path, obj, fname, v, node)
        if kw or pos:
            raise Unsupported(f"{clsname}(): unexpected arguments")
        outs = ex.call_inline(path, f"{modname}:{clsname}.__post_init__", obj, CallArgs([], {}), node)
        return [(p, r if isinstance(r, Raise) else obj) for p, r in outs]

    return ctor


EDQ = "statemachine.event_data:"
td_model = ClassModel(
    "TriggerData",
    fields={"machine": "StateMachine", "event": "Event", "model": "Model", "args": "tuple",
            "kwargs": "dict[str,Val]"},
)
td_model.ctor = dataclass_ctor("statemachine.event_data", "TriggerData", {})


def td_eq(ex, path, a, b):
    """@dataclass __eq__: same class and field-wise equal (machine, event, model, args, kwargs);
    args/kwargs compared as opaque references here (equal references are equal values)."""
    if not (isinstance(b, O) and b.cls == "TriggerData"):
        return z3.BoolVal(False)
    f = lambda n, x: path.sel("TriggerData." + n, x.e)  # noqa: E731
    return z3.Or(a.e == b.e, z3.And(
        f("machine", a) == f("machine", b), f("model", a) == f("model", b),
        path.sel("Event.id", f("event", a)) == path.sel("Event.id", f("event", b)),
        f("args", a) == f("args", b), f("kwargs", a) == f("kwargs", b)))


td_model.eq_fn = td_eq
ed_model = ClassModel(
    "EventData",
    fields={"trigger_data": "TriggerData", "transition": "Transition", "state": "Opt[State]",
            "source": "Opt[State]", "target": "State", "result": "Val", "executed": "bool",
            "machine": "StateMachine"},
    props={"event": INL(EDQ + "EventData.event"), "args": INL(EDQ + "EventData.args"),
           "extended_kwargs": INL(EDQ + "EventData.extended_kwargs")},
)
ed_model.ctor = dataclass_ctor("statemachine.event_data", "EventData", {})
GLOBAL_NAMES["EventData"] = Py(("class", "EventData"))
GLOBAL_NAMES["TriggerData"] = Py(("class", "TriggerData"))


# --------------------------------------------------------------------------- world predicates
def wf_world(s):
    """Well-formedness of the single-machine world in heap view `s` (an invariant of construction:
    established by StateMachine.__init__ / BaseEngine.__init__, never written afterwards)."""
    al = s["ghost.alloc"]
    objs = [W.SM, W.ENG, W.REG, W.MODEL, W.Q, W.LK, W.SENT, W.SMAP, W.REGD, W.CACHE]
    return {
        "wf:world-objects-allocated": z3.And(*[z3.And(o >= FIRST_ADDR, o < al) for o in objs]),
        "wf:world-objects-distinct": z3.Distinct(*objs),
        "wf:engine.sm": s.sel("Engine.sm", W.ENG) == W.SM,
        "wf:sm._engine": s.sel("StateMachine._engine", W.SM) == W.ENG,
        "wf:sm._callbacks": s.sel("StateMachine._callbacks", W.SM) == W.REG,
        "wf:sm.model": s.sel("StateMachine.model", W.SM) == W.MODEL,
        "wf:sm.states_map": s.sel("StateMachine.states_map", W.SM) == W.SMAP,
        "wf:engine.queue": s.sel("Engine._external_queue", W.ENG) == W.Q,
        "wf:engine.lock": s.sel("Engine._processing", W.ENG) == W.LK,
        "wf:engine.sentinel": s.sel("Engine._sentinel", W.ENG) == W.SENT,
        "wf:registry.dict": s.sel("CallbacksRegistry._registry", W.REG) == W.REGD,
        "wf:sm.state-cache": s.sel("StateMachine._states_for_instance", W.SM) == W.CACHE,
        "wf:queue-cursors": z3.And(0 <= s.sel("deque.head", W.Q), s.sel("deque.head", W.Q) <= s.sel("deque.tail", W.Q)),
        "wf:log-cursors": z3.And(s.g("ntrig") >= 0, s.g("ng") >= 0, s.g("ncb") >= 0),
    }


def qh(s):
    return s.sel("deque.head", W.Q)


def qt(s):
    return s.sel("deque.tail", W.Q)


def qarr(s):
    return s.sel("deque.arr", W.Q)


def rtc(s):
    return s.sel("Engine._rtc", W.ENG)


def locked(s):
    return s.sel("Lock.locked", W.LK)


def mstate(s):
    return s.sel("Model.state", W.MODEL)


def _plain_array(a):
    return z3.is_const(a) and a.decl().kind() == z3.Z3_OP_UNINTERPRETED


def prefix_kept(a0, a1, upto, tag="k"):
    k = z3.Const(f"{tag}!pk", Int)
    body = z3.Implies(z3.And(k >= 0, k < upto), z3.Select(a1, k) == z3.Select(a0, k))
    # a trigger may not contain logical connectives: a log that is a Store(..., Not(..)) term (the code computed the
    # logged verdict with `not`/`or`) cannot be one; fall back to the other array, or to no explicit trigger
    pat = z3.Select(a1, k) if _plain_array(a1) else z3.Select(a0, k) if _plain_array(a0) else None
    return z3.ForAll([k], body, patterns=[pat]) if pat is not None else z3.ForAll([k], body)


def others_kept(key, s0, s, ref):
    """Array field `key` unchanged at every pre-existing object other than `ref`."""
    o = z3.Const("o!ok", Int)
    return z3.ForAll([o], z3.Implies(z3.And(o != ref, o < s0["ghost.alloc"]),
                                     z3.Select(s[key], o) == z3.Select(s0[key], o)),
                     patterns=[z3.Select(s[key], o)])


def queue_items_valid(s):
    k = z3.Const("k!qv", Int)
    td = z3.Select(qarr(s), k)
    return z3.ForAll([k], z3.Implies(
        z3.And(k >= qh(s), k < qt(s)),
        z3.And(td >= FIRST_ADDR, td < s["ghost.alloc"],
               s.sel("TriggerData.machine", td) == W.SM,
               s.sel("TriggerData.model", td) == W.MODEL,
               s.sel("TriggerData.event", td) >= FIRST_ADDR,
               s.sel("TriggerData.event", td) < s["ghost.alloc"])))



def reg_has(s, key):
    return z3.Select(s.sel("dict.has", W.REGD), key)


def reg_exec(s, key):
    return z3.Select(s.sel("dict.val", W.REGD), key)


def exec_len(s, ex):
    dq = s.sel("CallbacksExecutor.items", ex)
    return s.sel("deque.tail", dq) - s.sel("deque.head", dq)


def group_empty(s, key):
    """No callback is registered under `key`: no executor, or an executor without entries (the
    async engine's `self._registry[key]` on a defaultdict creates empty ones on first use)."""
    return z3.Or(z3.Not(reg_has(s, key)), exec_len(s, reg_exec(s, key)) == 0)


def wrapper_wf(s, w):
    from pyvc.core import TRUE_OBJ, FALSE_OBJ
    exp = s.sel("CallbackWrapper.expected_value", w)
    return z3.And(z3.Or(exp == NONE, exp == TRUE_OBJ, exp == FALSE_OBJ),
                  s.sel("CallbackWrapper._callback", w) >= FIRST_ADDR, s.sel("CallbackWrapper.condition", w) >= FIRST_ADDR)


def exec_wf(s, ex):
    dq = s.sel("CallbacksExecutor.items", ex)
    arr, h, t = s.sel("deque.arr", dq), s.sel("deque.head", dq), s.sel("deque.tail", dq)
    p = z3.Const("p!ew", Int)
    return z3.And(dq != W.Q, dq >= FIRST_ADDR, dq < s["ghost.alloc"], t >= h,
                  z3.ForAll([p], z3.Implies(z3.And(p >= h, p < t), z3.And(
                      z3.Select(arr, p) >= FIRST_ADDR, z3.Select(arr, p) < s["ghost.alloc"],
                      wrapper_wf(s, z3.Select(arr, p)))), patterns=[z3.Select(arr, p)]))


def wf_registry(s):
    """REG (DESIGN 3.3): every registered executor is a valid object holding valid wrappers."""
    k = z3.Const("k!wr", Str)
    e = reg_exec(s, k)
    return z3.ForAll([k], z3.Implies(reg_has(s, k), z3.And(e >= FIRST_ADDR, e < s["ghost.alloc"], exec_wf(s, e))),
                     patterns=[reg_has(s, k)])


def wf_cache(s):
    """The per-instance state cache maps a class-level State to ITS InstanceState view of this machine."""
    st = z3.Const("st!wc", Int)
    v = z3.Select(s.sel("idict.val", W.CACHE), st)
    return z3.ForAll([st], z3.Implies(z3.Select(s.sel("idict.has", W.CACHE), st), z3.And(
        v >= FIRST_ADDR, v < s["ghost.alloc"], s.sel("IState._state", v) == st, s.sel("IState._machine", v) == W.SM)),
        patterns=[z3.Select(s.sel("idict.has", W.CACHE), st)])


def dicts_kept(s0, s):
    o = z3.Const("o!dk", Int)
    return z3.ForAll([o], z3.Implies(z3.And(o >= 0, o < s0["ghost.alloc"], o != W.REGD), z3.And(
        z3.Select(s["dict.has"], o) == z3.Select(s0["dict.has"], o),
        z3.Select(s["dict.val"], o) == z3.Select(s0["dict.val"], o))),
        patterns=[z3.Select(s["dict.has"], o), z3.Select(s["dict.val"], o)])


def registry_monotone(s0, s):
    k = z3.Const("k!rm", Str)
    return z3.ForAll([k], z3.And(
        z3.Implies(reg_has(s0, k), z3.And(reg_has(s, k), reg_exec(s, k) == reg_exec(s0, k))),
        z3.Implies(z3.And(z3.Not(reg_has(s0, k)), reg_has(s, k)), z3.And(
            exec_len(s, reg_exec(s, k)) == 0, reg_exec(s, k) >= s0["ghost.alloc"], reg_exec(s, k) < s["ghost.alloc"],
            s.sel("CallbacksExecutor.items", reg_exec(s, k)) >= s0["ghost.alloc"],
            s.sel("CallbacksExecutor.items", reg_exec(s, k)) < s["ghost.alloc"]))))


ENV_MODIFIES = [
    "deque.arr", "deque.tail", "deque.head", "Model.state",
    "ghost.ntrig", "ghost.trig_log", "ghost.trig_res",
    "ghost.ng", "ghost.g_key", "ghost.g_ms", "ghost.g_ks", "ghost.g_kind", "ghost.g_ok", "ghost.g_res",
    "ghost.g_reslen", "ghost.st", "ghost.ac", "ghost.ares", "ghost.ncb", "ghost.cb_who", "ghost.cb_ms", "ghost.cb_ks",
    "idict.has", "idict.val", "IState._state+", "IState._machine+",
    "list.arr+", "list.len+", "dict.has", "dict.val", "CallbacksExecutor.items+", "CallbacksExecutor.items_already_seen+",
    "TriggerData.machine+", "TriggerData.event+",
    "TriggerData.model+", "TriggerData.args+", "TriggerData.kwargs+", "Event.id+", "Event.name+",
    "Event._sm+", "Event._has_real_id+", "Event._transitions+",
]


def env_effect(s0, s, glog_grows_by=None):
    """EnvCB (DESIGN 3.4): what code running *inside* a callback group may do to engine state.

    RTC with the lock held (the only way callbacks run in RTC mode): nested sends only append to the
    queue; nothing is popped, no _trigger runs, the model's state field, the logs and the status
    map are untouched.  Non-RTC: nested events run to completion inside the callback, so the
    queue is balanced again on return and rows of TriggerData objects that existed before are kept.
    """
    rl = z3.And(rtc(s0), locked(s0))
    al0 = s0["ghost.alloc"]
    x = z3.Const("x!env", Int)
    f = {
        "env:queue-others-kept": z3.And(others_kept("deque.arr", s0, s, W.Q),
                                        others_kept("deque.head", s0, s, W.Q),
                                        others_kept("deque.tail", s0, s, W.Q)),
        "env:model-others-kept": others_kept("Model.state", s0, s, W.MODEL),
        "env:state-cache-only": z3.And(others_kept("idict.has", s0, s, W.CACHE), others_kept("idict.val", s0, s, W.CACHE)),
        "env:rtc-append-only": z3.Implies(rl, z3.And(
            qh(s) == qh(s0), qt(s) >= qt(s0), prefix_kept(qarr(s0), qarr(s), qt(s0)))),
        "env:rtc-model-state-kept": z3.Implies(rl, mstate(s) == mstate(s0)),
        "env:rtc-no-trigger": z3.Implies(rl, z3.And(
            s.g("ntrig") == s0.g("ntrig"), s.g("trig_log") == s0.g("trig_log"),
            s.g("trig_res") == s0.g("trig_res"), s.g("st") == s0.g("st"), s.g("ac") == s0.g("ac"),
            s.g("ares") == s0.g("ares"))),
        "env:sent-log-append-only": z3.And(qt(s) >= qt(s0), prefix_kept(qarr(s0), qarr(s), qt(s0), "esl")),
        "env:nonrtc-balanced": z3.Implies(z3.Not(rtc(s0)), z3.And(
            qt(s) - qh(s) == qt(s0) - qh(s0), qh(s) >= qh(s0), qt(s) >= qt(s0), qh(s) <= qt(s))),
        "env:nonrtc-old-rows-kept": z3.Implies(z3.Not(rtc(s0)), z3.And(
            z3.ForAll([x], z3.Implies(z3.And(x >= 0, x < al0), z3.And(
                z3.Select(s.g("st"), x) == z3.Select(s0.g("st"), x),
                z3.Select(s.g("ac"), x) == z3.Select(s0.g("ac"), x),
                z3.Select(s.g("ares"), x) == z3.Select(s0.g("ares"), x)))),
            s.g("ntrig") >= s0.g("ntrig"),
            prefix_kept(s0.g("trig_log"), s.g("trig_log"), s0.g("ntrig"), "tl"),
        )),
        "env:queued-items-valid": z3.Implies(queue_items_valid(s0), queue_items_valid(s)),
        "env:registry-stays-wf": z3.Implies(wf_registry(s0), wf_registry(s)),
        "env:state-cache-stays-wf": z3.Implies(wf_cache(s0), wf_cache(s)),
        "env:dicts-of-old-objects-kept": dicts_kept(s0, s),
        "env:registry-grows-only-by-empty-groups": registry_monotone(s0, s),
        "env:cb-log-grows": s.g("ncb") >= s0.g("ncb"),
        "env:glog-prefix-kept": z3.And(
            s.g("ng") >= s0.g("ng"),
            prefix_kept(s0.g("g_key"), s.g("g_key"), s0.g("ng"), "gk"),
            prefix_kept(s0.g("g_ms"), s.g("g_ms"), s0.g("ng"), "gm"),
            prefix_kept(s0.g("g_ks"), s.g("g_ks"), s0.g("ng"), "gs"),
            prefix_kept(s0.g("g_kind"), s.g("g_kind"), s0.g("ng"), "gd"),
            prefix_kept(s0.g("g_ok"), s.g("g_ok"), s0.g("ng"), "go"),
            prefix_kept(s0.g("g_res"), s.g("g_res"), s0.g("ng"), "gr"),
            prefix_kept(s0.g("g_reslen"), s.g("g_reslen"), s0.g("ng"), "gl"),
        ),
    }
    return f


def kw_state(s, kwargs):
    return z3.Select(s.sel("dict.val", kwargs), z3.StringVal("state"))


# --------------------------------------------------------------------------- WF(cls)  (DESIGN 3.3)
def smap_has(s, v):
    return z3.Select(s.sel("idict.has", W.SMAP), v)


def smap_val(s, v):
    return z3.Select(s.sel("idict.val", W.SMAP), v)


def valid_obj(s, o):
    return z3.And(o >= FIRST_ADDR, o < s["ghost.alloc"])


def grouper_key(s, g):
    return s.sel("SpecListGrouper.key", g)


def wf_transition(s, t):
    """A transition of the class: valid target whose value is mapped to it; valid groupers."""
    tgt = s.sel("Transition.target", t)
    src = s.sel("Transition.source", t)
    gs = [s.sel("Transition." + g, t) for g in ("validators", "cond", "before", "on", "after")]
    return z3.And(
        valid_obj(s, t), valid_obj(s, tgt),
        smap_has(s, s.sel("State.value", tgt)), smap_val(s, s.sel("State.value", tgt)) == tgt,
        z3.Or(src == NONE, valid_obj(s, src)),
        z3.Implies(s.sel("Transition.internal", t), src == tgt),
        valid_obj(s, s.sel("State.enter", tgt)), valid_obj(s, s.sel("State.exit", tgt)),
        z3.Implies(src != NONE, z3.And(valid_obj(s, s.sel("State.exit", src)), valid_obj(s, s.sel("State.enter", src)))),
        *[valid_obj(s, g) for g in gs],
    )


def state_transitions(s, st):
    """(array, length) of the outgoing transitions of class-level state `st`."""
    lst = s.sel("TransitionList.transitions", s.sel("State.transitions", st))
    return s.sel("list.arr", lst), s.sel("list.len", lst)


def wf_class(s):
    """WF(cls): every mapped state is a valid object mapped from its own value; its transition
    list holds pairwise distinct, well-formed transitions that start in it."""
    v, j, j2 = z3.Const("v!wf", Int), z3.Const("j!wf", Int), z3.Const("j2!wf", Int)
    st = smap_val(s, v)
    arr, n = state_transitions(s, st)
    return {
        "wfc:mapped-states-valid": z3.ForAll([v], z3.Implies(smap_has(s, v), z3.And(
            valid_obj(s, st), s.sel("State.value", st) == v, n >= 0,
            valid_obj(s, s.sel("State.transitions", st)),
            valid_obj(s, s.sel("TransitionList.transitions", s.sel("State.transitions", st)))))),
        "wfc:initial-state-mapped": z3.And(
            valid_obj(s, s.sel("StateMachine.initial_state", W.SM)),
            smap_has(s, s.sel("State.value", s.sel("StateMachine.initial_state", W.SM))),
            smap_val(s, s.sel("State.value", s.sel("StateMachine.initial_state", W.SM))) == s.sel("StateMachine.initial_state", W.SM)),
        "wfc:mapped-states-have-groupers": z3.ForAll([v], z3.Implies(smap_has(s, v), z3.And(
            valid_obj(s, s.sel("State.enter", st)), valid_obj(s, s.sel("State.exit", st))))),
        "wfc:transitions-wf": z3.ForAll([v, j], z3.Implies(
            z3.And(smap_has(s, v), j >= 0, j < n),
            z3.And(wf_transition(s, z3.Select(arr, j)), s.sel("Transition.source", z3.Select(arr, j)) == st))),
        "wfc:transitions-distinct": z3.ForAll([v, j, j2], z3.Implies(
            z3.And(smap_has(s, v), j >= 0, j < j2, j2 < n), z3.Select(arr, j) != z3.Select(arr, j2))),
    }


class AsyncBinding:
    """Mixin that binds a shared contract to the AsyncEngine twin of a function: same clauses,
    awaited at call sites; AsyncEngine.__init__ rejects rtc=False, so rtc holds."""

    is_async = True

    def pre(self, s, a):
        f = super().pre(s, a)
        f["async-engine-is-rtc"] = rtc(s)
        return f
