"""python3-vt -m pyvc.cli <qualname> : verify one function against its contract (debug aid)."""
import os
import sys
import time

os.environ.setdefault("PYVC_OPEN_BEFORE_CUT", "1000000")  # debugging tool: full budget for every obligation
sys.path.insert(0, "/verif")
import contracts  # noqa
from pyvc.execu import CONTRACTS
from pyvc.verify import verify_function, discharge


def main():
    q = sys.argv[1]
    c = CONTRACTS[q]
    t0 = time.time()
    rep = verify_function(q, c)
    print("paths", rep.paths, "pruned", rep.pruned, "pre_sat", rep.pre_sat, "unsupported", rep.unsupported,
          "error", rep.error, "gen %.1fs" % (time.time() - t0))
    obs = rep.obligations + rep.canaries
    discharge(obs)
    bad = 0
    for ob in rep.obligations:
        if ob.status != "discharged":
            bad += 1
            print("  ", ob.status.upper(), ob.name, ob.backend, "%.0fms" % ob.ms)
            if "-v" in sys.argv and ob.model_text:
                print(ob.model_text[:3000])
    for ob in rep.canaries:
        if ob.status == "discharged":
            print("   CANARY NOT FAILING (vacuous path?)", ob.name, ob.status)
    if "-t" in sys.argv:
        for ob in sorted(rep.obligations + rep.canaries, key=lambda o: -o.ms)[:25]:
            print("   %.0fms %s %s %s" % (ob.ms, ob.backend, ob.status, ob.name))
    print(len(rep.obligations), "obligations,", len(rep.obligations) - bad, "discharged;", len(rep.canaries),
          "canaries; total %.1fs" % (time.time() - t0))


main()
