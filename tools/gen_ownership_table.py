"""Generates checker/ownership_table.json from the CURRENT tree by the rules below (run by hand when the
table is reviewed; the committed table is what the C16 scan compares against)."""
import json, sys
sys.path.insert(0, "/verif")
from checker import scans

INSTANCE = {"StateMachine", "BaseEngine", "SyncEngine", "AsyncEngine", "CallbackWrapper", "CallbacksExecutor", "CallbacksRegistry",
            "InstanceState", "EventData", "TriggerData", "DotGraphMachine", "Model", "InvalidStateValue", "TransitionNotAllowed",
            "MachineMixin", "_TransitionBuilder"}
DEFINITION = {"State", "Transition", "TransitionList", "Events", "CallbackSpec", "CallbackSpecList", "SpecListGrouper", "States",
              "Event", "AnyState", "_ToState", "_FromState"}


def classify(site):
    rel, q, kind, root, what = site
    cls = q.split(".")[0]
    if root == "_REGISTRY":
        return "process-global:registry"
    if root == "_cached_loop":
        return "process-global:thread-local-loop"
    if q.startswith("signature_cache.") and root == "cache":
        return "process-global:signature-cache"
    if root == "cls":
        return "class-owned"
    if root == "func" and cls in ("CallbackSpec", "CallbackSpecList"):
        return "user-owned:attributes-stamped-on-user-functions"
    if (q, root) == ("Listeners._take_callback", "callback"):
        return "fresh:adapter-just-built"
    if (q, root) == ("Listeners._take_callback", "callbacks"):
        return "call-local"
    if (q, root, what) == ("Listeners.build", "spec", "names_not_found"):
        return "class-definition-owned:written-at-instance-time(behaviour-neutral: only feeds an error message)"
    if (q, root) == ("Listeners.resolve", "executor"):
        return "instance-owned"
    if root in ("kwargs", "state") and kind in ("item-store", "mutating-call"):
        return "call-local"
    if (q, root) == ("State.for_instance", "cache"):
        return "instance-owned"
    if q == "StateMachine.bind_events_to" and root == "target":
        return "user-owned:bind-targets"
    if q == "Event.__new__" and root == "instance":
        return "fresh:object-under-construction"
    if root in ("state", "origin", "transition") and cls in ("AnyState", "_FromState", "StateMachineMetaclass", "TransitionList"):
        return "class-definition-owned"
    if root in ("Events", "TransitionList"):
        return "fresh:object-under-construction"
    if root == "self":
        if cls in INSTANCE:
            return "instance-owned"
        if cls in DEFINITION:
            return "class-definition-owned"
    return "UNCLASSIFIED"


rows = [{"site": list(s), "owner": classify(s)} for s in scans.write_sites()]
bad = [r for r in rows if r["owner"] == "UNCLASSIFIED"]
for r in bad:
    print("UNCLASSIFIED", r["site"])
json.dump(rows, open("/verif/checker/ownership_table.json", "w"), indent=0)
print(len(rows), "sites;", len(bad), "unclassified")
