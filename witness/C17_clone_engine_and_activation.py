"""C17 witness (#14): (a) a machine whose only coroutine callbacks live on a listener must clone to a
machine with the same (async) engine; (b) a clone of a not-yet-activated async machine must still
activate.  Exit 1 if a defect is present."""
import asyncio
import copy
import pickle
import sys
import warnings

from statemachine import State, StateMachine

warnings.simplefilter("ignore")


class AsyncListener:
    def __init__(self):
        self.seen = []

    async def after_transition(self, event):
        self.seen.append(str(event))


class Plain(StateMachine):
    a = State(initial=True)
    b = State()
    go = a.to(b)
    back = b.to(a)


class AsyncM(StateMachine):
    a = State(initial=True)
    b = State()
    go = a.to(b)
    back = b.to(a)

    async def on_go(self):
        return "went"


bad = []
for how in ("deepcopy", "pickle"):
    clone_of = (lambda x: copy.deepcopy(x)) if how == "deepcopy" else (lambda x: pickle.loads(pickle.dumps(x)))
    sm = Plain(listeners=[AsyncListener()])
    c = clone_of(sm)
    if type(c._engine).__name__ != type(sm._engine).__name__:
        bad.append(f"{how}: original engine {type(sm._engine).__name__}, clone engine {type(c._engine).__name__}")
    sm2 = AsyncM()  # created from sync code: not yet activated

    async def drive(m):
        return await m.go()

    c2 = clone_of(sm2)
    try:
        r = asyncio.run(drive(c2))
        if r != "went" or c2.current_state.id != "b":
            bad.append(f"{how}: clone of an un-activated async machine misbehaved: {r!r}")
    except Exception as e:  # noqa: BLE001
        bad.append(f"{how}: clone of an un-activated async machine: {type(e).__name__}: {e}")
if bad:
    print("C17 VIOLATED:", "; ".join(bad))
    sys.exit(1)
print("ok")
