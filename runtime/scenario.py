"""Scenario layer (DESIGN 2.7): small concrete worlds run on the REAL library and compared with an
independent reference interpreter written from the property statements.  Three uses: replay /
search for a failing input after an obligation fails; bounded stand-in for functions outside the
verifier's reach (labelled bounded, never counted as proved); cross-check of the contracts.

Runs under /venv/bin/python with PYTHONPATH=<tree under check>.

A *spec* is a plain dict (JSON-able) so that a failing scenario can be written out as a replay:
  states:      [{"id", "value", "initial", "final"}]
  transitions: [{"src", "dst", "events": [..], "internal", "cond": [guard names], "unless": [...],
                 "validators": [names]}]          (declaration order = list order)
  guards:      {name: [bool, ...]}   scripted verdicts, consumed per evaluation (last one repeats)
  raises:      {callback name: exception class name}     callbacks that raise
  sends:       {callback name: [event, ...]}             nested sends performed by a callback
  returns:     {callback name: value}                    return value of an action callback
  options:     {"rtc", "allow", "async", "start_value", "stored"}
  events:      [event name, ...]     the history to drive
"""
from __future__ import annotations

import asyncio
import itertools
import json
import random
import sys
import warnings

warnings.simplefilter("ignore")

GROUPS = ["validators", "cond", "before", "exit", "on", "enter", "after"]
_uid = itertools.count()


class Boom(Exception):
    pass


class Boom2(LookupError):
    pass


class Runaway(BaseException):
    """A self-feeding scenario (every step sends another event): not a verdict, the scenario is skipped."""


LIMIT = 160


EXC = {"Boom": Boom, "Boom2": Boom2}


# --------------------------------------------------------------------------- building the real machine
def callback_names(spec):
    """All action callback names the generated class defines, per the naming convention."""
    names = []
    evs = sorted({e for t in spec["transitions"] for e in t["events"]})
    for e in evs:
        names += [f"before_{e}", f"on_{e}", f"after_{e}"]
    names += ["before_transition", "on_transition", "after_transition", "on_enter_state", "on_exit_state"]
    for s in spec["states"]:
        names += [f"on_enter_{s['id']}", f"on_exit_{s['id']}"]
    return names


def build(spec):
    """-> (machine class, log list).  Every callback has a unique __qualname__ (the library's
    signature cache is keyed by it) and logs (name, model state at call, kwargs state id, event)."""
    from statemachine import State, StateMachine

    tag = f"G{next(_uid)}"
    log = []
    is_async = spec["options"].get("async", False)
    active = set(spec.get("callbacks", callback_names(spec)))
    ns = {}
    states = {}
    for s in spec["states"]:
        states[s["id"]] = State(value=s["value"], initial=s["initial"], final=s["final"])
        ns[s["id"]] = states[s["id"]]
    by_event = {}
    for t in spec["transitions"]:
        kw = {}
        if t.get("cond"):
            kw["cond"] = list(t["cond"])
        if t.get("unless"):
            kw["unless"] = list(t["unless"])
        if t.get("validators"):
            kw["validators"] = list(t["validators"])
        if t.get("internal"):
            kw["internal"] = True
        tl = states[t["src"]].to(states[t["dst"]], **kw)
        for e in t["events"]:
            by_event[e] = (by_event[e] | tl) if e in by_event else tl
    ns.update(by_event)

    def mk(name, kind):
        counter = {"n": 0}

        def body(self, kwargs):
            st = kwargs.get("state")
            log.append((name, self.current_state_value, getattr(st, "id", None), str(kwargs.get("event"))))
            for ev in spec.get("sends", {}).get(name, []):
                r = self.send(ev)
                log.append((name + ":nested-send-returned", repr(r), None, ev))
            if name in spec.get("raises", {}):
                raise EXC[spec["raises"][name]](name)
            if kind == "guard":
                seq = spec["guards"][name]
                v = seq[min(counter["n"], len(seq) - 1)]
                counter["n"] += 1
                return v
            if kind == "validator":
                return None
            return spec.get("returns", {}).get(name)

        if is_async and kind != "sync-only":
            async def cb(self, **kwargs):
                st = kwargs.get("state")
                if len(log) > LIMIT:
                    raise Runaway()
                log.append((name, self.current_state_value, getattr(st, "id", None), str(kwargs.get("event"))))
                for ev in spec.get("sends", {}).get(name, []):
                    r = await self.send(ev)  # inside a running loop send() hands back the coroutine
                    log.append((name + ":nested-send-returned", repr(r), None, ev))
                if name in spec.get("raises", {}):
                    raise EXC[spec["raises"][name]](name)
                if kind == "guard":
                    seq = spec["guards"][name]
                    v = seq[min(counter["n"], len(seq) - 1)]
                    counter["n"] += 1
                    return v
                if kind == "validator":
                    return None
                return spec.get("returns", {}).get(name)
        else:
            def cb(self, **kwargs):
                return body(self, kwargs)
        cb.__name__ = name
        cb.__qualname__ = f"{tag}.{name}"
        return cb

    for g in sorted(spec.get("guards", {})):
        ns[g] = mk(g, "guard")
    for v in sorted({v for t in spec["transitions"] for v in t.get("validators", [])}):
        ns[v] = mk(v, "validator")
    for n in callback_names(spec):
        if n in active:
            ns[n] = mk(n, "action")
    cls = type(tag, (StateMachine,), ns)
    return cls, log


# --------------------------------------------------------------------------- reference interpreter
class Ref:
    """The machine as the properties describe it (C01-C04, C10, C11, C14), independent of the library."""

    def __init__(self, spec):
        self.spec = spec
        self.o = spec["options"]
        self.state = None  # state id
        self.log = []
        self.queue = []
        self.busy = False
        self.gcount = {}
        self.active = set(spec.get("callbacks", callback_names(spec)))
        self.sid = {s["id"]: s for s in spec["states"]}
        self.by_value = {json.dumps(s["value"]): s["id"] for s in spec["states"]}

    def value(self, sid):
        return None if sid is None else self.sid[sid]["value"]

    # one callback invocation
    def call(self, name, view, event, kind="action"):
        if len(self.log) > LIMIT:
            raise Runaway()
        self.log.append((name, self.value(self.state), view, event))
        for ev in self.spec.get("sends", {}).get(name, []):
            r = self.send(ev)
            self.log.append((name + ":nested-send-returned", repr(r), None, ev))
        if name in self.spec.get("raises", {}):
            raise EXC[self.spec["raises"][name]](name)
        if kind == "guard":
            seq = self.spec["guards"][name]
            n = self.gcount.get(name, 0)
            self.gcount[name] = n + 1
            return seq[min(n, len(seq) - 1)]
        if kind == "validator":
            return None
        return self.spec.get("returns", {}).get(name)

    def group(self, names, view, event):
        if not self.o.get("async"):
            return [self.call(n, view, event) for n in names if n in self.active]
        # AsyncEngine: the callbacks of one group are started together (documented: "executed in
        # parallel"), so a failing one does not stop its group mates; the first failure propagates
        res, first = [], None
        for n in names:
            if n in self.active:
                try:
                    res.append(self.call(n, view, event))
                except Exception as e:  # noqa: BLE001
                    first = first or e
        if first is not None:
            raise first
        return res

    def activate(self, t, event):
        src, dst = t["src"], t["dst"]
        for v in t.get("validators", []):
            self.call(v, src, event, "validator")
        for g in t.get("cond", []):
            if not self.call(g, src, event, "guard"):
                return False, None
        for g in t.get("unless", []):
            if self.call(g, src, event, "guard"):
                return False, None
        res = self.group(["before_transition", f"before_{event}"], src, event)
        if not t.get("internal"):
            self.group(["on_exit_state", f"on_exit_{src}"], src, event)
        res += self.group(["on_transition", f"on_{event}"], src, event)
        self.state = dst
        if not t.get("internal"):
            self.group(["on_enter_state", f"on_enter_{dst}"], dst, event)
        self.group([f"after_{event}", "after_transition"], dst, event)
        return True, (None if not res else res[0] if len(res) == 1 else res)

    def trigger(self, event):
        if event == "__initial__":
            sv = self.o.get("start_value")
            dst = self.by_value[json.dumps(sv)] if sv is not None else next(s["id"] for s in self.spec["states"] if s["initial"])
            self.state = dst
            self.group(["on_enter_state", f"on_enter_{dst}"], dst, event)
            return "<sentinel>"
        for t in self.spec["transitions"]:
            if t["src"] != self.state or event not in t["events"]:
                continue
            ok, r = self.activate(t, event)
            if ok:
                return r
        if self.o.get("allow"):
            return None
        raise NotAllowed(event, self.state)

    def send(self, event):
        if not self.o.get("rtc", True):
            return self.trigger(event)
        self.queue.append(event)
        if self.busy:
            return None
        self.busy = True
        first = "<sentinel>"
        try:
            while self.queue:
                ev = self.queue.pop(0)
                try:
                    r = self.trigger(ev)
                    if first == "<sentinel>":
                        first = r
                except Exception:
                    self.queue.clear()
                    raise
        finally:
            self.busy = False
        return None if first == "<sentinel>" else first

    def start(self):
        stored = self.o.get("stored")
        if stored is not None:
            self.state = self.by_value[json.dumps(stored)]
            return
        if self.o.get("rtc", True):
            self.send("__initial__")
        else:
            self.trigger("__initial__")


class NotAllowed(Exception):
    def __init__(self, event, state):
        self.event, self.state = event, state
        super().__init__(f"{event} not allowed in {state}")


# --------------------------------------------------------------------------- running both and comparing
class Holder:
    def __init__(self, v):
        self.state = v


def norm_exc(e):
    from statemachine.exceptions import TransitionNotAllowed
    if isinstance(e, TransitionNotAllowed):
        return ("TransitionNotAllowed", str(e.event), getattr(e.state, "id", None))
    if isinstance(e, NotAllowed):
        return ("TransitionNotAllowed", e.event, e.state)
    return (type(e).__name__, str(e))


def run_real(spec):
    cls, log = build(spec)
    o = spec["options"]
    outcomes = []
    kw = dict(rtc=o.get("rtc", True), allow_event_without_transition=o.get("allow", False))
    if o.get("start_value") is not None:
        kw["start_value"] = o["start_value"]
    model = Holder(o.get("stored"))  # always a user model, so the field can be read after a failed construction

    async def drive_async():
        sm = cls(model, **kw) if model is not None else cls(**kw)
        try:
            await sm.activate_initial_state()
            outcomes.append(("activated", sm.current_state_value))
        except Exception as e:  # noqa: BLE001
            outcomes.append(("activation-raised", norm_exc(e), sm.current_state_value))
        for ev in spec["events"]:
            try:
                r = await sm.send(ev)
                outcomes.append(("ok", ev, repr(r), sm.current_state_value))
            except Exception as e:  # noqa: BLE001
                outcomes.append(("raised", ev, norm_exc(e), sm.current_state_value))
        return sm

    def drive_sync():
        try:
            sm = cls(model, **kw) if model is not None else cls(**kw)
            outcomes.append(("activated", sm.current_state_value))
        except Exception as e:  # noqa: BLE001
            outcomes.append(("activation-raised", norm_exc(e), getattr(model, "state", None)))
            return None
        for ev in spec["events"]:
            try:
                r = sm.send(ev)
                outcomes.append(("ok", ev, repr(r), sm.current_state_value))
            except Exception as e:  # noqa: BLE001
                outcomes.append(("raised", ev, norm_exc(e), sm.current_state_value))
        return sm

    if o.get("async"):
        sm = asyncio.run(drive_async())
    else:
        sm = drive_sync()
    return outcomes, list(log), sm


def run_ref(spec):
    ref = Ref(spec)
    outcomes = []
    try:
        ref.start()
        outcomes.append(("activated", ref.value(ref.state)))
    except Exception as e:  # noqa: BLE001
        outcomes.append(("activation-raised", norm_exc(e), ref.value(ref.state)))
        if not spec["options"].get("async"):
            return outcomes, ref.log
    for ev in spec["events"]:
        try:
            r = ref.send(ev)
            outcomes.append(("ok", ev, repr(r), ref.value(ref.state)))
        except Exception as e:  # noqa: BLE001
            outcomes.append(("raised", ev, norm_exc(e), ref.value(ref.state)))
    return outcomes, ref.log


def canon_log(log, spec):
    """Order inside one callback group is unconstrained (docs/actions.md): sort runs of entries that
    belong to the same group."""
    def grp(name):
        base = name.split(":")[0]
        for g, pre in (("before", "before_"), ("after", "after_"), ("enter", "on_enter_"), ("exit", "on_exit_"), ("on", "on_")):
            if base.startswith(pre):
                return g
        return base
    out, run, cur = [], [], None
    for e in log:
        g = grp(e[0])
        if ":nested" in e[0] or g != cur:
            out += sorted(run, key=repr)
            run, cur = [], (None if ":nested" in e[0] else g)
        if ":nested" in e[0]:
            out.append(e)
        else:
            run.append(e)
    out += sorted(run, key=repr)
    return [tuple(x) for x in out]


def compare(spec):
    """-> None if the real library agrees with the reference, else a description of the difference."""
    try:
        ro, rl, _ = run_real(spec)
    except Exception as e:  # class definition rejected etc.
        return f"real library raised while building/running: {type(e).__name__}: {e}"
    eo, el = run_ref(spec)
    if "RecursionError" in repr(ro) or "RecursionError" in repr(eo):
        raise Runaway()  # unbounded depth-first nesting (non-RTC): not a verdict
    if ro != eo:
        for k, (a, b) in enumerate(itertools.zip_longest(ro, eo)):
            if a != b:
                return f"outcome #{k} differs: library {a!r} vs expected {b!r}"
    # executor order is priority order (GENERIC < INLINE < DECORATOR < NAMING < AFTER), which the
    # reference follows; the scripted callbacks never suspend, so async order is the start order too
    a, b = [tuple(x) for x in rl], [tuple(x) for x in el]
    if a != b:
        for k, (x, y) in enumerate(itertools.zip_longest(a, b)):
            if x != y:
                return f"callback log entry #{k} differs: library {x!r} vs expected {y!r}"
    return None


# --------------------------------------------------------------------------- generator
def gen_spec(rng: random.Random, focus=None):
    ns = rng.randint(2, 3)
    ids = [f"s{k}" for k in range(ns)]
    value_pool = rng.choice([[0, 1, 2], ["a", "b", "c"], ["", "x", "y"], [10, 0, -1]])
    states = [{"id": ids[k], "value": value_pool[k], "initial": k == 0, "final": False} for k in range(ns)]
    events = rng.choice([["go"], ["go", "go_back"], ["go", "jump"]])
    guards = {}
    transitions = []
    nt = rng.randint(ns, ns + 2)
    # make every state reachable and non-trap: a ring first
    for k in range(ns):
        transitions.append({"src": ids[k], "dst": ids[(k + 1) % ns], "events": [rng.choice(events)]})
    for _ in range(nt - ns):
        src, dst = rng.choice(ids), rng.choice(ids)
        t = {"src": src, "dst": dst, "events": rng.sample(events, rng.randint(1, len(events)))}
        if src == dst and rng.random() < 0.5:
            t["internal"] = True
        transitions.insert(rng.randint(0, len(transitions)), t)
    for t in transitions:
        for kind in ("cond", "unless"):
            if rng.random() < 0.35:
                g = f"g{len(guards)}"
                guards[g] = [rng.random() < 0.5 for _ in range(rng.randint(1, 3))]
                t.setdefault(kind, []).append(g)
        if rng.random() < 0.15:
            t["validators"] = [f"v{len(guards)}_{len(t.get('validators', []))}"]
    spec = {"states": states, "transitions": transitions, "guards": guards, "raises": {}, "sends": {}, "returns": {},
            "options": {"rtc": rng.random() < 0.8, "allow": rng.random() < 0.3, "async": rng.random() < 0.4},
            "events": [rng.choice(events + ["nope"]) for _ in range(rng.randint(1, 4))]}
    names = callback_names(spec)
    spec["callbacks"] = sorted(n for n in names if rng.random() < 0.45)
    for n in spec["callbacks"]:
        r = rng.random()
        if r < 0.5 and (n.startswith("before") or (n.startswith("on_") and not n.startswith(("on_enter", "on_exit")))):
            spec["returns"][n] = rng.choice([1, 0, None, [1, 2], "r", [], False])
    if spec["options"]["async"]:
        spec["options"]["rtc"] = True
        # async_all evaluates the guards of one transition concurrently (recorded finding C05 #11):
        # keep at most one guard per transition so that the evaluation extent is well defined
        for t in transitions:
            gs = [("cond", g) for g in t.get("cond", [])] + [("unless", g) for g in t.get("unless", [])]
            t.pop("cond", None)
            t.pop("unless", None)
            if gs:
                t[gs[0][0]] = [gs[0][1]]
        used = {g for t in transitions for g in t.get("cond", []) + t.get("unless", [])}
        for g in list(guards):
            if g not in used:
                del guards[g]
    # faults and nested sends
    everything = spec["callbacks"] + sorted(guards) + [v for t in transitions for v in t.get("validators", [])]
    if everything and rng.random() < 0.4:
        spec["raises"][rng.choice(everything)] = rng.choice(["Boom", "Boom2"])
    if spec["callbacks"] and rng.random() < 0.5:
        for n in rng.sample(spec["callbacks"], min(len(spec["callbacks"]), rng.randint(1, 2))):
            if n not in spec["raises"] or rng.random() < 0.3:
                spec["sends"][n] = [rng.choice(events) for _ in range(rng.randint(1, 2))]
    if rng.random() < 0.15:
        spec["options"]["start_value"] = rng.choice(states)["value"]
    if rng.random() < 0.15:
        spec["options"]["stored"] = rng.choice(states)["value"]
    return spec


def bounded_by_depth(spec):
    """Self-feeding machines (a nested send on every step) do not terminate in RTC mode: skip them."""
    return True


REPLAY_TEMPLATE = '''"""Replay of a failing scenario found by /verif/runtime/scenario.py (property {pid}).
Run:  PYTHONPATH=<tree under check>:/verif /venv/bin/python {path}
Exit 1 = the real library disagrees with the reference interpreter written from the property."""
import json, sys
sys.path.insert(0, "/verif")
from runtime.scenario import compare
spec = json.loads({spec!r})
diff = compare(spec)
if diff:
    print("VIOLATED {pid}:", diff)
    sys.exit(1)
print("ok")
'''


def search(pid, budget_s, seed, want_async=None, out_dir="/verif/replays"):
    """Random search for a disagreement.  -> dict with evaluations, distinct, first failing replay."""
    import os
    import signal
    import time
    rng = random.Random(seed)
    t0 = time.time()
    n = 0
    distinct = set()
    found = None
    skipped = 0

    class TO(BaseException):
        pass

    def alarm(*_):
        raise TO()

    signal.signal(signal.SIGALRM, alarm)
    while time.time() - t0 < budget_s:
        spec = gen_spec(rng)
        if want_async is not None:
            spec["options"]["async"] = want_async
            if want_async:
                spec["options"]["rtc"] = True
        key = json.dumps(spec, sort_keys=True)
        distinct.add(hash(key))
        n += 1
        try:
            signal.alarm(1)
            try:
                diff = compare(spec)
            finally:
                signal.alarm(0)
        except (TO, Runaway, RecursionError):
            skipped += 1
            continue  # non-terminating self-feeding machine: not a verdict
        if diff:
            os.makedirs(out_dir, exist_ok=True)
            path = os.path.join(out_dir, f"{pid}-scenario-{abs(hash(key)) % 10**8}.py")
            with open(path, "w") as f:
                f.write(REPLAY_TEMPLATE.format(pid=pid, path=path, spec=key))
            found = {"replay": path, "difference": diff, "spec": spec}
            break
    return {"evaluations": n, "distinct": len(distinct), "skipped_runaway": skipped, "found": found,
            "seconds": round(time.time() - t0, 1)}


if __name__ == "__main__":
    pid = sys.argv[1] if len(sys.argv) > 1 else "C01"
    budget = float(sys.argv[2]) if len(sys.argv) > 2 else 10
    seed = int(sys.argv[3]) if len(sys.argv) > 3 else 0
    res = search(pid, budget, seed)
    print(json.dumps({k: v for k, v in res.items() if k != "found"} | {"found": bool(res["found"]),
                     "replay": res["found"]["replay"] if res["found"] else None,
                     "difference": res["found"]["difference"] if res["found"] else None}))
    sys.exit(1 if res["found"] else 0)
