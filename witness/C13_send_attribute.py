"""C13 witness (#3): sm.send(<name of an attribute that is not an event>) must be an unknown event,
never a call of that attribute.  Exit 1 if the defect is present."""
import sys
from statemachine import State, StateMachine
from statemachine.exceptions import TransitionNotAllowed


class M(StateMachine):
    a = State(initial=True)
    b = State()
    go = a.to(b)

    def helper(self, *args, **kwargs):
        self.called = True
        return "helper-result"


bad = []
for name in ("helper", "add_listener", "_graph", "__class__", "bind_events_to"):
    sm = M()
    sm.called = False
    try:
        r = sm.send(name)
        bad.append(f"send({name!r}) returned {r!r} instead of raising TransitionNotAllowed")
    except TransitionNotAllowed:
        pass
    except Exception as e:  # noqa: BLE001
        bad.append(f"send({name!r}) raised {type(e).__name__}: {e}")
    if getattr(sm, "called", False):
        bad.append(f"send({name!r}) invoked the attribute")
sm = M(allow_event_without_transition=True)
if sm.send("helper") is not None:
    bad.append("tolerated unknown event returned a value")
sm = M()
sm.send("go")
if sm.current_state.id != "b":
    bad.append("declared event no longer works")
if bad:
    print("C13 VIOLATED:", "; ".join(bad))
    sys.exit(1)
print("ok")
