"""Contracts of statemachine/events.py, event.py (matching, is_same_event, __call__)."""
from __future__ import annotations

import z3

from pyvc.core import B, EXC_CODE, Exc, I, NONE, NoneV, O, S, T, Int, Bool, Str, ref_of, truthy, FIRST_ADDR
from pyvc.execu import CONTRACTS, Contract, LoopSpec, register

from .model import MATCH, W, wf_world
from .callbacks import COND


def events_items(s, evs):
    lst = s.sel("Events._items", evs)
    return s.sel("list.arr", lst), s.sel("list.len", lst)


def match_def(s, evs, x):
    """Some event of the collection has exactly this id (string equality, not prefix)."""
    arr, n = events_items(s, evs)
    k = z3.Const("k!md", Int)
    return z3.Exists([k], z3.And(k >= 0, k < n, s.sel("Event.id", z3.Select(arr, k)) == x))


@register
class EventsMatch(Contract):
    """Events.match(event): exact string equality with one of the ids (C01: `go_back` must not fire
    the transitions of `go`)."""

    qualnames = ["statemachine.events:Events.match"]
    params = [("self", "Events"), ("event", "str")]
    returns = "bool"
    modifies = []
    properties = ["C01"]

    def post(self, s0, s, a, r):
        return {"C01|true-iff-some-id-equals-the-event": r.e == match_def(s0, a.self.e, a.event.e)}

    def _inv(self, s0, s, a, l):
        arr, n = events_items(s0, a.self.e)
        k = z3.Const("k!mi", Int)
        return {"C01|none-of-the-first-i-equals-the-event": z3.ForAll([k], z3.Implies(
            z3.And(k >= 0, k < l.i), s0.sel("Event.id", z3.Select(arr, k)) != a.event.e))}

    @property
    def loops(self):
        return {0: LoopSpec(self._inv)}


# Transition.match: the contract lives in engines.py (TransitionMatch); its body check unfolds the
# definition of MATCH here.
def _reveal_match(self, s, a):
    return {"MATCH-definition": MATCH(a.self.e, a.event.e) == match_def(s, s.sel("Transition._events", a.self.e), a.event.e)}


CONTRACTS["statemachine.transition:Transition.match"].__class__.reveal = _reveal_match


@register
class IsSameEvent(Contract):
    """Event.is_same_event(*_args, event=None, **_kwargs): a pure function of the `event` keyword —
    the shape assumed for CallbackWrapper.condition (CondCall)."""

    qualnames = ["statemachine.event:Event.is_same_event"]
    params = [("self", "Event"), ("*_args", "tuple"), ("event", "Opt[Event]"), ("**_kwargs", "dict[str,Val]")]
    defaults = {"event": NoneV()}
    returns = "bool"
    modifies = []
    properties = ["C02", "C14"]

    def post(self, s0, s, a, r):
        ev = a.event.e
        return {"C02|true-iff-the-triggering-event-is-this-event": r.e == z3.And(
            ev != NONE, s0.sel("Event.id", a.self.e) == s0.sel("Event.id", ev))}
