"""Mutation self-test of the contracts (thorough tier; evidence only, never a verdict).

For the functions a property's check puts under contract, small syntactic mutants of the REAL body are built in memory
(the AST that `pyvc.core.load_function` serves is swapped for one run; nothing is written to /repo), and the function
is verified again against its unchanged contract.  A mutant is *killed* when some obligation is no longer discharged,
*undecided* when it leaves the accepted subset, and a *survivor* when every obligation still discharges: an equivalent
mutant, a change the property does not care about, or a place where the contract is weaker than it could be.  The score
is a measure of how much of the code the contracts actually pin down — the guard against contracts that verify anything.

Operators: comparison flips (== != / is is-not / in not-in / < <= > >=), and<->or, negated `if`/`while` tests, dropped
`not`, statement deletion (expression statements, assignments, augmented assignments), break<->continue, True<->False,
`return x` -> `return None`.
"""
from __future__ import annotations

import ast
import copy
import random
import time

from pyvc import core
from pyvc.execu import CONTRACTS
from pyvc.verify import discharge, verify_function

FLIP = {ast.Eq: ast.NotEq, ast.NotEq: ast.Eq, ast.Is: ast.IsNot, ast.IsNot: ast.Is, ast.In: ast.NotIn, ast.NotIn: ast.In,
        ast.Lt: ast.LtE, ast.LtE: ast.Lt, ast.Gt: ast.GtE, ast.GtE: ast.Gt}


def sites(fn):
    """[(description, apply(node_copy) -> None)] over a function node; each entry addresses nodes by walk index."""
    out = []
    nodes = list(ast.walk(fn))
    # bodies of nested functions are functions under contract of their own (closures): not mutated through the outer one
    inner = set()
    for n in nodes:
        if n is not fn and isinstance(n, (ast.FunctionDef, ast.AsyncFunctionDef, ast.Lambda)):
            inner |= {id(x) for x in ast.walk(n) if x is not n}
    for i, n in enumerate(nodes):
        if n is fn or id(n) in inner:
            continue
        ln = getattr(n, "lineno", 0)
        if isinstance(n, ast.Compare) and len(n.ops) == 1 and type(n.ops[0]) in FLIP:
            out.append((f"L{ln}: {type(n.ops[0]).__name__} -> {FLIP[type(n.ops[0])].__name__}", i, "flip"))
        elif isinstance(n, ast.BoolOp):
            out.append((f"L{ln}: {'and' if isinstance(n.op, ast.And) else 'or'} swapped", i, "boolop"))
        elif isinstance(n, (ast.If, ast.While)) and not (isinstance(n.test, ast.Constant)):
            out.append((f"L{ln}: negated {type(n).__name__.lower()} test", i, "negtest"))
        elif isinstance(n, ast.UnaryOp) and isinstance(n.op, ast.Not):
            out.append((f"L{ln}: dropped not", i, "dropnot"))
        elif isinstance(n, (ast.Expr, ast.Assign, ast.AugAssign)) and not (
                isinstance(n, ast.Expr) and isinstance(n.value, ast.Constant)):
            out.append((f"L{ln}: deleted statement `{ast.unparse(n)[:50]}`", i, "delete"))
        elif isinstance(n, ast.Break):
            out.append((f"L{ln}: break -> continue", i, "brk"))
        elif isinstance(n, ast.Continue):
            out.append((f"L{ln}: continue -> break", i, "cont"))
        elif isinstance(n, ast.Constant) and isinstance(n.value, bool):
            out.append((f"L{ln}: {n.value} -> {not n.value}", i, "bool"))
        elif isinstance(n, ast.Return) and n.value is not None and not (isinstance(n.value, ast.Constant) and n.value.value is None):
            out.append((f"L{ln}: return value dropped", i, "retnone"))
    return out


def apply(fn_copy, idx, kind):
    nodes = list(ast.walk(fn_copy))
    n = nodes[idx]
    if kind == "flip":
        n.ops = [FLIP[type(n.ops[0])]()]
    elif kind == "boolop":
        n.op = ast.Or() if isinstance(n.op, ast.And) else ast.And()
    elif kind == "negtest":
        n.test = ast.UnaryOp(ast.Not(), n.test)
    elif kind == "dropnot":
        # replace the node's fields by its operand's: keep identity in the parent
        op = n.operand
        n.__class__ = op.__class__
        n.__dict__.clear()
        n.__dict__.update(op.__dict__)
    elif kind == "delete":
        n.__class__ = ast.Pass
        keep = {k: getattr(n, k) for k in ("lineno", "col_offset", "end_lineno", "end_col_offset") if hasattr(n, k)}
        n.__dict__.clear()
        n.__dict__.update(keep)
    elif kind == "brk":
        n.__class__ = ast.Continue
    elif kind == "cont":
        n.__class__ = ast.Break
    elif kind == "bool":
        n.value = not n.value
    elif kind == "retnone":
        n.value = ast.Constant(None)
    ast.fix_missing_locations(fn_copy)


def _swap(tree, old, new):
    for parent in ast.walk(tree):
        for field in ("body", "orelse", "finalbody"):
            lst = getattr(parent, field, None)
            if isinstance(lst, list):
                for k, ch in enumerate(lst):
                    if ch is old:
                        lst[k] = new
                        return True
    return False


def run(pid, functions, budget_s=600, seed=0, per_function=5):
    """functions: qualnames under contract for this property (non-trusted, non-inline)."""
    rng = random.Random(seed)
    t0 = time.time()
    results = []
    killed = survived = undecided = 0
    for q in functions:
        if time.time() - t0 > budget_s:
            break
        try:
            fn, modname = core.load_function(q)
        except Exception:
            continue
        tree = core.load_module(modname)
        # obligations that are open on the UNmutated body (recorded findings) do not count as kills
        try:
            rep0 = verify_function(q, CONTRACTS[q])
            obs0 = list(rep0.obligations)
            discharge(obs0)
            base_open = {o.name for o in obs0 if o.status != "discharged"}
        except Exception:  # noqa: BLE001
            base_open = set()
        cand = sites(fn)
        rng.shuffle(cand)
        for desc, idx, kind in cand[:per_function]:
            if time.time() - t0 > budget_s:
                break
            mutant = copy.deepcopy(fn)
            try:
                apply(mutant, idx, kind)
            except Exception:
                continue
            if not _swap(tree, fn, mutant):
                continue
            try:
                rep = verify_function(q, CONTRACTS[q])
                if rep.unsupported or rep.error:
                    verdict = "undecided"
                else:
                    obs = [o for o in rep.obligations]
                    discharge(obs)
                    open_ = [o.name for o in obs if o.status != "discharged" and o.name not in base_open]
                    verdict = "killed" if open_ else "survived"
            except Exception as e:  # noqa: BLE001
                verdict, open_ = "undecided", [f"{type(e).__name__}"]
            finally:
                _swap(tree, mutant, fn)
            if verdict == "killed":
                killed += 1
            elif verdict == "survived":
                survived += 1
            else:
                undecided += 1
            results.append({"function": q, "mutation": desc, "verdict": verdict,
                            "first_open_obligation": (open_[0] if verdict == "killed" and open_ else None)})
    total = killed + survived + undecided
    return {"mutants": total, "killed": killed, "undecided_left_the_subset": undecided, "survived": survived,
            "score_killed_over_decided": round(killed / max(1, killed + survived), 3),
            "survivors": [r for r in results if r["verdict"] == "survived"][:40],
            "sample_killed": [r for r in results if r["verdict"] == "killed"][:10],
            "seconds": round(time.time() - t0, 1), "per_function": per_function, "seed": seed}
