"""Regenerates MANIFEST.json from the table below (run by hand: python3 tools_manifest.py)."""
import json

PROPS = [json.loads(l)["id"] for l in open("properties.jsonl")]

LEVEL_NOTE = ("Trusted base: the pyvc VC generator and its builtin models (own code, cross-checked by canaries, a second "
              "solver and seeded mutants), z3 5.1 / cvc5 1.0 / z3 4.8, CPython semantics as encoded (DESIGN 2.3). Assumed, not "
              "checked: EnvCB for user callbacks (DESIGN 3.4), WF(cls), contracts of deque/Lock/dict/list/asyncio primitives, "
              "contracts marked trusted in the evidence file. Termination is not proved.")

CLAIMED = {
    "C01": ("contract proof: least-index selection post of _trigger (for/else invariant), Events.match, executor all/async_all conjunction, wrapper expected_value, from_.any() expansion; bounded scenario layer (reference interpreter) as cross-check and replay search",
            "4.C01"),
    "C02": ("contract proof: group-order and state-view post of _activate over a ghost group log; executor call/async_call 'each applicable callback once, in order'",
            "4.C02"),
    "C03": ("contract proof: FIFO loop invariant of processing_loop over an append-only send log; nested-call case; first-result clause",
            "4.C03"),
    "C04": ("contract proof: exceptional postconditions of _activate/_trigger/processing_loop, not-wedged lemma, frame scans F1-F3",
            "4.C04"),
    "C14": ("contract proof: result clause of _activate (before ++ on, 0/1/many rule) on both engines; executor/wrapper value clauses",
            "4.C14"),
    "C05": ("contract proof, relational: every AsyncEngine / async callbacks function (and the async signature_adapter closure) is discharged against the SAME contract class as its sync twin; await-discipline obligations; asyncio primitives assumed; bounded scenario layer and a probe (a sync driver keeps one event loop)",
            "4.C05"),
    "C10": ("contract proof: state accessors (getter/setters), __init__ model identity, _get_initial_state, for_instance cache invariant, is_active/State.__eq__; frame scan F1; bounded scenario layer; probe for writes to the state field from inside callbacks (outside EnvCB)",
            "4.C10"),
    "C11": ("contract proof: BaseEngine.start two-case post, SyncEngine.start, activate_initial_state, empty-queue no-op clauses of processing_loop, __initial__ branch of _trigger, BaseEngine._initial_transition over its real body (fresh external transition to the start state, no callbacks of its own) with State.__init__ and CallbackSpecList.clear under contract; bounded scenario layer and probes as cross-check",
            "4.C11"),
    "C06": ("Owicki-Gries outline over the contracts of put / try-acquire / popleft / release: interference obligations per role for the asyncio (await-atomic, AST-scanned premises) and thread models; the thread 'stranded' obligation is a recorded finding with a deterministic two-thread witness",
            "4.C06"),
    "C07": ("contract proof: two loop invariants + pointwise post of SignatureAdapter.bind_expected against a spec function from the property; callable_method and both signature_adapter closures (the captured callable is invoked exactly once with the two halves of one fresh binding of exactly these arguments by its OWN signature); Event.__call__ reserved-name filter; extended_kwargs overlay; cache-key lemma (recorded finding); BOUNDED end-to-end layer over all small signature shapes on a real machine (with replays)",
            "4.C07"),
    "C08": ("contract proof for the closure layer (custom_and/or/not, comparators, constants vs Python semantics incl. short-circuit order), guard conjunction, CallbacksRegistry.check, and _copy_with_args keeping every spec field; BOUNDED stand-ins: exhaustive <=4 tokens (+ flat chains of 3-4 operands) for the regex/tokenizer text->AST layer, declaration-style layer for cond/unless surviving every rendering",
            "4.C08"),
    "C09": ("contract proof: BFS invariant of visit_connected_states (sound + closed under targets, LFP schema), iff-posts of the five metaclass checks and of _check, Transition.__init__, from_.any() expansion; BOUNDED definition layer: verdict of the real class statement vs plain graph search (thorough: all graphs <= 3 states x <= 3 transitions)",
            "4.C09"),
    "C17": ("contract proof: __getstate__ / __setstate__ over the instance __dict__ view; round-trip clauses (options, constructor listeners re-registered with the machine, added ones afterwards, engine kind, pending activation) with abstract contracts of the registration/engine helpers; BOUNDED clone layer (original vs deepcopy/pickle clone on random machines and histories); recorded witness",
            "4.C17"),
    "C18": ("contract proof: nested-loop invariants + post of get_graph (one node per state, one edge per external transition, none for internal), _state_as_node, _transition_as_edge, _initial_edge, relative to assumed pydot contracts; BOUNDED diagram layer on the real pydot graph (labels, guards, highlight along random walks)",
            "4.C18"),
    "C12": ("contract proof: Listeners.search_name (every provider of a name contributes one pair), CallbacksExecutor.add (dedupe by key, one wrapper per new key inserted by priority) and CallbackWrapper.__lt__, the registry/executor/wrapper chain (all providers' wrappers invoked, guard conjunction), combinator keys; BOUNDED API layer for Listeners.resolve/build and add_listener, probe for equal-but-distinct listeners; recorded witnesses replayed",
            "4.C12"),
    "C15": ("contract proof of the builders' core (add_transitions, spec add chain incl. add/_add of a ready-made spec over the real isinstance branch, Transition.__init__, State.__init__, _copy_with_args over its real body, from_.any() expansion); BOUNDED layers for the rest: 20 declaration styles of random abstract machines written as class-body source and compared on structure and behaviour, API layer; recorded witness",
            "4.C15"),
    "C16": ("ownership frame scan over every heap write site of the package (committed ownership table; rebinding of module globals included; the cached event loop must be a threading.local) + StateMachine.__init__/BaseEngine.__init__ freshness clauses; BOUNDED API layer and signature special cases (one class body, one factory, one class name in two definitions); recorded witnesses",
            "4.C16"),
    "C13": ("contract proof: post of send (the callee is a bound event of that name for EVERY string) over a symbolic attribute table; a name that is not a declared event is never looked up on the machine (no property getter runs); Event.__call__ queues exactly one item; Event.__get__; probe with property-named strings; BOUNDED API layer for the listings (events, allowed_events, bind_events_to)",
            "4.C13"),
}

TEXT = ("Every verification condition generated from /repo's current source for the functions this property depends on is "
        "discharged (unsat of the negated goal) for symbolic machines of any size, any guard/callback oracle and any queue "
        "content: loops are cut by inductive invariants, callees are used through their contracts only. That is the right "
        "level because the property is a universally quantified statement over machines, histories and crash points.")


def main():
    checks = []
    for pid, (tech, ref) in CLAIMED.items():
        checks.append({
            "property_id": pid,
            "quick_cmd": f"./check {pid} --tier quick",
            "thorough_cmd": f"./check {pid} --tier thorough",
            "evidence_file": f"evidence/{pid}.json",
            "replay_cmd_template": f"./check {pid} --replay {{path}}",
            "engine": "pyvc",
            "level_claimed": {"category": "proof", "text": TEXT, "design_ref": f"DESIGN.md section {ref}"},
            "level_note": LEVEL_NOTE,
            "technique": tech,
        })
    na = [{"property_id": p, "reason": "check not yet registered (build in progress, see DESIGN.md section 9)"}
          for p in PROPS if p not in CLAIMED]
    m = {
        "version": 1,
        "setup_cmd": "true",
        "hooks": {
            "guard": "PYSM_VERIF",
            "enable": "no hooks in /repo: contracts are sidecars under /verif/contracts, nothing in /repo is instrumented",
            "baseline_off_cmd": "cd /repo && /venv/bin/python -m pytest -ra -q -p no:cacheprovider --timeout=900 --continue-on-collection-errors",
            "source_commits": [],
            "add_only": True,
        },
        "engines": [{"name": "pyvc", "path": "pyvc/", "serves_properties": sorted(CLAIMED),
                     "kind_free_text": "own AST->VC generator (path-wise symbolic execution against sidecar contracts), z3/cvc5 back ends"}],
        "checks": checks,
        "notes": "see DESIGN.md; checks exit 0 held / 1 violation / 2 undecided / 3 checker error",
        "not_applicable": na,
    }
    json.dump(m, open("MANIFEST.json", "w"), indent=1)


main()
