"""Contracts of the public entry points: Event.__call__, StateMachine.send, engine start/put,
activate_initial_state (C03 nested case, C07 reserved names, C11 activation, C13 one entry point)."""
from __future__ import annotations

import z3

from pyvc.core import (
    B, CLASSES, EXC_CODE, Exc, I, NONE, NoneV, O, Py, S, T, Int, Bool, Str, ref_of, truthy, FIRST_ADDR,
    ClassModel, MethodSpec, Unsupported, fresh,
)
from pyvc.execu import CONTRACTS, GLOBAL_NAMES, CallArgs, Contract, LoopSpec, Raise, register
from pyvc.models import model

from .model import (
    ASYN, BASE, C, ENV_MODIFIES, INITIAL_ID, INL, SMQ, SYNC, W, AsyncBinding, locked, mstate, others_kept,
    prefix_kept, qarr, qh, qt, queue_items_valid, rtc, wf_class, wf_registry, wf_world, valid_obj, smap_has, wf_cache,
)
from .engines import ProcessingLoop, is_exception, queue_effect, td_valid
from .callbacks import none_swallowed

EVQ = "statemachine.event:"

# ---- BoundEvent(...) : ASSUMED constructor contract (Event.__new__ is a str subclass constructor
# using uuid4 for anonymous events; only the id / _sm plumbing matters here) -------------------


def event_ctor(clsname):
    def ctor(ex, path, ca, node):
        pos = list(ca.pos)
        kw = dict(ca.kw)
        names = ["transitions", "id", "name", "_sm"]
        vals = {}
        for n in names:
            if pos:
                vals[n] = pos.pop(0)
            elif n in kw:
                vals[n] = kw.pop(n)
            else:
                vals[n] = NoneV()
        if kw or pos:
            raise Unsupported("Event(...): unexpected arguments")
        ident = vals["id"]
        if isinstance(vals["transitions"], S):
            ident = vals["transitions"]
        elif isinstance(vals["transitions"], O) and vals["transitions"].cls in ("Event", "BoundEvent"):
            ident = S(path.sel("Event.id", vals["transitions"].e))
        if isinstance(ident, O) and ident.cls in ("Event", "BoundEvent", "Val"):
            ident = S(path.sel("Event.id", ident.e))
        if not isinstance(ident, S):
            raise Unsupported("Event(...): anonymous event (uuid id)")
        ev = path.alloc(clsname, "ev")
        path.store("Event.id", ev.e, ident.e)
        path.store("Event._has_real_id", ev.e, z3.BoolVal(True))
        path.store("Event._sm", ev.e, ref_of(vals["_sm"]))
        path.store("Event._transitions", ev.e, NONE)
        nm = vals["name"]
        if isinstance(nm, S):
            path.store("Event.name", ev.e, nm.e)
        elif isinstance(nm, O) and nm.cls in ("Event", "BoundEvent"):
            path.store("Event.name", ev.e, path.sel("Event.id", nm.e))
        return [(path, ev)]

    return ctor


CLASSES["Event"].ctor = event_ctor("Event")
CLASSES["BoundEvent"].ctor = event_ctor("BoundEvent")
GLOBAL_NAMES["Event"] = Py(("class", "Event"))
GLOBAL_NAMES["BoundEvent"] = Py(("class", "BoundEvent"))

CLASSES["BoundEvent"].methods["__call__"] = C(EVQ + "Event.__call__")
CLASSES["Event"].methods["__call__"] = C(EVQ + "Event.__call__")
CLASSES["StateMachine"].methods.update({
    "_put_nonblocking": INL(SMQ + "_put_nonblocking"),
    "_processing_loop": INL(SMQ + "_processing_loop"),
})
CLASSES["StateMachine"].fields["_engine"] = "SyncEngine"

for q in ("_put_nonblocking", "_processing_loop"):
    CONTRACTS[SMQ + q] = type("Inl_" + q, (Contract,), {"qualnames": [SMQ + q], "inline": True})()


def new_td_queued(s0, s, ev_id=None, ev_ref=None):
    """One fresh, valid TriggerData of this machine was appended at the tail; nothing else moved."""
    t0 = qt(s0)
    td = z3.Select(qarr(s), t0)
    f = [qt(s) == t0 + 1, qh(s) == qh(s0), prefix_kept(qarr(s0), qarr(s), t0),
         td >= s0["ghost.alloc"], td < s["ghost.alloc"],
         s.sel("TriggerData.machine", td) == W.SM, s.sel("TriggerData.model", td) == W.MODEL,
         valid_obj(s, s.sel("TriggerData.event", td))]
    if ev_id is not None:
        f.append(s.sel("Event.id", s.sel("TriggerData.event", td)) == ev_id)
    if ev_ref is not None:
        f.append(s.sel("TriggerData.event", td) == ev_ref)
    return z3.And(*f)


@register
class Put(Contract):
    qualnames = [BASE + "put"]
    params = [("self", "BaseEngine"), ("trigger_data", "TriggerData")]
    returns = "None"
    modifies = ["deque.arr", "deque.tail"]
    properties = ["C03", "C06", "C11"]

    def pre(self, s, a):
        f = dict(wf_world(s))
        f["self-is-engine"] = a.self.e == W.ENG
        return f

    def post(self, s0, s, a, r):
        t0 = qt(s0)
        return {
            "C03,C06|every-put-appends-exactly-this-item-at-the-tail": z3.And(qt(s) == t0 + 1, qarr(s) == z3.Store(qarr(s0), t0, a.trigger_data.e)),
            "others-kept": z3.And(others_kept("deque.arr", s0, s, W.Q), others_kept("deque.tail", s0, s, W.Q)),
        }


START_MODIFIES = ["deque.arr", "deque.tail", "TriggerData.machine+", "TriggerData.event+", "TriggerData.model+",
                  "TriggerData.args+", "TriggerData.kwargs+", "Event.id+", "Event.name+", "Event._sm+",
                  "Event._has_real_id+", "Event._transitions+", "dict.has", "dict.val"]


@register
class BaseStart(Contract):
    """BaseEngine.start (C11): a stored state (anything that is not None) means nothing is queued;
    otherwise exactly one `__initial__` item is appended."""

    qualnames = [BASE + "start"]
    params = [("self", "BaseEngine")]
    returns = "None"
    modifies = START_MODIFIES
    properties = ["C11"]

    def pre(self, s, a):
        f = dict(wf_world(s))
        f["self-is-engine"] = a.self.e == W.ENG
        return f

    def post(self, s0, s, a, r):
        from .model import dicts_kept
        return {
            "C11|stored-state:nothing-queued": z3.Implies(mstate(s0) != NONE, z3.And(
                qt(s) == qt(s0), qarr(s) == qarr(s0))),
            "C11|no-state:one-initial-item-queued": z3.Implies(mstate(s0) == NONE, new_td_queued(s0, s, ev_id=INITIAL_ID)),
            "others-kept": z3.And(others_kept("deque.arr", s0, s, W.Q), others_kept("deque.tail", s0, s, W.Q)),
            "dicts-kept": dicts_kept(s0, s),
            "registry-kept": z3.And(s.sel("dict.has", W.REGD) == s0.sel("dict.has", W.REGD),
                                    s.sel("dict.val", W.REGD) == s0.sel("dict.val", W.REGD)),
        }


# =========================================================================== activation
class ActivateInitial(Contract):
    """engine.activate_initial_state(): just the drain loop (C11: on an activated machine the
    queue is empty, so nothing runs)."""

    qualnames = [SYNC + "activate_initial_state"]
    params = [("self", "SyncEngine")]
    returns = "Val"
    raises = True
    modifies = ProcessingLoop.modifies
    properties = ["C11"]

    pre = ProcessingLoop.pre
    post = ProcessingLoop.post
    exc_post = ProcessingLoop.exc_post


@register
class SyncActivateInitial(ActivateInitial):
    pass


@register
class AsyncActivateInitial(AsyncBinding, ActivateInitial):
    qualnames = [ASYN + "activate_initial_state"]
    params = [("self", "AsyncEngine")]


@register
class SyncStart(Contract):
    """SyncEngine.start (C11): construction over a model without a state activates the start state
    at once; over a stored state it does nothing at all."""

    qualnames = [SYNC + "start"]
    params = [("self", "SyncEngine")]
    returns = "None"
    raises = True
    modifies = ProcessingLoop.modifies
    properties = ["C11"]

    def pre(self, s, a):
        f = ProcessingLoop.pre(self, s, a)
        f["construction:queue-empty-lock-free"] = z3.And(qh(s) == qt(s), z3.Not(locked(s)))
        return f

    def post(self, s0, s, a, r):
        n0 = s0.g("ntrig")
        first = z3.Select(s.g("trig_log"), n0)
        return {
            "C11|stored-state:no-callback-no-change": z3.Implies(mstate(s0) != NONE, z3.And(
                s.g("ntrig") == n0, s.g("ng") == s0.g("ng"), mstate(s) == mstate(s0), qh(s) == qt(s), z3.Not(locked(s)))),
            "C11|no-state:initial-event-is-the-first-one-processed": z3.Implies(mstate(s0) == NONE, z3.And(
                s.g("ntrig") >= n0 + 1, s.sel("Event.id", s.sel("TriggerData.event", first)) == INITIAL_ID,
                z3.Implies(rtc(s0), z3.And(qh(s) == qt(s), z3.Not(locked(s)))))),
        }

    def exc_post(self, s0, s, a, x):
        return {"C11|stored-state:cannot-raise": mstate(s0) == NONE}


# =========================================================================== Event.__call__
RESERVED = ["event_data", "event", "source", "target", "state", "model", "machine", "transition"]  # C07, from the property


def kwargs_filtered(s0, s, src_kwargs, td):
    """C07: the queued item's kwargs are the caller's minus the eight built-in names."""
    kw = s.sel("TriggerData.kwargs", td)
    k = z3.Const("k!kf", Str)
    reserved = z3.Or(*[k == z3.StringVal(n) for n in RESERVED])
    return z3.And(
        z3.ForAll([k], z3.Select(s.sel("dict.has", kw), k) == z3.And(z3.Select(s0.sel("dict.has", src_kwargs), k), z3.Not(reserved))),
        z3.ForAll([k], z3.Implies(z3.Select(s.sel("dict.has", kw), k),
                                  z3.Select(s.sel("dict.val", kw), k) == z3.Select(s0.sel("dict.val", src_kwargs), k))))


class EventCall(Contract):
    """Event.__call__ (C03 nested sends are queued and return None; the outermost call drains;
    C07 reserved names are stripped; C13 every calling style ends here)."""

    qualnames = [EVQ + "Event.__call__"]
    params = [("self", "BoundEvent"), ("*args", "tuple"), ("**kwargs", "dict[str,Val]")]
    returns = "Val"
    raises = True
    modifies = ProcessingLoop.modifies
    properties = ["C03", "C04", "C07", "C13"]

    def pre(self, s, a):
        f = dict(wf_world(s))
        f.update(wf_class(s))
        f["registry-wf"] = wf_registry(s)
        f["state-cache-wf"] = wf_cache(s)
        f["queue-items-valid"] = queue_items_valid(s)
        f["bound-to-this-machine"] = s.sel("Event._sm", a.self.e) == W.SM
        f["kwargs-is-not-the-registry"] = a.kwargs.e != W.REGD
        f["nonrtc:queue-empty-between-events"] = z3.Implies(z3.Not(rtc(s)), qh(s) == qt(s))
        return f

    def _queued(self, s0, s, a):
        t0 = qt(s0)
        td = z3.Select(qarr(s), t0)
        return z3.And(
            qt(s) >= t0 + 1, prefix_kept(qarr(s0), qarr(s), t0),
            td >= s0["ghost.alloc"], td < s["ghost.alloc"],
            s.sel("TriggerData.machine", td) == W.SM, s.sel("TriggerData.event", td) == a.self.e,
            s.sel("TriggerData.args", td) == a.args.e)

    def post(self, s0, s, a, r):
        res = ref_of(r)
        n0, h0, t0 = s0.g("ntrig"), qh(s0), qt(s0)
        nested = z3.And(rtc(s0), locked(s0))
        outer = z3.And(rtc(s0), z3.Not(locked(s0)))
        nonrtc = z3.Not(rtc(s0))
        td = z3.Select(qarr(s), t0)
        return {
            "C03,C13|the-event-is-queued-as-one-item": self._queued(s0, s, a),
            "C07|reserved-names-stripped-from-user-kwargs": kwargs_filtered(s0, s, a.kwargs.e, td),
            "C03|nested:queued-not-started-returns-None": z3.Implies(nested, z3.And(
                res == NONE, qt(s) == t0 + 1, qh(s) == h0, s.g("ntrig") == n0, s.g("ng") == s0.g("ng"),
                mstate(s) == mstate(s0), locked(s))),
            "C03|outer:drained-in-send-order": z3.Implies(outer, z3.And(
                qh(s) == qt(s), z3.Not(locked(s)), s.g("ntrig") - n0 == qt(s) - h0,
                z3.Select(s.g("trig_log"), n0 + t0 - h0) == td, res != W.SENT)),
            "C04|outer:a-failing-callback-reaches-the-caller": none_swallowed(s0, s, outer),
            "C03|nonrtc:runs-now-returns-own-result": z3.Implies(nonrtc, z3.And(
                z3.Select(s.g("trig_log"), n0) == td, z3.Select(s.g("trig_res"), n0) == res)),
        }

    def exc_post(self, s0, s, a, x):
        nested = z3.And(rtc(s0), locked(s0))
        outer = z3.And(rtc(s0), z3.Not(locked(s0)))
        return {
            "C13|queued-before-anything-could-raise": self._queued(s0, s, a),
            "C03|nested:never-raises": z3.Not(nested),
            "C04|outer:lock-released": z3.Implies(outer, z3.Not(locked(s))),
            "C04|outer:queue-dropped-on-Exception": z3.Implies(z3.And(outer, is_exception(x)), qh(s) == qt(s)),
        }


@register
class SyncEventCall(EventCall):
    def reveal(self, s, a):
        from .callbacks import AWAITABLE
        v = z3.Const("v!ec", Int)
        # ENG: a SyncEngine machine has no coroutine callbacks, so what the loop returns is a plain value
        return {"sync-world:results-are-not-awaitable": z3.ForAll([v], z3.Not(AWAITABLE(v)))}


# =========================================================================== StateMachine.send
# Attribute table of the machine object, as `getattr(self, name, default)` sees it (DESIGN 4.C13):
# a declared event name yields (through the Event descriptor) a BoundEvent of that id bound to the
# machine; any other existing attribute yields that attribute; a missing one yields the default.
IS_EVENT_NAME = z3.Function("IS_EVENT_NAME", Str, Bool)  # name is a declared event of the class
HAS_ATTR = z3.Function("HAS_ATTR", Str, Bool)  # the machine object has an attribute of that name
ATTR_VAL = z3.Function("ATTR_VAL", Str, Int)  # ... and this is it
IS_BOUND_EVENT_OBJ = z3.Function("IS_BOUND_EVENT_OBJ", Int, Bool)


def sm_getattr(ex, path, obj, name, default, node):
    if not isinstance(name, S):
        raise Unsupported("getattr(machine, <non-str>)")
    out = []
    for p, is_ev in ex.branch(path, IS_EVENT_NAME(name.e)):
        if is_ev:
            # Event.__get__(instance): BoundEvent(id=self.id, name=self.name, _sm=instance)
            rs = CLASSES["BoundEvent"].ctor(ex, p, CallArgs([], {"id": name, "name": name, "_sm": obj}), node)
            out += rs
            continue
        # Looking an arbitrary name up on the machine is already "invoking an attribute": a property (or any other
        # descriptor, or __getattr__) of that name runs its getter.  Only declared event names may be looked up.
        ex.run.oblige(p, "call", f"C13|a-name-that-is-not-a-declared-event-is-never-looked-up-on-the-machine@{getattr(node, 'lineno', 0)}",
                      z3.BoolVal(False))
        for p2, has in ex.branch(p, HAS_ATTR(name.e)):
            if has:
                v = ATTR_VAL(name.e)
                # an attribute that is not a declared event is not a BoundEvent (events are the only
                # BoundEvent-valued attributes the metaclass and __get__ produce on the machine)
                p2.assume(z3.Not(IS_BOUND_EVENT_OBJ(v)), v != NONE)
                out.append((p2, O(v, "Val")))
            elif default is not None:
                out.append((p2, default))
            else:
                out.append((p2, Raise(Exc("AttributeError"))))
    return out


CLASSES["StateMachine"].getattr_fn = sm_getattr
# `self.__class__._events` (Dict[Event, None], keys compare as str): membership of a name
CLASSES["StateMachine"].py_fields["__class__"] = Py(("class", "StateMachineClass"))
ClassModel("StateMachineClass", py_fields={"_events": Py(("eventnames",))})


@model
def call_arbitrary_attribute(ex, path, recv, ca, node):
    """Calling some attribute of the machine that is not an event: exactly what C13 forbids."""
    ex.run.oblige(path, "call", f"C13|send-never-invokes-an-attribute-that-is-not-a-declared-event@{getattr(node, 'lineno', 0)}",
                  z3.BoolVal(False))
    return [(path, O(fresh("arbitrary", Int), "Val"))]


CLASSES["Val"].methods["__call__"] = call_arbitrary_attribute
CLASSES["Val"].isinstance_fn = lambda path, v, clsname: (
    z3.And(v.e != NONE, IS_BOUND_EVENT_OBJ(v.e)) if clsname in ("BoundEvent", "Event") else z3.BoolVal(False))
CLASSES["Val"].callable_fn = lambda path, v: z3.BoolVal(True)


class Send(Contract):
    """StateMachine.send(name, *args, **kwargs) (C13): for EVERY string the object that gets called
    is a bound event of that name on this machine — so a name that is not a declared event is just
    an unknown event (C01's no-candidate clause), never another attribute of the machine."""

    qualnames = [SMQ + "send"]
    params = [("self", "StateMachine"), ("event", "str"), ("*args", "tuple"), ("**kwargs", "dict[str,Val]")]
    returns = "Val"
    raises = True
    modifies = ProcessingLoop.modifies
    properties = ["C13", "C14"]

    def pre(self, s, a):
        f = dict(wf_world(s))
        f.update(wf_class(s))
        f["registry-wf"] = wf_registry(s)
        f["state-cache-wf"] = wf_cache(s)
        f["queue-items-valid"] = queue_items_valid(s)
        f["self-is-machine"] = a.self.e == W.SM
        f["kwargs-is-not-the-registry"] = a.kwargs.e != W.REGD
        f["nonrtc:queue-empty-between-events"] = z3.Implies(z3.Not(rtc(s)), qh(s) == qt(s))
        return f

    def post(self, s0, s, a, r):
        t0 = qt(s0)
        td = z3.Select(qarr(s), t0)
        ev = s.sel("TriggerData.event", td)
        return {
            "C13|exactly-this-event-name-is-sent-to-this-machine": z3.And(
                qt(s) >= t0 + 1, td >= s0["ghost.alloc"], s.sel("TriggerData.machine", td) == W.SM,
                s.sel("Event.id", ev) == a.event.e, s.sel("Event._sm", ev) == W.SM,
                s.sel("TriggerData.args", td) == a.args.e),
            "C07|reserved-names-stripped": kwargs_filtered(s0, s, a.kwargs.e, td),
            # what the event's own call returns is what send returns (C14: results reach the caller)
            "C13,C14|nested:returns-None-without-starting-anything": z3.Implies(z3.And(rtc(s0), locked(s0)), z3.And(
                ref_of(r) == NONE, qt(s) == t0 + 1, s.g("ntrig") == s0.g("ntrig"))),
            "C13,C14|nonrtc:returns-the-result-of-this-events-own-processing": z3.Implies(z3.Not(rtc(s0)), z3.And(
                z3.Select(s.g("trig_log"), s0.g("ntrig")) == td, z3.Select(s.g("trig_res"), s0.g("ntrig")) == ref_of(r))),
            "C13,C14|outer:never-the-private-sentinel": z3.Implies(z3.And(rtc(s0), z3.Not(locked(s0))), ref_of(r) != W.SENT),
        }

    def exc_post(self, s0, s, a, x):
        t0 = qt(s0)
        td = z3.Select(qarr(s), t0)
        ev = s.sel("TriggerData.event", td)
        return {
            # whatever escapes comes out of processing the event that was queued (e.g. TransitionNotAllowed)
            "C13|even-when-it-raises-the-event-was-queued-first": z3.And(
                td >= s0["ghost.alloc"], s.sel("Event.id", ev) == a.event.e, s.sel("Event._sm", ev) == W.SM),
        }


@register
class SyncSend(Send):
    reveal = SyncEventCall.reveal


def _eventnames_contains(ex, path, container, item):
    from pyvc.models import _as_z3str
    return IS_EVENT_NAME(_as_z3str(path, item))


from pyvc.execu import CONTAINS_HOOKS  # noqa: E402
CONTAINS_HOOKS["eventnames"] = _eventnames_contains


# =========================================================================== the async world
# Same heap, same contracts; only the static type of `sm._engine` differs, which is what selects the
# AsyncEngine bindings of the shared contracts at call sites.
_smf = dict(CLASSES["StateMachine"].fields)
_smf["_engine"] = "AsyncEngine"
ClassModel("AStateMachine", heapname="StateMachine", fields=_smf, props=CLASSES["StateMachine"].props,
           setters=CLASSES["StateMachine"].setters, methods=CLASSES["StateMachine"].methods,
           py_fields=CLASSES["StateMachine"].py_fields)
CLASSES["AStateMachine"].getattr_fn = sm_getattr
_evf = dict(CLASSES["Event"].fields)
_evf["_sm"] = "Opt[AStateMachine]"
ClassModel("ABoundEvent", heapname="Event", fields=_evf, eq_fn=CLASSES["Event"].eq_fn,
           methods={"__call__": C(EVQ + "Event.__call__#async")})
CLASSES["ABoundEvent"].as_str = CLASSES["Event"].as_str
CLASSES["ABoundEvent"].ctor = event_ctor("ABoundEvent")


@register
class AsyncEventCall(AsyncBinding, EventCall):
    """Event.__call__ on a machine with an AsyncEngine: the same contract, on the awaited result
    (run_async_from_sync either runs the coroutine here or hands it to the running loop)."""

    qualnames = [EVQ + "Event.__call__#async"]
    real_qualname = EVQ + "Event.__call__"
    params = [("self", "ABoundEvent"), ("*args", "tuple"), ("**kwargs", "dict[str,Val]")]
    properties = ["C05"]


CLASSES["ABoundEvent"].real_name = "BoundEvent"  # the async-world twins are models of the same real classes
CLASSES["AStateMachine"].real_name = "StateMachine"

# =========================================================================== C13: Event.__get__
class AnyInstance:
    pass


ClassModel("AnyMachine", bases=["StateMachine"], heapname="StateMachine", truthy_fn=lambda path, v: truthy(v.e))
CLASSES["AnyMachine"].getattr_fn = sm_getattr


@register
class EventGet(Contract):
    """Event.__get__(instance, owner) (C13): on an instance — whatever its truth value (a machine
    class may define __len__/__bool__) — a BoundEvent of the same id and name bound to it; on the
    class (instance is None) the Event itself."""

    qualnames = [EVQ + "Event.__get__"]
    params = [("self", "Event"), ("instance", "Opt[AnyMachine]"), ("owner", "Val")]
    returns = "Event"
    modifies = ["Event.id+", "Event.name+", "Event._sm+", "Event._has_real_id+", "Event._transitions+"]
    properties = ["C13"]

    def post(self, s0, s, a, r):
        inst = a.instance.e
        return {
            "C13|on-the-class-the-event-itself": z3.Implies(inst == NONE, r.e == a.self.e),
            "C13|on-an-instance-a-bound-event-of-the-same-id-bound-to-it": z3.Implies(inst != NONE, z3.And(
                r.e >= s0["ghost.alloc"], s.sel("Event.id", r) == s0.sel("Event.id", a.self.e),
                s.sel("Event.name", r) == s0.sel("Event.name", a.self.e), s.sel("Event._sm", r) == inst)),
        }


# =========================================================================== BaseEngine.__init__
def _proxy(ex, path, ca, node):
    """weakref.proxy(x): transparent while the referent is alive (DESIGN 2.3)."""
    return [(path, ca.pos[0])]


from pyvc.execu import BUILTINS  # noqa: E402
BUILTINS["proxy"] = _proxy
GLOBAL_NAMES["proxy"] = Py(("builtin", "proxy"))


def _object_ctor(ex, path, ca, node):
    return [(path, path.alloc("object", "obj"))]


CLASSES["object"].ctor = _object_ctor
GLOBAL_NAMES["object"] = Py(("class", "object"))


@register
class EngineInit(Contract):
    """BaseEngine.__init__ (C06, C16): every engine gets its OWN queue, lock and sentinel — nothing is
    shared between machines."""

    qualnames = [BASE + "__init__"]
    params = [("self", "BaseEngine"), ("sm", "StateMachine"), ("rtc", "bool")]
    returns = "None"
    modifies = ["Engine.sm", "Engine._external_queue", "Engine._sentinel", "Engine._rtc", "Engine._processing",
                "deque.head+", "deque.tail+", "deque.arr+", "Lock.locked+"]
    properties = ["C06", "C16", "C03"]

    def post(self, s0, s, a, r):
        me = a.self.e
        al0 = s0["ghost.alloc"]
        q, lk, se = s.sel("Engine._external_queue", me), s.sel("Engine._processing", me), s.sel("Engine._sentinel", me)
        return {
            "C06,C16|own-fresh-queue-lock-and-sentinel": z3.And(q >= al0, lk >= al0, se >= al0, z3.Distinct(q, lk, se)),
            "C03,C06|queue-empty-lock-free": z3.And(s.sel("deque.head", q) == s.sel("deque.tail", q), z3.Not(s.sel("Lock.locked", lk))),
            "options-stored": z3.And(s.sel("Engine.sm", me) == a.sm.e, s.sel("Engine._rtc", me) == a.rtc.e),
        }


# =========================================================================== C13: unique_events / allowed_events
TLQ = "statemachine.transition_list:TransitionList."
from pyvc.core import HEAP_SORTS, A_II  # noqa: E402
HEAP_SORTS.setdefault("odict.keys", A_II)  # dict object -> list of its keys in insertion order
HEAP_SORTS.setdefault("odict.has", z3.ArraySort(Int, z3.ArraySort(Str, Bool)))  # membership by event id (Events hash/compare as str)


def _odict_setitem(ex, path, d, k, v, node):
    kid = path.sel("Event.id", k.e)
    has = path.sel("odict.has", d.e)
    out = []
    for p, present in ex.branch(path, z3.Select(has, kid)):
        if not present:
            p.store("odict.has", d.e, z3.Store(p.sel("odict.has", d.e), kid, True))
            lst = O(p.sel("odict.keys", d.e), "list[Event]")
            CLASSES["list"].methods["append"].target(ex, p, lst, CallArgs([k], {}), node)
        out.append((p, None))
    return out


@model
def odict_keys(ex, path, recv, ca, node):
    return [(path, O(path.sel("odict.keys", recv.e), "list[Event]"))]


ClassModel("odict", methods={"keys": odict_keys})
CLASSES["odict"].setitem_fn = _odict_setitem
CLASSES["Transition"].props["events"] = INL("statemachine.transition:Transition.events")
CONTRACTS["statemachine.transition:Transition.events"] = type("InlEvents", (Contract,), {"qualnames": ["statemachine.transition:Transition.events"], "inline": True})()


def tl_list(s, tl):
    lst = s.sel("TransitionList.transitions", tl)
    return s.sel("list.arr", lst), s.sel("list.len", lst)


def ev_at(s, ta, i, j):
    """the j-th event of the i-th transition"""
    el = s.sel("Events._items", s.sel("Transition._events", z3.Select(ta, i)))
    return z3.Select(s.sel("list.arr", el), j), s.sel("list.len", el)


def tl_wf(s, tl):
    ta, tn = tl_list(s, tl)
    i = z3.Const("i!tw", Int)
    t = z3.Select(ta, i)
    el = s.sel("Events._items", s.sel("Transition._events", t))
    return z3.And(tn >= 0, valid_obj(s, s.sel("TransitionList.transitions", tl)), z3.ForAll([i], z3.Implies(
        z3.And(i >= 0, i < tn), z3.And(valid_obj(s, t), valid_obj(s, s.sel("Transition._events", t)), valid_obj(s, el),
                                       s.sel("list.len", el) >= 0))))


@register
class UniqueEvents(Contract):
    """TransitionList.unique_events (C13): the events bound to the transitions of the list — every one
    of them, each id exactly once."""

    qualnames = [TLQ + "unique_events"]
    params = [("self", "TransitionList")]
    returns = "list[Event]"
    modifies = ["list.arr+", "list.len+", "odict.has+", "odict.keys+", "dict.has+", "dict.val+"]
    # NOT CLAIMED: 6 of the 39 obligations (preservation of the scanned/listed correspondence across the
    # nested loops) stay `unknown` within the solver budget; the listing functions are covered by the
    # bounded API layer (runtime/api_checks.py) instead.  Kept for the record, run by no check.
    properties = []
    local_types = {"tmp_ordered_unique_events_as_keys_on_dict": "odict"}

    def pre(self, s, a):
        return {"list-wf": tl_wf(s, a.self.e)}

    def _clauses(self, s0, s, a, lst, has, bi, bj):
        """Scan position (bi, bj): all (transition i, event j) lexicographically before it are done."""
        ta, tn = tl_list(s0, a.self.e)
        arr, n = s.sel("list.arr", lst), s.sel("list.len", lst)
        i, j, k, k2 = (z3.Const(nm, Int) for nm in ("i!uq", "j!uq", "k!uq", "k2!uq"))
        x = z3.Const("x!uq", Str)
        ev, en = ev_at(s0, ta, i, j)
        before = z3.And(i >= 0, i < tn, j >= 0, j < en, z3.Or(i < bi, z3.And(i == bi, j < bj)))
        eid = lambda kk: s0.sel("Event.id", z3.Select(arr, kk))  # noqa: E731
        f = {
            "C13|every-scanned-event-is-listed": z3.ForAll([i, j], z3.Implies(before, z3.Exists([k], z3.And(
                k >= 0, k < n, eid(k) == s0.sel("Event.id", ev))))),
            "C13|every-listed-event-was-scanned": z3.ForAll([k], z3.Implies(z3.And(k >= 0, k < n), z3.Exists([i, j], z3.And(
                before, s0.sel("Event.id", ev) == eid(k)))), patterns=[z3.Select(arr, k)]),
            "C13|each-exactly-once": z3.ForAll([k, k2], z3.Implies(z3.And(0 <= k, k < k2, k2 < n), eid(k) != eid(k2))),
        }
        if has is not None:
            f["keys-mirror-the-list:listed-are-keys"] = z3.ForAll([k], z3.Implies(z3.And(k >= 0, k < n), z3.Select(has, eid(k))),
                                                                   patterns=[z3.Select(arr, k)])
            f["keys-mirror-the-list:keys-are-listed"] = z3.ForAll([x], z3.Implies(z3.Select(has, x), z3.Exists([k], z3.And(
                k >= 0, k < n, eid(k) == x))), patterns=[z3.Select(has, x)])
        return f

    def post(self, s0, s, a, r):
        tn = tl_list(s0, a.self.e)[1]
        f = self._clauses(s0, s, a, r.e, None, tn, z3.IntVal(0))
        f["fresh"] = z3.And(r.e >= s0["ghost.alloc"], s.sel("list.len", r) >= 0)
        return f

    def _objs(self, s0, s, l):
        d = l.tmp_ordered_unique_events_as_keys_on_dict.e
        lst = s.sel("odict.keys", d)
        return d, lst, {"objects": z3.And(d >= s0["ghost.alloc"], d < s["ghost.alloc"], lst >= s0["ghost.alloc"], lst < s["ghost.alloc"],
                                          lst != d, s.sel("list.len", lst) >= 0)}

    def _inv_outer(self, s0, s, a, l):
        d, lst, f = self._objs(s0, s, l)
        f.update(self._clauses(s0, s, a, lst, s.sel("odict.has", d), l.i, z3.IntVal(0)))
        return f

    def _inv_inner(self, s0, s, a, l):
        d, lst, f = self._objs(s0, s, l)
        ta, tn = tl_list(s0, a.self.e)
        oi = z3.Const("oi!uq", Int)
        # the outer index is not a Python variable: it is the position of the current transition
        inner = self._clauses(s0, s, a, lst, s.sel("odict.has", d), oi, l.i)
        el = s0.sel("Events._items", s0.sel("Transition._events", l.transition.e))
        f["C13|position"] = z3.Exists([oi], z3.And(oi >= 0, oi < tn, z3.Select(ta, oi) == l.transition.e,
                                                   l.n == s0.sel("list.len", el), *inner.values()))
        return f

    @property
    def loops(self):
        w = lambda s0, a, l: [l.tmp_ordered_unique_events_as_keys_on_dict.e]  # noqa: E731
        lm = ["list.arr+", "list.len+", "odict.has+", "odict.keys+"]
        return {0: LoopSpec(self._inv_outer, modifies=lm, written=w), 1: LoopSpec(self._inv_inner, modifies=lm, written=w)}
