"""C07, bounded end-to-end layer (labelled bounded, never counted as proved): callbacks of every small
signature shape are attached to a REAL machine in every supported way (function given to `on=`, machine
method found by naming convention, functools.partial, coroutine function, lambdas sharing one class body)
and driven with every small call shape; what the callback actually received is compared with an
independent executable reading of the property ("slot" reading, the one contracts/signature.py proves
for bind_expected):

  K   = the user's keywords without the eight reserved names, then the built-ins layered on top
  positional parameters reached by a positional argument take the same-named entry of K if there is one
  (positional-only ones never do), else that argument; every other named parameter takes K[name], else
  its default; *args takes the surplus positionals; **kwargs takes the entries of K no named parameter
  took; a positional-only parameter that is only available by keyword is the one legitimate TypeError; a
  required parameter that nothing provides is a TypeError raised by the callable itself.

What the contracts do not reach and this layer exercises: Event.__call__'s stripping of reserved names,
the signature cache (_make_key), Listeners' choice of adapter, EventData across phases.
The recorded finding R2 (a positional argument shadowed by a same-named keyword is dropped) is part of the
reading above (tests/test_signature.py pins it) and is reported by the proof layer, not here.
"""
from __future__ import annotations

import asyncio
import functools
import itertools
import json
import os
import random
import sys
import time

RESERVED = ["event_data", "machine", "event", "model", "transition", "state", "source", "target"]
DEFAULT = "<default>"
_uid = itertools.count()


# ----------------------------------------------------------------------------------------------- shapes
def shapes(max_named=3):
    """(params, star, dstar): params = [(name, kind, has_default)], kind in PO/PK/KO, legal Python order."""
    names = ["x", "y", "source", "event", "model", "w"]
    out = []
    for n in range(0, max_named + 1):
        for nm in itertools.permutations(names, n):
            for kinds in itertools.product(["PO", "PK", "KO"], repeat=n):
                if list(kinds) != sorted(kinds, key=["PO", "PK", "KO"].index):
                    continue
                for defs in itertools.product([False, True], repeat=n):
                    # defaults must be trailing among positional parameters
                    pos_defs = [d for k, d in zip(kinds, defs) if k != "KO"]
                    if pos_defs != sorted(pos_defs):
                        continue
                    for star in (False, True):
                        for dstar in (False, True):
                            out.append(([(a, k, d) for a, k, d in zip(nm, kinds, defs)], star, dstar))
    return out


def call_shapes():
    kws = [{}, {"x": "kx"}, {"y": "ky", "w": "kw"}, {"x": "kx", "source": "FAKE", "machine": "FAKE"}, {"zz": "kzz", "event": "FAKE"}]
    for npos in range(0, 4):
        for kw in kws:
            yield tuple(f"p{i}" for i in range(npos)), dict(kw)


def source_of(name, params, star, dstar, is_async, first=None):
    parts = []
    if first:
        parts.append(first)
    po = [p for p in params if p[1] == "PO"]
    pk = [p for p in params if p[1] == "PK"]
    ko = [p for p in params if p[1] == "KO"]
    fmt = lambda p: p[0] + (f"={DEFAULT!r}" if p[2] else "")  # noqa: E731
    parts += [fmt(p) for p in po]
    if po:
        parts.append("/")
    parts += [fmt(p) for p in pk]
    if star:
        parts.append("*args")
    elif ko:
        parts.append("*")
    parts += [fmt(p) for p in ko]
    if dstar:
        parts.append("**kwargs")
    body = "    __r = dict(locals())\n    REC.append((%r, __r))\n" % name
    return f"{'async ' if is_async else ''}def {name}({', '.join(parts)}):\n{body}"


# ----------------------------------------------------------------------------------------------- oracle
def expected(params, star, dstar, pos, user_kw, builtins, prebound=0):
    K = {k: v for k, v in user_kw.items() if k not in RESERVED}
    K.update(builtins)
    bound, taken = {}, set()
    positional = [p for p in params if p[1] in ("PO", "PK")]
    for j, (nm, kind, has_def) in enumerate(positional):
        if j < len(pos):
            if nm in K and kind != "PO":
                bound[nm] = K[nm]
                taken.add(nm)
            else:
                bound[nm] = pos[j]
        elif kind == "PO":
            if nm in K:
                return "TypeError"
            if has_def:
                bound[nm] = DEFAULT
            else:
                return "TypeError"
        elif nm in K:
            bound[nm] = K[nm]
            taken.add(nm)
        elif has_def:
            bound[nm] = DEFAULT
        else:
            return "TypeError"
    if star:
        bound["args"] = tuple(pos[len(positional):])
    for nm, kind, has_def in params:
        if kind != "KO":
            continue
        if nm in K:
            bound[nm] = K[nm]
            taken.add(nm)
        elif has_def:
            bound[nm] = DEFAULT
        else:
            return "TypeError"
    if dstar:
        bound["kwargs"] = {k: v for k, v in K.items() if k not in taken}
    return bound


def norm(v):
    from statemachine import State, StateMachine
    from statemachine.event import Event
    from statemachine.event_data import EventData
    from statemachine.transition import Transition
    if isinstance(v, StateMachine):
        return "MACHINE"
    if isinstance(v, State):
        return "state:" + v.id
    if isinstance(v, EventData):
        return "EVENT_DATA"
    if isinstance(v, Transition):
        return "TRANSITION"
    if isinstance(v, Event):
        return "event:" + str(v)
    if isinstance(v, tuple):
        return tuple(norm(x) for x in v)
    if isinstance(v, dict):
        return {k: norm(x) for k, x in v.items()}
    if type(v).__name__ == "TheModel":
        return "MODEL"
    return v


BUILTINS_ON = {"event_data": "EVENT_DATA", "machine": "MACHINE", "event": "event:go", "model": "MODEL",
               "transition": "TRANSITION", "state": "state:a", "source": "state:a", "target": "state:b"}


# ----------------------------------------------------------------------------------------------- driver
def run_case(shape, how, pos, kw, via_send):
    """Returns (expected, observed) for one callback shape attached in way `how`."""
    from statemachine import State, StateMachine
    params, star, dstar = shape
    positional_ = [p for p in params if p[1] in ("PO", "PK")]
    off = 1 if how == "partial" else 0
    Knames = {k for k in kw if k not in RESERVED} | set(RESERVED)
    if any(p[1] == "PO" and p[0] in Knames and j - off >= len(pos) for j, p in enumerate(positional_) if j >= off):
        # region PO-by-keyword: a positional-only parameter that no positional argument reaches and whose name is
        # also a keyword/built-in.  bind_expected mirrors inspect here (TypeError, or delivery by keyword); the
        # property does not say what should happen, so the region is not compared.
        return None
    uid = next(_uid)
    name = f"cb_{uid}"
    REC = []
    ns = {"REC": REC}
    is_async = how == "async"
    prebound = 0
    if how == "method":
        src = source_of("on_go", params, star, dstar, False, first="self")
        body = "\n".join("    " + ln for ln in src.splitlines())
        code = (f"class M_{uid}(StateMachine):\n    a = State(initial=True)\n    b = State(final=True)\n    go = a.to(b)\n{body}\n")
        ns.update(State=State, StateMachine=StateMachine)
        exec(code, ns)  # noqa: S102
        cls = ns[f"M_{uid}"]
        name = "on_go"
    else:
        exec(source_of(name, params, star, dstar, is_async), ns)  # noqa: S102
        fn = ns[name]
        if how == "wrapped":
            # a decorator written with functools.wraps: the binding follows __wrapped__, i.e. the callback's OWN signature
            inner = fn

            @functools.wraps(inner)
            def fn(*a, **k):
                return inner(*a, **k)
        if how == "partial":
            positional = [p for p in params if p[1] in ("PO", "PK")]
            if not positional:
                return None
            fn = functools.partial(fn, "PRE")
            prebound = 1
        ns.update(State=State, StateMachine=StateMachine, fn=fn)
        decl = "go = a.to(b)" if how == "partial" else "go = a.to(b, on=fn)"
        exec(f"class M_{uid}(StateMachine):\n    a = State(initial=True)\n    b = State(final=True)\n    {decl}\n", ns)  # noqa: S102
        cls = ns[f"M_{uid}"]
    model = type("TheModel", (), {})()
    if how == "partial":
        model.on_go = fn  # a functools.partial is reachable as an attribute of the model / a listener
    try:
        sm = cls(model)
        if is_async:
            async def drive():
                await sm.activate_initial_state()
                return await (sm.send("go", *pos, **kw) if via_send else sm.go(*pos, **kw))
            asyncio.run(drive())
        elif via_send:
            sm.send("go", *pos, **kw)
        else:
            sm.go(*pos, **kw)
        obs = [({k: norm(v) for k, v in r.items() if k not in ("self",)}) for n, r in REC if n == name]
        observed = obs[0] if len(obs) == 1 else ("calls", len(obs))
    except TypeError as e:
        observed = "TypeError"
    except Exception as e:  # noqa: BLE001  (anything else escaping the library is an observation, not a harness error)
        observed = f"raised {type(e).__name__}: {str(e)[:100]}"
    if how == "partial":
        # the first positional parameter is pre-bound: the adapter sees the remaining signature
        positional = [p for p in params if p[1] in ("PO", "PK")]
        first = positional[0]
        rest = [p for p in params if p is not first]
        exp = expected(rest, star, dstar, pos, kw, BUILTINS_ON)
        if exp != "TypeError":
            exp = dict(exp)
            exp[first[0]] = "PRE"
            if dstar and first[1] == "PK" and first[0] in exp.get("kwargs", {}):
                # Python's own calling convention: the leftovers carry a keyword named like the parameter the
                # partial already filled positionally -> "got multiple values" (functools.partial behaves the same)
                exp = "TypeError"
    else:
        exp = expected(params, star, dstar, pos, kw, BUILTINS_ON)
    if isinstance(observed, dict):
        observed = {k: v for k, v in observed.items() if not k.startswith("__")}
    return exp, observed


def lambdas_case():
    """Several lambdas in ONE class body (same __qualname__, different parameter names): each must get its own binding."""
    from statemachine import State, StateMachine
    uid = next(_uid)
    seen = {}
    ns = {"State": State, "StateMachine": StateMachine, "seen": seen}
    code = (f"class L_{uid}(StateMachine):\n    a = State(initial=True)\n    b = State(final=True)\n"
            "    go = a.to(b, cond=lambda target: seen.__setitem__('target', target) or True,\n"
            "              before=lambda model: seen.__setitem__('model', model),\n"
            "              on=lambda source: seen.__setitem__('source', source),\n"
            "              after=lambda event: seen.__setitem__('event', event))\n")
    exec(code, ns)  # noqa: S102
    sm = ns[f"L_{uid}"](type("TheModel", (), {})())
    sm.go()
    got = {k: norm(v) for k, v in seen.items()}
    want = {"target": "state:b", "model": "MODEL", "source": "state:a", "event": "event:go"}
    return want, got


def factory_case():
    """Two callbacks made by ONE factory (same __qualname__) that differ only in their keyword-only / *args /
    **kwargs parameter names: the binding must depend on the callback's own signature."""
    from statemachine import State, StateMachine
    uid = next(_uid)
    seen = {}
    ns = {"State": State, "StateMachine": StateMachine, "seen": seen}
    code = (f"def make_{uid}(kind):\n"
            "    if kind == 1:\n"
            "        def cb(*, source):\n            seen['source'] = source\n"
            "    elif kind == 2:\n"
            "        def cb(*, target):\n            seen['target'] = target\n"
            "    else:\n"
            "        def cb(*rest, **others):\n            seen['rest'] = rest; seen['others'] = sorted(others)\n"
            "    return cb\n"
            f"class F_{uid}(StateMachine):\n    a = State(initial=True)\n    b = State(final=True)\n"
            f"    go = a.to(b, before=make_{uid}(1), on=make_{uid}(2), after=make_{uid}(3))\n")
    exec(code, ns)  # noqa: S102
    sm = ns[f"F_{uid}"](type("TheModel", (), {})())
    try:
        sm.go("p0", x="kx")
        got = {k: norm(v) for k, v in seen.items()}
    except TypeError as e:
        got = {"TypeError": str(e)[:80]}
    want = {"source": "state:a", "target": "state:b", "rest": ("p0",),
            "others": sorted(["x"] + RESERVED)}
    return want, got


def leak_case():
    """The built-in names describe the event being processed and never leak into the event's own keyword data."""
    from statemachine import State, StateMachine
    uid = next(_uid)
    seen = {}
    ns = {"State": State, "StateMachine": StateMachine, "seen": seen}
    code = (f"def peek_{uid}(event_data):\n    seen.setdefault('kw', []).append(sorted(event_data.trigger_data.kwargs))\n"
            f"class K_{uid}(StateMachine):\n    a = State(initial=True)\n    b = State()\n"
            f"    go = a.to(b, before=peek_{uid}, on=peek_{uid}, after=peek_{uid})\n    back = b.to(a, on=peek_{uid})\n")
    exec(code, ns)  # noqa: S102
    sm = ns[f"K_{uid}"](type("TheModel", (), {})())
    sm.go(x="kx", source="FAKE")
    sm.back()
    return {"kw": [["x"], ["x"], ["x"], []]}, seen


def same_class_name_case():
    """Two unrelated definitions reuse one class name and one method name; the methods share their positional
    parameters and differ in keyword-only / ** parameters.  Each machine binds by its own method's signature."""
    from statemachine import State, StateMachine
    uid = next(_uid)
    src_a = (f"class Order{uid}(StateMachine):\n    new = State(initial=True)\n    paid = State(final=True)\n    pay = new.to(paid)\n"
             "    def on_pay(self, amount, **extra):\n        self.__dict__.setdefault('seen', []).append((amount, sorted(k for k in extra if k in ('currency', 'note'))))\n")
    src_b = (f"class Order{uid}(StateMachine):\n    new = State(initial=True)\n    paid = State(final=True)\n    pay = new.to(paid)\n"
             "    def on_pay(self, amount, *, currency='EUR'):\n        self.__dict__.setdefault('seen', []).append((amount, currency))\n")
    got = {}
    for tag, src in (("a", src_a), ("b", src_b)):
        ns = {"State": State, "StateMachine": StateMachine, "__name__": f"shop_{tag}_{uid}"}
        exec(src, ns)  # noqa: S102
        sm = ns[f"Order{uid}"]()
        try:
            sm.pay(10, currency="USD", note="x")
            got[tag] = sm.__dict__.get("seen")
        except TypeError as e:
            got[tag] = "TypeError: " + str(e)[:60]
    return {"a": [(10, ["currency", "note"])], "b": [(10, "USD")]}, got


def chained_event_case():
    """An event name used as a callback (`after="store"`) triggers that event with the parent's positional and keyword
    data; the chained event's own callbacks bind them like any other, and `event` describes the chained event."""
    from statemachine import State, StateMachine
    uid = next(_uid)
    src = (f"class Chain{uid}(StateMachine):\n    waiting = State(initial=True)\n    received = State()\n    stored = State(final=True)\n"
           f"    receive = waiting.to(received, after='store')\n    store = received.to(stored)\n"
           "    def on_receive(self, name, size, *rest, owner=None):\n        self.__dict__.setdefault('seen', []).append(('receive', name, size, rest, owner))\n"
           "    def on_store(self, name, size, *rest, owner=None, event=None):\n        self.__dict__.setdefault('seen', []).append(('store', name, size, rest, owner, str(event)))\n")
    ns = {"State": State, "StateMachine": StateMachine}
    exec(src, ns)  # noqa: S102
    sm = ns[f"Chain{uid}"]()
    try:
        sm.receive("a.txt", 42, "extra", owner="ann")
        got = {"seen": sm.__dict__.get("seen"), "state": sm.current_state.id}
    except Exception as e:  # noqa: BLE001
        got = {"raised": f"{type(e).__name__}: {str(e)[:80]}", "seen": sm.__dict__.get("seen")}
    want = {"seen": [("receive", "a.txt", 42, ("extra",), "ann"), ("store", "a.txt", 42, ("extra",), "ann", "store")], "state": "stored"}
    return want, got


SPECIAL = [("same-class-and-method-name-in-two-definitions", same_class_name_case),
           ("an-event-used-as-a-callback-forwards-the-parents-arguments", chained_event_case),
           ("lambdas-in-one-class-body", lambdas_case), ("one-factory-different-keyword-only-names", factory_case),
           ("built-ins-do-not-leak-into-the-events-own-kwargs", leak_case)]


MIN_CASES = 3000  # a loaded machine does not shrink what is explored below this (time cap: 10x the budget)


def run(limit_s, seed, max_named=2):
    import warnings
    warnings.simplefilter("ignore")
    t0 = time.time()
    rnd = random.Random(seed)
    all_shapes = shapes(max_named)
    rnd.shuffle(all_shapes)
    hows = ["function", "method", "partial", "async", "wrapped"]
    n = 0
    exhaustive = True
    for kind, fn in SPECIAL:
        want, got = fn()
        n += 1
        if want != got:
            return {"cases": n, "violation": {"kind": kind, "expected": want, "observed": got}}
    for shape in all_shapes:
        if time.time() - t0 > limit_s and (n >= MIN_CASES or time.time() - t0 > 10 * limit_s):
            exhaustive = False
            break
        for how in hows:
            for pos, kw in call_shapes():
                via_send = (n % 2 == 0) and "event" not in kw  # send(event, ...) owns that parameter name itself
                r = run_case(shape, how, pos, kw, via_send)
                if r is None:
                    continue
                n += 1
                exp, obs = r
                if exp != obs:
                    return {"cases": n, "violation": {"kind": "binding", "params": shape[0], "star": shape[1], "dstar": shape[2],
                                                      "how": how, "pos": list(pos), "kw": kw, "via_send": via_send,
                                                      "expected": exp, "observed": obs}}
    return {"cases": n, "violation": None, "shapes": len(all_shapes), "exhaustive_over_shapes": exhaustive,
            "seconds": round(time.time() - t0, 1), "max_named_parameters": max_named}


REPLAY = '''"""Replay (C07 end-to-end layer): what a callback received differs from the property's reading."""
import sys
sys.path.insert(0, "/verif")
from runtime import sig_enum
v = {v!r}
if v["kind"] != "binding":
    want, got = dict(sig_enum.SPECIAL)[v["kind"]]()
else:
    want, got = sig_enum.run_case((v["params"], v["star"], v["dstar"]), v["how"], tuple(v["pos"]), v["kw"], v["via_send"])
    want, got = (list(want) if isinstance(want, tuple) else want), got
print("case", v)
print("expected", want)
print("observed", got)
sys.exit(0 if want == got else 1)
'''


if __name__ == "__main__":
    limit = float(sys.argv[1]) if len(sys.argv) > 1 else 30
    seed = int(sys.argv[2]) if len(sys.argv) > 2 else 0
    mx = int(sys.argv[3]) if len(sys.argv) > 3 else 2
    res = run(limit, seed, mx)
    if res["violation"]:
        os.makedirs("/verif/replays", exist_ok=True)
        v = json.loads(json.dumps(res["violation"], default=str))
        path = f"/verif/replays/C07-binding-{abs(hash(json.dumps(v, sort_keys=True, default=str))) % 10**8}.py"
        open(path, "w").write(REPLAY.format(v=v))
        res["replay"] = path
    print(json.dumps(res, default=str))
    sys.exit(1 if res["violation"] else 0)
