"""pyvc — a small contract-based deductive verifier for the subset of Python used by
python-statemachine.  Python `ast` of the *real* functions -> path-wise symbolic execution
against sidecar contracts -> z3 / cvc5 obligations.  See /verif/DESIGN.md section 2."""
