"""C07 witness (#5, region R2): a positional argument whose slot is taken by a same-named keyword or
built-in is consumed and dropped, so `def cb(source, x)` called with one positional argument gets no
value for x (TypeError), although the property says remaining positional parameters receive the
positional arguments in order.  The repository's own tests pin the dropping behaviour
(tests/test_signature.py), so this is recorded, not repaired.  Exit 1 while the behaviour is present."""
import sys
from statemachine import State, StateMachine


class M(StateMachine):
    a = State(initial=True)
    b = State(final=True)
    go = a.to(b)

    def on_go(self, source, x):
        return source.id, x


try:
    r = M().go("payload")
except TypeError as e:
    print("C07 VIOLATED (recorded finding R2): positional argument dropped:", e)
    sys.exit(1)
if r != ("a", "payload"):
    print("C07 VIOLATED: got", r)
    sys.exit(1)
print("ok", r)
