"""Core of pyvc: symbolic values, paths, heap, class models, contracts, obligations.

Universe (DESIGN 2.3): every Python object reference, and every Python int, is a z3 Int;
Python bools known statically are z3 Bool; strings are z3 String.  `None` is the reference 0.
The heap is one z3 array per declared field (`Cls.field : Int -> sort`), SSA-versioned on write.
"""
from __future__ import annotations

import ast
import hashlib
import itertools
import os
from dataclasses import dataclass, field as dfield
from typing import Any, Callable, Dict, List, Optional, Tuple

import z3

REPO = os.environ.get("PYVC_REPO", "/repo")

Int, Bool, Str = z3.IntSort(), z3.BoolSort(), z3.StringSort()
NONE = z3.IntVal(0)
TRUE_OBJ = z3.IntVal(1)
FALSE_OBJ = z3.IntVal(2)
FIRST_ADDR = 3

truthy = z3.Function("truthy", Int, Bool)  # truth value of an arbitrary python object
exc_sub = z3.Function("exc_sub", Int, Int, Bool)  # issubclass(type(exc), cls) on class codes

STR_REF = z3.Function("STR_REF", Str, Int)
REF_HOOKS: list = []  # value -> z3 Int | None : reference forms of meta-level values (e.g. bound methods)
_fresh_counter = itertools.count()


def fresh(name: str, sort=Int):
    return z3.Const(f"{name}!{next(_fresh_counter)}", sort)


def boxb(b):
    return z3.If(b, TRUE_OBJ, FALSE_OBJ)


GLOBAL_AXIOMS = [
    z3.Not(truthy(NONE)),
    truthy(TRUE_OBJ),
    z3.Not(truthy(FALSE_OBJ)),
]

# --------------------------------------------------------------------------- exceptions

EXC_PARENTS = {
    "BaseException": None,
    "Exception": "BaseException",
    "KeyboardInterrupt": "BaseException",
    "GeneratorExit": "BaseException",
    "StopIteration": "Exception",
    "LookupError": "Exception",
    "KeyError": "LookupError",
    "IndexError": "LookupError",
    "TypeError": "Exception",
    "ValueError": "Exception",
    "AttributeError": "Exception",
    "RuntimeError": "Exception",
    "NotImplementedError": "RuntimeError",
    "SyntaxError": "Exception",
    "AssertionError": "Exception",
    "StateMachineError": "Exception",
    "InvalidDefinition": "StateMachineError",
    "InvalidStateValue": "InvalidDefinition",
    "AttrNotFound": "InvalidDefinition",
    "TransitionNotAllowed": "StateMachineError",
}
EXC_CODE = {n: i + 100 for i, n in enumerate(EXC_PARENTS)}


def exc_is_sub_static(name: str, parent: str) -> bool:
    while name is not None:
        if name == parent:
            return True
        name = EXC_PARENTS[name]
    return False


def exc_tag_axioms(tag):
    """Closure axioms of the known hierarchy for a symbolic exception class tag."""
    ax = [exc_sub(tag, EXC_CODE["BaseException"])]
    for n, p in EXC_PARENTS.items():
        if p is not None:
            ax.append(z3.Implies(exc_sub(tag, EXC_CODE[n]), exc_sub(tag, EXC_CODE[p])))
    return ax


# --------------------------------------------------------------------------- values


class V:
    """Base of symbolic values (meta level)."""


@dataclass
class B(V):
    e: Any  # z3 Bool


@dataclass
class I(V):
    e: Any  # z3 Int (python int)


@dataclass
class S(V):
    e: Any  # z3 String


@dataclass
class O(V):
    e: Any  # z3 Int reference
    cls: str  # static class name, e.g. "Transition", "list[Transition]", "Opt[State]"


@dataclass
class NoneV(V):
    pass


@dataclass
class T(V):
    items: tuple  # python tuple / list display of fixed arity (immutable)


@dataclass
class Py(V):
    obj: Any  # meta-level constant: builtin, exception class name, ast class ...


@dataclass
class BM(V):
    recv: V
    name: str


@dataclass
class Clo(V):
    node: Any  # ast.FunctionDef / Lambda
    env: dict
    attrs: dict
    qual: str = ""


@dataclass
class Coro(V):
    thunk: Callable  # path -> outcomes
    ident: int = 0


@dataclass
class Exc(V):
    tag: Any  # python str (known class) or z3 Int (symbolic)
    fields: dict = dfield(default_factory=dict)
    origin: str = ""

    def is_sub(self, cls_name: str):
        """-> python bool or z3 Bool"""
        if isinstance(self.tag, str):
            return exc_is_sub_static(self.tag, cls_name)
        return exc_sub(self.tag, EXC_CODE[cls_name])


def NONEV():
    return NoneV()


def ref_of(v: V):
    """z3 Int denoting the python object `v` (boxing bools)."""
    if isinstance(v, O):
        return v.e
    if isinstance(v, NoneV):
        return NONE
    if isinstance(v, B):
        return boxb(v.e)
    if isinstance(v, I):
        return v.e
    if isinstance(v, S):
        return STR_REF(v.e)  # a str object stored in a container: an injective image of its value
    for hook in REF_HOOKS:
        r = hook(v)
        if r is not None:
            return r
    raise Unsupported(f"no reference form for {type(v).__name__}")


def truth_of(ex: "Path", v: V):
    """z3 Bool: python truthiness of v."""
    if isinstance(v, B):
        return v.e
    if isinstance(v, NoneV):
        return z3.BoolVal(False)
    if isinstance(v, I):
        return v.e != 0
    if isinstance(v, S):
        return z3.Length(v.e) > 0
    if isinstance(v, T):
        return z3.BoolVal(len(v.items) > 0)
    if isinstance(v, O):
        m = class_model(v.cls)
        t = m.truthy(ex, v)
        return t
    if isinstance(v, (Py, BM, Clo)):
        return z3.BoolVal(True)
    raise Unsupported(f"truthiness of {type(v).__name__}")


class Unsupported(Exception):
    """The function uses a construct outside the accepted subset (DESIGN 2.2)."""


class CheckerError(Exception):
    pass


# --------------------------------------------------------------------------- heap sorts

A_II = z3.ArraySort(Int, Int)
A_IB = z3.ArraySort(Int, Bool)
A_SI = z3.ArraySort(Str, Int)
A_SB = z3.ArraySort(Str, Bool)

HEAP_SORTS: Dict[str, Any] = {
    # containers (per object reference)
    "list.arr": z3.ArraySort(Int, A_II),
    "list.len": A_II,
    "deque.arr": z3.ArraySort(Int, A_II),
    "deque.head": A_II,
    "deque.tail": A_II,
    "dict.has": z3.ArraySort(Int, A_SB),
    "dict.val": z3.ArraySort(Int, A_SI),
    "idict.has": z3.ArraySort(Int, A_IB),
    "idict.val": z3.ArraySort(Int, A_II),
    "set.has": z3.ArraySort(Int, A_IB),
    "sset.has": z3.ArraySort(Int, A_SB),
    "iter.arr": z3.ArraySort(Int, A_II),
    "iter.pos": A_II,
    "iter.len": A_II,
    "Lock.locked": A_IB,
    "ghost.alloc": Int,
    "ghost.ylog": A_II,  # values yielded by the generator under check, in order
    "ghost.ny": Int,
    "ghost.ylog2": A_II,  # second component when the generator yields pairs
    "ghost.nwarn": Int,  # warnings.warn calls
}


def sort_of_type(tname: str):
    if tname == "bool":
        return Bool
    if tname == "str":
        return Str
    return Int


def declare_ghost(name: str, sort):
    HEAP_SORTS["ghost." + name] = sort


# --------------------------------------------------------------------------- class models

CLASSES: Dict[str, "ClassModel"] = {}


def split_generic(cls: str) -> Tuple[str, List[str]]:
    if "[" not in cls:
        return cls, []
    base, rest = cls.split("[", 1)
    rest = rest[:-1]
    parts, depth, cur = [], 0, ""
    for ch in rest:
        if ch == "[":
            depth += 1
        elif ch == "]":
            depth -= 1
        if ch == "," and depth == 0:
            parts.append(cur.strip())
            cur = ""
        else:
            cur += ch
    parts.append(cur.strip())
    return base, parts


def class_model(cls: str) -> "ClassModel":
    base, _ = split_generic(cls)
    if base == "Opt":
        return class_model(split_generic(cls)[1][0])
    if base not in CLASSES:
        raise Unsupported(f"no class model for {cls!r}")
    return CLASSES[base]


def wrap(tname: str, e) -> V:
    """Wrap a z3 expression as a value of declared type `tname`."""
    if tname == "bool":
        return B(e)
    if tname == "int":
        return I(e)
    if tname == "str":
        return S(e)
    if tname == "None":
        return NoneV()
    return O(e, tname)


@dataclass
class MethodSpec:
    kind: str  # "contract" | "inline" | "model"
    target: Any  # qualname or python callable(ex, path, recv, args) -> outcomes


class ClassModel:
    """Static description of a class as the executor sees it.

    fields:  name -> type name (heap key `<heapname>.<field>`)
    props:   name -> MethodSpec   (property getters)
    setters: name -> MethodSpec   (property setters)
    methods: name -> MethodSpec
    """

    def __init__(self, name, fields=None, props=None, setters=None, methods=None, bases=(),
                 heapname=None, truthy_fn=None, eq_fn=None, iter_fn=None, py_fields=None):
        self.name = name
        self.fields = dict(fields or {})
        self.props = dict(props or {})
        self.setters = dict(setters or {})
        self.methods = dict(methods or {})
        self.bases = tuple(bases)
        self.heapname = heapname or name
        self.truthy_fn = truthy_fn
        self.eq_fn = eq_fn
        self.iter_fn = iter_fn
        self.py_fields = dict(py_fields or {})  # constant meta-level attributes
        CLASSES[name] = self
        for f, t in self.fields.items():
            HEAP_SORTS.setdefault(f"{self.heapname}.{f}", z3.ArraySort(Int, sort_of_type(t)))

    # lookup through bases
    def _find(self, table: str, name: str):
        d = getattr(self, table)
        if name in d:
            return self, d[name]
        for b in self.bases:
            r = CLASSES[b]._find(table, name)
            if r is not None:
                return r
        return None

    def field_key(self, name):
        r = self._find("fields", name)
        if r is None:
            return None
        owner, t = r
        return f"{owner.heapname}.{name}", t

    def truthy(self, path, v: O):
        if self.truthy_fn is not None:
            return self.truthy_fn(path, v)
        for b in self.bases:
            if CLASSES[b].truthy_fn is not None:
                return CLASSES[b].truthy_fn(path, v)
        # plain objects: truthy unless None
        return v.e != NONE

    def isinstance_of(self, other: str) -> bool:
        if self.name == other:
            return True
        return any(CLASSES[b].isinstance_of(other) for b in self.bases)


# --------------------------------------------------------------------------- obligations


@dataclass
class Obligation:
    name: str  # function/kind:label
    func: str
    kind: str
    pc: list
    goal: Any
    info: dict = dfield(default_factory=dict)
    # filled by the solver pool
    status: str = "pending"  # discharged | failed | unknown
    backend: str = ""
    ms: float = 0.0
    model_text: str = ""


# --------------------------------------------------------------------------- paths


class Path:
    """One symbolic execution path: path condition, locals, heap (SSA), bookkeeping."""

    def __init__(self, run: "Run"):
        self.run = run
        self.pc: List[Any] = []
        self.env: Dict[str, V] = {}
        self.heap: Dict[str, Any] = {}
        self.exc_stack: List[Exc] = []
        self.coros: Dict[int, str] = {}  # started-but-not-awaited coroutine ids -> description
        self.notes: List[str] = []
        self.dead = False

    def fork(self) -> "Path":
        p = Path.__new__(Path)
        p.run = self.run
        p.pc = list(self.pc)
        p.env = dict(self.env)
        p.heap = dict(self.heap)
        p.exc_stack = list(self.exc_stack)
        p.coros = dict(self.coros)
        p.notes = list(self.notes)
        p.dead = False
        return p

    # heap ---------------------------------------------------------------
    def hget(self, key: str):
        if key not in self.heap:
            self.heap[key] = self.run.init_heap_value(key)
        return self.heap[key]

    def hset(self, key: str, value):
        self.hget(key)
        self.heap[key] = value

    def sel(self, key: str, ref):
        return z3.Select(self.hget(key), ref)

    def store(self, key: str, ref, value):
        self.hset(key, z3.Store(self.hget(key), ref, value))

    def assume(self, *fs):
        for f in fs:
            if f is None:
                continue
            if isinstance(f, bool):
                f = z3.BoolVal(f)
            if z3.is_true(f):
                continue
            self.pc.append(f)

    def snapshot(self) -> "StateView":
        return StateView(self.run, dict(self.heap))

    def view(self) -> "StateView":
        return StateView(self.run, self.heap)

    def alloc(self, cls: str, hint="o") -> O:
        a = self.hget("ghost.alloc")
        o = fresh(hint)
        self.assume(o == a, o >= FIRST_ADDR)
        self.hset("ghost.alloc", a + 1)
        return O(o, cls)

    def feasible(self) -> bool:
        return self.run.feasible(self.pc)


class StateView:
    """Read-only view of a heap snapshot, used by contract formulas."""

    def __init__(self, run: "Run", heap: dict):
        self._run = run
        self._heap = heap

    def __getitem__(self, key: str):
        if key in self._heap:
            return self._heap[key]
        return self._run.init_heap_value(key)

    def sel(self, key: str, ref):
        return z3.Select(self[key], ref_of(ref) if isinstance(ref, V) else ref)

    def g(self, name: str):
        return self["ghost." + name]


class Run:
    """All state shared by the paths of one function check."""

    def __init__(self, func_name: str):
        self.func_name = func_name
        self.init_heap: Dict[str, Any] = {}
        self.obligations: List[Obligation] = []
        self.solver_calls = 0
        self.paths_explored = 0
        self.paths_pruned = 0
        self.unsupported: List[str] = []
        self.loop_counter = itertools.count()
        self.coro_counter = itertools.count(1)

    def init_heap_value(self, key: str):
        if key not in self.init_heap:
            if key not in HEAP_SORTS:
                raise CheckerError(f"undeclared heap key {key!r}")
            self.init_heap[key] = z3.Const(f"H0_{key}", HEAP_SORTS[key])
        return self.init_heap[key]

    def feasible(self, pc) -> bool:
        """Pruning only: `unsat` of the quantifier-free part of the path condition (a sound
        under-approximation of infeasibility; quantified facts are ignored here)."""
        s = z3.Solver()
        s.set("timeout", 2000)
        s.add(*GLOBAL_AXIOMS)
        s.add(*[f for f in pc if not has_quantifier(f)])
        self.solver_calls += 1
        r = s.check()
        return r != z3.unsat

    def oblige(self, path: Path, kind: str, label: str, goal, **info):
        if isinstance(goal, bool):
            goal = z3.BoolVal(goal)
        if z3.is_true(goal):
            # still counted: trivially discharged obligations are obligations
            pass
        ob = Obligation(
            name=f"{self.func_name}/{kind}:{label}",
            func=self.func_name,
            kind=kind,
            pc=list(path.pc),
            goal=goal,
            info=info,
        )
        self.obligations.append(ob)
        return ob


_hq_cache: Dict[int, bool] = {}


def has_quantifier(f) -> bool:
    key = f.get_id()
    if key in _hq_cache:
        return _hq_cache[key]
    seen = set()
    stack = [f]
    res = False
    while stack:
        e = stack.pop()
        i = e.get_id()
        if i in seen:
            continue
        seen.add(i)
        if z3.is_quantifier(e):
            res = True
            break
        stack.extend(e.children())
    _hq_cache[key] = res
    return res


# --------------------------------------------------------------------------- source extraction

_module_cache: Dict[str, Tuple[ast.Module, str]] = {}


def load_module(modname: str) -> ast.Module:
    """modname like 'statemachine.engines.sync' -> parsed AST of the file in REPO (re-read on
    every process start; nothing is cached on disk)."""
    if modname not in _module_cache:
        path = os.path.join(REPO, *modname.split(".")) + ".py"
        if not os.path.exists(path):
            path = os.path.join(REPO, *modname.split("."), "__init__.py")
        with open(path) as f:
            src = f.read()
        _module_cache[modname] = (ast.parse(src), src)
    return _module_cache[modname][0]


def _find_def(body, name):
    """Find def/class named `name` in a statement list (descending into if/try/else blocks,
    e.g. `if sig.is_coroutine: async def ...: else: def ...:`).  Returns list of matches."""
    out = []
    for st in body:
        if isinstance(st, (ast.FunctionDef, ast.AsyncFunctionDef, ast.ClassDef)) and st.name == name:
            out.append(st)
        elif isinstance(st, ast.If):
            out += _find_def(st.body, name) + _find_def(st.orelse, name)
        elif isinstance(st, ast.Try):
            out += _find_def(st.body, name) + _find_def(st.orelse, name) + _find_def(st.finalbody, name)
    return out


def load_function(qualname: str, which: Optional[int] = None):
    """qualname: '<module>:<Class>.<func>' or '<module>:<func>.<locals>.<inner>'.
    For property setters use '<Class>.<name>@setter'.  Returns (node, module_name)."""
    # `<qualname>#<variant>`: a second contract binding of the same real function; a numeric variant
    # selects among same-named definitions in source order (`if c: async def f ... else: def f ...`)
    qualname, _, variant = qualname.partition("#")
    if which is None and variant.isdigit():
        which = int(variant)
    modname, path = qualname.split(":")
    tree = load_module(modname)
    body = tree.body
    node = None
    parts = [p for p in path.split(".") if p != "<locals>"]
    for i, part in enumerate(parts):
        want_setter = part.endswith("@setter")
        nm = part[: -len("@setter")] if want_setter else part
        cands = _find_def(body, nm)
        if want_setter:
            cands = [c for c in cands if any(
                isinstance(d, ast.Attribute) and d.attr == "setter" for d in getattr(c, "decorator_list", []))]
        elif len(cands) > 1 and i == len(parts) - 1:
            # property getter + setter share a name: the getter is the one without .setter
            non_set = [c for c in cands if not any(
                isinstance(d, ast.Attribute) and d.attr == "setter" for d in getattr(c, "decorator_list", []))]
            if which is not None:
                cands = [cands[which]]
            elif len(non_set) >= 1:
                cands = non_set
        if not cands:
            raise CheckerError(f"function {qualname} not found in {REPO} (looking for {nm!r})")
        if which is not None and len(cands) > 1 and i == len(parts) - 1:
            node = cands[which]
        else:
            node = cands[0]
        body = node.body
    return node, modname


def ast_hash(node) -> str:
    return hashlib.sha256(ast.dump(strip_docstring(node)).encode()).hexdigest()[:16]


def strip_docstring(node):
    """What extraction drops (DESIGN 2.1): docstrings and annotations.  Returns a shallow copy."""
    if isinstance(node, (ast.FunctionDef, ast.AsyncFunctionDef, ast.ClassDef)) and node.body:
        first = node.body[0]
        if isinstance(first, ast.Expr) and isinstance(first.value, ast.Constant) and isinstance(
                first.value.value, str):
            import copy as _copy
            n2 = _copy.copy(node)
            n2.body = node.body[1:] or [ast.Pass()]
            return n2
    return node
