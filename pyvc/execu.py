"""The symbolic executor: Python `ast` of the real function -> paths -> obligations.

Every evaluation returns a list of (Path, result) pairs; `result` is a value (`V`) or `Raise`.
Statements return (Path, outcome) with outcome in {Norm, Ret, Raise, Brk, Cont}.
"""
from __future__ import annotations

import ast
from dataclasses import dataclass
from types import SimpleNamespace
from typing import Any, Callable, Dict, List, Optional

import z3

from .core import (
    B, BM, CLASSES, Clo, Coro, EXC_CODE, EXC_PARENTS, Exc, FIRST_ADDR, I, NONE, NoneV, O, Path, Py,
    Run, S, T, V, CheckerError, ClassModel, MethodSpec, StateView, Unsupported, boxb, class_model,
    exc_tag_axioms, fresh, load_function, ref_of, sort_of_type, split_generic, truth_of, truthy, wrap,
    Int, Bool, Str,
)


# --------------------------------------------------------------------------- outcomes
class Norm:
    pass


@dataclass
class Ret:
    v: V


@dataclass
class Raise:
    exc: Exc


class Brk:
    pass


class Cont:
    pass


NORM = Norm()

# global name table used when a function body refers to a module-level name
GLOBAL_NAMES: Dict[str, V] = {}
# builtin function models: name -> callable(ex, path, args, kwargs) -> [(path, V|Raise)]
BUILTINS: Dict[str, Callable] = {}
# contracts by qualname
CONTRACTS: Dict[str, "Contract"] = {}


def builtin(name):
    def deco(fn):
        BUILTINS[name] = fn
        GLOBAL_NAMES.setdefault(name, Py(("builtin", name)))
        return fn
    return deco


for _n in EXC_PARENTS:
    GLOBAL_NAMES[_n] = Py(("exc", _n))


@dataclass
class CallArgs:
    pos: List[V]
    kw: Dict[str, V]
    star: Optional[V] = None  # opaque *args bundle
    dstar: Optional[V] = None  # opaque **kwargs bundle


class LoopSpec:
    """Loop contract: inv(s0, s, a, l) -> {label: formula}.  `modifies`: heap keys havocked at the
    head (default: the function contract's modifies).  `types`: declared types of loop-carried
    locals whose meta-type changes (e.g. None -> object)."""

    def __init__(self, inv, modifies=None, types=None, elem=None, decreases=None, written=None, coro_list=False):
        self.inv = inv
        self.coro_list = coro_list
        self.written = written  # fn(s0, a, l) -> refs of pre-existing objects the body itself writes
        self.modifies = modifies
        self.types = types or {}
        self.elem = elem


class Contract:
    """Sidecar contract of one (or several) real functions.  Subclass and override."""

    qualnames: List[str] = []  # '<module>:<Class>.<func>'
    params: List[tuple] = []  # (name, type); '*args' -> 'tuple', '**kwargs' -> 'dict[str,Val]'
    returns: Any = "None"  # type name | ('tuple', [types]) | 'Val'
    modifies: List[str] = []
    raises: bool = False  # may raise (exc_post describes the state then)
    is_async: bool = False
    inline: bool = False  # expand the real body at call sites instead of using the contract
    trusted: bool = False  # body not checked (external / assumed); listed in evidence
    generator: bool = False
    loops: Dict[int, LoopSpec] = {}
    properties: List[str] = []  # property ids this contract serves
    exc_classes: Optional[List[str]] = None  # if set: the only classes an escaping exception may have

    def pre(self, s: StateView, a) -> dict:
        return {}

    def post(self, s0: StateView, s: StateView, a, r) -> dict:
        return {}

    def exc_post(self, s0: StateView, s: StateView, a, x: Exc) -> dict:
        return {}

    def assumptions(self) -> List[str]:
        return []

    @property
    def name(self):
        return self.qualnames[0].split(":")[1] if self.qualnames else type(self).__name__


def register(contract_cls):
    c = contract_cls()
    for q in c.qualnames:
        CONTRACTS[q] = c
    return contract_cls


# --------------------------------------------------------------------------- executor


class Executor:
    def __init__(self, run: Run, contract: Optional[Contract], qualname: str, node, modname: str):
        self.run = run
        self.contract = contract
        self.qualname = qualname
        self.node = node
        self.modname = modname
        self.s0: Optional[StateView] = None
        self.a = None
        self.loop_ids = self._number_loops(node)
        self.inline_depth = 0

    # ---- loop numbering: While/For/comprehensions in source order -----------------------
    @staticmethod
    def _number_loops(fnode):
        loops = []

        def visit(n, top):
            for ch in ast.iter_child_nodes(n):
                if isinstance(ch, (ast.FunctionDef, ast.AsyncFunctionDef, ast.Lambda)) and not top:
                    pass
                if isinstance(ch, (ast.While, ast.For, ast.AsyncFor, ast.ListComp, ast.SetComp,
                                   ast.DictComp, ast.GeneratorExp)):
                    loops.append(ch)
                if isinstance(ch, (ast.FunctionDef, ast.AsyncFunctionDef, ast.Lambda)):
                    continue  # nested functions number their own loops
                visit(ch, False)

        visit(fnode, True)
        loops.sort(key=lambda n: (n.lineno, n.col_offset))
        return {id(n): k for k, n in enumerate(loops)}

    # ---- helpers ------------------------------------------------------------------------
    def unsupported(self, node, what=""):
        ln = getattr(node, "lineno", "?")
        raise Unsupported(f"{self.qualname}: line {ln}: {what or type(node).__name__}")

    def branch(self, path: Path, cond):
        """Fork on a z3 Bool.  Returns list of (path, python_bool)."""
        cond = z3.simplify(cond) if not isinstance(cond, bool) else z3.BoolVal(cond)
        if z3.is_true(cond):
            return [(path, True)]
        if z3.is_false(cond):
            return [(path, False)]
        out = []
        pt = path.fork()
        pt.assume(cond)
        if pt.feasible():
            out.append((pt, True))
        else:
            self.run.paths_pruned += 1
        pf = path
        pf.assume(z3.Not(cond))
        if pf.feasible():
            out.append((pf, False))
        else:
            self.run.paths_pruned += 1
        return out

    def mk_exc(self, path, name, **fields):
        return Exc(name, dict(fields))

    # ---- expressions --------------------------------------------------------------------
    def ev(self, node, path: Path) -> list:
        m = getattr(self, "ev_" + type(node).__name__, None)
        if m is None:
            self.unsupported(node)
        return m(node, path)

    def ev_seq(self, nodes, path: Path) -> list:
        """Evaluate nodes left to right.  -> [(path, [V...] | Raise)]"""
        results = [(path, [])]
        for n in nodes:
            nxt = []
            for p, acc in results:
                if isinstance(acc, Raise):
                    nxt.append((p, acc))
                    continue
                for p2, r in self.ev(n, p):
                    if isinstance(r, Raise):
                        nxt.append((p2, r))
                    else:
                        nxt.append((p2, acc + [r]))
            results = nxt
        return results

    def ev_Constant(self, node, path):
        v = node.value
        if v is None:
            return [(path, NoneV())]
        if isinstance(v, bool):
            return [(path, B(z3.BoolVal(v)))]
        if isinstance(v, int):
            return [(path, I(z3.IntVal(v)))]
        if isinstance(v, str):
            return [(path, S(z3.StringVal(v)))]
        return [(path, Py(("const", v)))]

    def lookup(self, name, path):
        if name in path.env:
            return path.env[name]
        key = f"{self.modname}:{name}"
        if key in GLOBAL_NAMES:
            return GLOBAL_NAMES[key]
        mc = self.module_constant(name)
        if mc is not None:
            return mc
        if name in GLOBAL_NAMES:
            return GLOBAL_NAMES[name]
        return self.module_function(name)

    def module_constant(self, name):
        """Module-level `name = {<str constants>}` / tuple / str / int in the REAL module source
        (re-read every run), as a meta-level constant."""
        from .core import load_module
        try:
            tree = load_module(self.modname)
        except Exception:
            return None
        for st in tree.body:
            tgt = None
            if isinstance(st, ast.Assign) and len(st.targets) == 1 and isinstance(st.targets[0], ast.Name):
                tgt, val = st.targets[0].id, st.value
            elif isinstance(st, ast.AnnAssign) and isinstance(st.target, ast.Name) and st.value is not None:
                tgt, val = st.target.id, st.value
            if tgt != name:
                continue
            if isinstance(val, (ast.Set, ast.Tuple, ast.List)) and all(
                    isinstance(e, ast.Constant) and isinstance(e.value, str) for e in val.elts):
                return Py(("strset", frozenset(e.value for e in val.elts)))
            if isinstance(val, ast.Constant) and isinstance(val.value, str):
                return S(z3.StringVal(val.value))
            if isinstance(val, ast.Constant) and isinstance(val.value, bool):
                return B(z3.BoolVal(val.value))
            if isinstance(val, ast.Constant) and isinstance(val.value, int):
                return I(z3.IntVal(val.value))
            if (isinstance(val, ast.Call) and isinstance(val.func, ast.Attribute) and val.func.attr == "getLogger"
                    and isinstance(val.func.value, ast.Name) and val.func.value.id == "logging"):
                return Py(("logger",))  # logging has no effect on the machine: calls on it are evaluated for their arguments only
        return None

    def module_function(self, name):
        """A module-level `def name` of the REAL module that has no contract: usable by inlining its real body."""
        from .core import load_module
        try:
            tree = load_module(self.modname)
        except Exception:
            return None
        for st in tree.body:
            if isinstance(st, (ast.FunctionDef, ast.AsyncFunctionDef)) and st.name == name:
                return Py(("func", f"{self.modname}:{name}", "inline-auto"))
        return None

    def ev_Name(self, node, path):
        v = self.lookup(node.id, path)
        if v is None:
            self.unsupported(node, f"unbound name {node.id!r}")
        return [(path, v)]

    def ev_Attribute(self, node, path):
        out = []
        for p, r in self.ev(node.value, path):
            if isinstance(r, Raise):
                out.append((p, r))
                continue
            out += self.getattr_v(p, r, node.attr, node)
        return out

    def getattr_v(self, path, v: V, attr: str, node=None) -> list:
        if isinstance(v, O):
            m = class_model(v.cls)
            fk = m.field_key(attr)
            if fk is not None:
                key, t = fk
                return [(path, wrap(t, path.sel(key, v.e)))]
            pr = m._find("props", attr)
            if pr is not None:
                return self.invoke_spec(path, pr[1], v, CallArgs([], {}), f"{m.name}.{attr}")
            if attr in m.py_fields:
                return [(path, m.py_fields[attr])]
            me = m._find("methods", attr)
            if me is not None:
                return [(path, BM(v, attr))]
            real = real_method(m.name, attr)
            if real is not None and real[1] in ("method", "static"):
                return [(path, BM(v, attr))]
            cc = real_class_constant(m.name, attr)
            if cc is not None:
                return [(path, cc)]
            dyn = getattr(m, "dyn_attrs", None)
            if dyn is not None and attr in dyn:
                # instance attribute kept in the object's __dict__ (a str-keyed dict)
                d = path.sel(f"{m.heapname}.__dict__", v.e)
                key = z3.StringVal(attr)
                self.run.oblige(path, "builtin", f"attribute-{attr}-is-set@{getattr(node, 'lineno', 0)}",
                                z3.Select(path.sel("dict.has", d), key))
                raw = z3.Select(path.sel("dict.val", d), key)
                t = dyn[attr]
                return [(path, B(truthy(raw)) if t == "bool" else wrap(t, raw))]
            self.unsupported(node, f"attribute {attr!r} of class {v.cls}")
        if isinstance(v, Clo):
            if attr in v.attrs:
                return [(path, v.attrs[attr])]
            self.unsupported(node, f"closure attribute {attr!r}")
        if isinstance(v, Py):
            tag = v.obj
            if tag[0] == "module":
                nm = f"{tag[1]}.{attr}"
                if nm in GLOBAL_NAMES:
                    return [(path, GLOBAL_NAMES[nm])]
            if tag[0] == "class":
                m = class_model(tag[1])
                if attr in m.py_fields:
                    return [(path, m.py_fields[attr])]
                return [(path, Py(("classattr", tag[1], attr)))]
            if tag[0] == "logger":
                return [(path, Py(("logger-method", attr)))]
            self.unsupported(node, f"attribute {attr!r} of {tag}")
        if isinstance(v, (S, T, I, B)):
            return [(path, BM(v, attr))]
        self.unsupported(node, f"attribute {attr!r} of {type(v).__name__}")

    def ev_BoolOp(self, node, path):
        is_and = isinstance(node.op, ast.And)
        results = self.ev(node.values[0], path)
        for nxt in node.values[1:]:
            new = []
            for p, r in results:
                if isinstance(r, Raise):
                    new.append((p, r))
                    continue
                t = truth_of(p, r)
                for p2, bv in self.branch(p, t):
                    if bv == is_and:
                        new += self.ev(nxt, p2)
                    else:
                        new.append((p2, r))
            results = new
        return results

    def ev_UnaryOp(self, node, path):
        out = []
        for p, r in self.ev(node.operand, path):
            if isinstance(r, Raise):
                out.append((p, r))
            elif isinstance(node.op, ast.Not):
                out.append((p, B(z3.Not(truth_of(p, r)))))
            elif isinstance(node.op, ast.USub) and isinstance(r, I):
                out.append((p, I(-r.e)))
            else:
                self.unsupported(node)
        return out

    def ev_IfExp(self, node, path):
        out = []
        for p, r in self.ev(node.test, path):
            if isinstance(r, Raise):
                out.append((p, r))
                continue
            for p2, bv in self.branch(p, truth_of(p, r)):
                out += self.ev(node.body if bv else node.orelse, p2)
        return out

    def ev_Tuple(self, node, path):
        out = []
        for p, r in self.ev_seq(node.elts, path):
            out.append((p, r if isinstance(r, Raise) else T(tuple(r))))
        return out

    def ev_List(self, node, path):
        out = []
        for p, r in self.ev_seq(node.elts, path):
            if isinstance(r, Raise):
                out.append((p, r))
                continue
            lst = self.new_list(p, r)
            out.append((p, lst))
        return out

    def new_list(self, path, items: List[V], elem="Val") -> O:
        if items and isinstance(items[0], O):
            elem = items[0].cls
        lst = path.alloc(f"list[{elem}]", "lst")
        arr = z3.K(Int, NONE)
        for k, it in enumerate(items):
            arr = z3.Store(arr, k, ref_of(it))
        path.store("list.arr", lst.e, arr)
        path.store("list.len", lst.e, z3.IntVal(len(items)))
        return lst

    def ev_JoinedStr(self, node, path):
        # f-strings become injective uninterpreted format functions of their holes
        holes = [v.value for v in node.values if isinstance(v, ast.FormattedValue)]
        shape = "|".join(
            v.value if isinstance(v, ast.Constant) else "{}" for v in node.values
        )
        out = []
        for p, r in self.ev_seq(holes, path):
            if isinstance(r, Raise):
                out.append((p, r))
                continue
            args = []
            for x in r:
                if isinstance(x, S):
                    args.append(x.e)
                elif isinstance(x, O) and getattr(class_model(x.cls), "as_str", None) is not None:
                    args.append(class_model(x.cls).as_str(p, x))  # str subclasses format as their text
                elif isinstance(x, (O, I, NoneV, B)):
                    args.append(ref_of(x))
                else:
                    self.unsupported(node, "f-string hole")
            fn = z3.Function("fmt<" + shape + ">", *[a.sort() for a in args], Str)
            out.append((p, S(fn(*args) if args else z3.StringVal(shape))))
        return out

    def ev_Compare(self, node, path):
        if len(node.ops) != 1:
            self.unsupported(node, "chained comparison")
        out = []
        for p, r in self.ev_seq([node.left, node.comparators[0]], path):
            if isinstance(r, Raise):
                out.append((p, r))
                continue
            out += self.compare(p, node.ops[0], r[0], r[1], node)
        return out

    def compare(self, path, op, a: V, b: V, node=None) -> list:
        if isinstance(op, (ast.Is, ast.IsNot)):
            e = self.identical(a, b)
            return [(path, B(e if isinstance(op, ast.Is) else z3.Not(e)))]
        if isinstance(op, (ast.Eq, ast.NotEq)):
            res = self.equal(path, a, b, node)
            out = []
            for p, e in res:
                if isinstance(e, Raise):
                    out.append((p, e))
                else:
                    out.append((p, B(e if isinstance(op, ast.Eq) else z3.Not(e))))
            return out
        if isinstance(op, (ast.In, ast.NotIn)):
            e = self.contains(path, b, a, node)
            return [(path, B(e if isinstance(op, ast.In) else z3.Not(e)))]
        if isinstance(a, I) and isinstance(b, I):
            f = {ast.Lt: lambda x, y: x < y, ast.LtE: lambda x, y: x <= y,
                 ast.Gt: lambda x, y: x > y, ast.GtE: lambda x, y: x >= y}[type(op)]
            return [(path, B(f(a.e, b.e)))]
        self.unsupported(node, "comparison")

    def identical(self, a: V, b: V):
        if isinstance(a, Py) and isinstance(b, Py):
            return z3.BoolVal(a.obj == b.obj)
        if isinstance(a, (Py, Clo, BM)) or isinstance(b, (Py, Clo, BM)):
            if isinstance(a, NoneV) or isinstance(b, NoneV):
                return z3.BoolVal(False)
            if isinstance(a, Clo) and isinstance(b, Clo):
                return z3.BoolVal(a is b)
            raise Unsupported("identity of meta values")
        if isinstance(a, S) or isinstance(b, S):
            if isinstance(a, NoneV) or isinstance(b, NoneV):
                return z3.BoolVal(False)
            raise Unsupported("identity of strings")
        if isinstance(a, T) or isinstance(b, T):
            if isinstance(a, NoneV) or isinstance(b, NoneV):
                return z3.BoolVal(False)
            raise Unsupported("identity of tuples")
        return ref_of(a) == ref_of(b)

    def equal(self, path, a: V, b: V, node=None) -> list:
        """-> [(path, z3 Bool | Raise)]"""
        if isinstance(a, NoneV) or isinstance(b, NoneV):
            if isinstance(a, (S, T, Py)) or isinstance(b, (S, T, Py)):
                return [(path, z3.BoolVal(False))]
            return [(path, ref_of(a) == ref_of(b))]
        if isinstance(a, B) and isinstance(b, B):
            return [(path, a.e == b.e)]
        if isinstance(a, I) and isinstance(b, I):
            return [(path, a.e == b.e)]
        if isinstance(a, S) and isinstance(b, S):
            return [(path, a.e == b.e)]
        if isinstance(a, Py) and isinstance(b, Py):
            return [(path, z3.BoolVal(a.obj == b.obj))]
        for x, y in ((a, b), (b, a)):
            if isinstance(x, O):
                m = class_model(x.cls)
                fn = m.eq_fn
                if fn is None:
                    for bb in m.bases:
                        if CLASSES[bb].eq_fn is not None:
                            fn = CLASSES[bb].eq_fn
                if fn is not None:
                    r = fn(self, path, x, y)
                    if isinstance(r, list):
                        return r
                    return [(path, r)]
        if isinstance(a, O) and isinstance(b, O):
            return [(path, a.e == b.e)]  # default object equality is identity
        if isinstance(a, B) and isinstance(b, O):
            return [(path, boxb(a.e) == b.e)]
        if isinstance(a, O) and isinstance(b, B):
            return [(path, a.e == boxb(b.e))]
        self.unsupported(node, f"equality {type(a).__name__} == {type(b).__name__}")

    def contains(self, path, container: V, item: V, node=None):
        if isinstance(container, O):
            base, targs = split_generic(container.cls)
            if base == "Opt":
                base, targs = split_generic(targs[0])
            if base in ("dict", "ddict"):
                if not isinstance(item, S):
                    self.unsupported(node, "dict[str] membership of non-str")
                return z3.Select(path.sel("dict.has", container.e), item.e)
            if base == "idict":
                return z3.Select(path.sel("idict.has", container.e), ref_of(item))
            if base == "set":
                return z3.Select(path.sel("set.has", container.e), ref_of(item))
            if base in ("deque", "list"):
                # x in seq: some element equals x (element equality through the class's eq model,
                # which must be pure here)
                if base == "deque":
                    arr, lo, hi = path.sel("deque.arr", container.e), path.sel("deque.head", container.e), path.sel("deque.tail", container.e)
                else:
                    arr, lo, hi = path.sel("list.arr", container.e), z3.IntVal(0), path.sel("list.len", container.e)
                k = fresh("k", Int)
                et = targs[0] if targs else "Val"
                eqs = self.equal(path, wrap(et, z3.Select(arr, k)), item, node)
                if len(eqs) != 1 or isinstance(eqs[0][1], Raise):
                    self.unsupported(node, "membership with effectful equality")
                return z3.Exists([k], z3.And(k >= lo, k < hi, eqs[0][1]))
            if base == "sset":
                return z3.Select(path.sel("sset.has", container.e), item.e)
            m = class_model(container.cls)
            fn = getattr(m, "contains_fn", None)
            if fn is not None:
                return fn(self, path, container, item)
        if isinstance(container, Py) and container.obj[0] in CONTAINS_HOOKS:
            return CONTAINS_HOOKS[container.obj[0]](self, path, container, item)
        if isinstance(container, Py) and container.obj[0] == "strset":
            if isinstance(item, S):
                return z3.Or(*[item.e == z3.StringVal(x) for x in container.obj[1]])
        if isinstance(container, T):
            return z3.Or(*[self.identical(item, x) for x in container.items]) if container.items else z3.BoolVal(False)
        self.unsupported(node, f"membership in {container}")

    def ev_Subscript(self, node, path):
        out = []
        if isinstance(node.slice, ast.Slice):
            self.unsupported(node, "slice")
        for p, r in self.ev_seq([node.value, node.slice], path):
            if isinstance(r, Raise):
                out.append((p, r))
                continue
            out += self.getitem(p, r[0], r[1], node)
        return out

    def getitem(self, path, c: V, k: V, node=None) -> list:
        if isinstance(c, T) and isinstance(k, I) and z3.is_int_value(z3.simplify(k.e)):
            return [(path, c.items[z3.simplify(k.e).as_long()])]
        if isinstance(c, O):
            base, targs = split_generic(c.cls)
            if base == "list" and isinstance(k, I):
                n = path.sel("list.len", c.e)
                self.run.oblige(path, "builtin", f"list-index-in-range@{getattr(node, 'lineno', 0)}",
                                z3.And(k.e >= 0, k.e < n))
                return [(path, wrap(targs[0] if targs else "Val", z3.Select(path.sel("list.arr", c.e), k.e)))]
            if base in ("dict", "ddict") and isinstance(k, S):
                has = z3.Select(path.sel("dict.has", c.e), k.e)
                res = []
                for p2, bv in self.branch(path, has):
                    vt = targs[1] if len(targs) > 1 else "Val"
                    if bv:
                        res.append((p2, wrap(vt, z3.Select(p2.sel("dict.val", c.e), k.e))))
                    elif base == "ddict":
                        # collections.defaultdict: a missing key is created by the factory
                        for p3, nv in class_model(vt).ctor(self, p2, CallArgs([], {}), node):
                            if isinstance(nv, Raise):
                                res.append((p3, nv))
                                continue
                            p3.store("dict.has", c.e, z3.Store(p3.sel("dict.has", c.e), k.e, True))
                            p3.store("dict.val", c.e, z3.Store(p3.sel("dict.val", c.e), k.e, nv.e))
                            res.append((p3, nv))
                    else:
                        res.append((p2, Raise(Exc("KeyError", {"key": k}))))
                return res
            if base == "idict":
                kr = ref_of(k)
                has = z3.Select(path.sel("idict.has", c.e), kr)
                res = []
                for p2, bv in self.branch(path, has):
                    if bv:
                        vt = targs[1] if len(targs) > 1 else "Val"
                        res.append((p2, wrap(vt, z3.Select(p2.sel("idict.val", c.e), kr))))
                    else:
                        res.append((p2, Raise(Exc("KeyError", {"key": k}))))
                return res
            m = class_model(c.cls)
            me = m._find("methods", "__getitem__")
            if me is not None:
                return self.invoke_spec(path, me[1], c, CallArgs([k], {}), f"{m.name}.__getitem__")
        if isinstance(c, Py) and c.obj[0] == "pydict":
            # meta-level constant dict keyed by Py tokens
            if isinstance(k, Py) and k.obj in c.obj[1]:
                return [(path, c.obj[1][k.obj])]
            return [(path, Raise(Exc("KeyError", {"key": k})))]
        self.unsupported(node, f"subscript of {c}")

    def setitem(self, path, c: V, k: V, v: V, node=None):
        if isinstance(c, O):
            base, targs = split_generic(c.cls)
            fn = getattr(CLASSES.get(base), "setitem_fn", None) if base in CLASSES else None
            if fn is not None:
                return fn(self, path, c, k, v, node)
            if base == "dict" and isinstance(k, S):
                path.store("dict.has", c.e, z3.Store(path.sel("dict.has", c.e), k.e, True))
                path.store("dict.val", c.e, z3.Store(path.sel("dict.val", c.e), k.e, ref_of(v)))
                return
            if base == "idict":
                kr = ref_of(k)
                path.store("idict.has", c.e, z3.Store(path.sel("idict.has", c.e), kr, True))
                path.store("idict.val", c.e, z3.Store(path.sel("idict.val", c.e), kr, ref_of(v)))
                return
            if base == "list" and isinstance(k, I):
                path.store("list.arr", c.e, z3.Store(path.sel("list.arr", c.e), k.e, ref_of(v)))
                return
        self.unsupported(node, f"subscript store on {c}")

    def ev_Dict(self, node, path):
        if node.keys:
            self.unsupported(node, "non-empty dict display")
        d = path.alloc("dict[str,Val]", "dct")
        path.store("dict.has", d.e, z3.K(Str, False))
        # the same empty dict seen as an insertion-ordered dict (used when a contract types the local so)
        if "odict.has" in HEAP_SORTS_REF:
            path.store("odict.has", d.e, z3.K(Str, False))
            keys = self.new_list(path, [])
            path.store("odict.keys", d.e, keys.e)
        return [(path, d)]

    def ev_Lambda(self, node, path):
        return [(path, Clo(node, dict(path.env), {}, qual=f"{self.qualname}.<lambda>"))]

    def ev_Await(self, node, path):
        out = []
        for p, r in self.ev(node.value, path):
            if isinstance(r, Raise):
                out.append((p, r))
                continue
            out += self.await_value(p, r, node)
        return out

    def await_value(self, path, r: V, node=None) -> list:
        if isinstance(r, Coro):
            path.coros.pop(r.ident, None)
            return r.thunk(path)
        if isinstance(r, O):
            me = class_model(r.cls)._find("methods", "__await__")
            if me is not None:
                return self.invoke_spec(path, me[1], r, CallArgs([], {}), f"{r.cls}.__await__", node)
        self.unsupported(node, f"await of non-coroutine value {type(r).__name__}")

    def ev_Starred(self, node, path):
        self.unsupported(node, "starred expression outside a call")

    def ev_BinOp(self, node, path):
        out = []
        for p, r in self.ev_seq([node.left, node.right], path):
            if isinstance(r, Raise):
                out.append((p, r))
                continue
            a, b = r
            if isinstance(a, I) and isinstance(b, I):
                f = {ast.Add: lambda x, y: x + y, ast.Sub: lambda x, y: x - y,
                     ast.Mult: lambda x, y: x * y}.get(type(node.op))
                if f is None:
                    self.unsupported(node)
                out.append((p, I(f(a.e, b.e))))
                continue
            h = BINOPS.get((type(node.op).__name__, type(a).__name__, type(b).__name__))
            if h is None and isinstance(a, O):
                h = BINOPS.get((type(node.op).__name__, split_generic(a.cls)[0]))
            if h is None:
                self.unsupported(node, f"binary op on {a}, {b}")
            out += h(self, p, a, b)
        return out

    # comprehensions are desugared to loops with invariants (DESIGN 2.2); a class model may instead give a
    # pointwise definition of `[k for k, v in X.items() if <pred(v)>]` over its abstract collection (COMPREHENSION_HOOKS)
    def _comprehension_hook(self, node, path, kind):
        for hook in COMPREHENSION_HOOKS:
            r = hook(self, node, path, kind)
            if r is not None:
                return r
        return None

    def ev_ListComp(self, node, path):
        r = self._comprehension_hook(node, path, "list")
        if r is not None:
            return r
        return self.comprehension(node, path, "list")

    def ev_GeneratorExp(self, node, path):
        r = self._comprehension_hook(node, path, "genexp")
        if r is not None:
            return r
        # a bare generator expression is only supported as the argument of a consumer
        return [(path, Py(("genexp", node, dict(path.env))))]

    def ev_SetComp(self, node, path):
        return self.comprehension(node, path, "set")

    def ev_DictComp(self, node, path):
        r = self.dict_filter_comprehension(node, path)
        if r is not None:
            return r
        return self.comprehension(node, path, "dict")

    def dict_filter_comprehension(self, node, path):
        """{k: v for k, v in D.items() if <pred(k)>} on a str-keyed dict: a new dict with
        has'[k] = has[k] and pred(k), values kept (no loop needed: pointwise definition)."""
        if len(node.generators) != 1:
            return None
        gen = node.generators[0]
        it, tgt = gen.iter, gen.target
        if not (isinstance(it, ast.Call) and isinstance(it.func, ast.Attribute) and it.func.attr == "items"
                and not it.args and isinstance(tgt, ast.Tuple) and len(tgt.elts) == 2
                and all(isinstance(e, ast.Name) for e in tgt.elts)):
            return None
        kname, vname = tgt.elts[0].id, tgt.elts[1].id
        if not (isinstance(node.key, ast.Name) and node.key.id == kname
                and isinstance(node.value, ast.Name) and node.value.id == vname):
            return None
        out = []
        for p, d in self.ev(it.func.value, path):
            if isinstance(d, Raise):
                out.append((p, d))
                continue
            if not (isinstance(d, O) and split_generic(d.cls)[0] == "dict"):
                return None
            kk = z3.Const(f"kk!dc{self.loop_ids.get(id(node), 0)}", Str)
            saved = dict(p.env)
            p.env[kname] = S(kk)
            p.env[vname] = O(z3.Select(p.sel("dict.val", d.e), kk), "Val")
            pred = z3.BoolVal(True)
            for cond in gen.ifs:
                rs = self.ev(cond, p)
                if len(rs) != 1 or isinstance(rs[0][1], Raise):
                    self.unsupported(node, "dict comprehension filter with effects")
                pred = z3.And(pred, truth_of(p, rs[0][1]))
            p.env = saved
            nd = p.alloc(d.cls, "dfilt")
            has = p.sel("dict.has", d.e)
            nhas = fresh("dfilt_has", has.sort())
            p.assume(z3.ForAll([kk], z3.Select(nhas, kk) == z3.And(z3.Select(has, kk), pred),
                               patterns=[z3.Select(nhas, kk)]))
            p.store("dict.has", nd.e, nhas)
            p.store("dict.val", nd.e, p.sel("dict.val", d.e))
            out.append((p, nd))
        return out

    def comprehension(self, node, path, kind, env=None, swallow=False) -> list:
        """Desugar [elt for x in it if c] to: acc = []; for x in it: if c: acc.append(elt)."""
        if len(node.generators) != 1 or node.generators[0].is_async:
            self.unsupported(node, "multi-clause comprehension")
        gen = node.generators[0]
        spec0 = self.loop_spec(node)
        if kind == "list" and spec0 is not None and getattr(spec0, "coro_list", False) and env is None:
            from .models import CoroList
            return [(path, CoroList(node, dict(path.env), self.loop_ids[id(node)]))]
        acc_name = f"__acc{self.loop_ids[id(node)]}"
        saved_env = None
        if env is not None:
            saved_env = path.env
            path.env = dict(env)
        if kind == "list":
            acc = self.new_list(path, [])
            spec = self.loop_spec(node)
            if spec is not None and spec.elem:
                acc = O(acc.e, f"list[{spec.elem}]")
            app = ast.Expr(ast.Call(ast.Attribute(ast.Name(acc_name, ast.Load()), "append", ast.Load()),
                                    [node.elt], []))
        elif kind == "set":
            acc = path.alloc("set[Val]", "set")
            spec = self.loop_spec(node)
            if spec is not None and spec.elem:
                acc = O(acc.e, f"set[{spec.elem}]")
            path.store("set.has", acc.e, z3.K(Int, False))
            app = ast.Expr(ast.Call(ast.Attribute(ast.Name(acc_name, ast.Load()), "add", ast.Load()),
                                    [node.elt], []))
        elif kind == "dict":
            acc = path.alloc("dict[str,Val]", "dct")
            path.store("dict.has", acc.e, z3.K(Str, False))
            app = ast.Assign([ast.Subscript(ast.Name(acc_name, ast.Load()), node.key, ast.Store())],
                             node.value)
        else:
            self.unsupported(node)
        body = app
        if swallow and kind == "list":
            exc_app = ast.Expr(ast.Call(ast.Attribute(ast.Name(acc_name, ast.Load()), "append", ast.Load()),
                                        [ast.Name("__swallowed", ast.Load())], []))
            body = ast.Try([app], [ast.ExceptHandler(ast.Name("BaseException", ast.Load()), "__swallowed", [exc_app])], [], [])
        for cond in reversed(gen.ifs):
            body = ast.If(cond, [body], [])
        loop = ast.For(gen.target, gen.iter, [body], [])
        ast.copy_location(loop, node)
        ast.fix_missing_locations(loop)
        self.loop_ids[id(loop)] = self.loop_ids[id(node)]
        path.env[acc_name] = acc
        out = []
        shadow = _target_names(gen.target)
        for p, oc in self.exec_For(loop, path):
            if isinstance(oc, Raise):
                if saved_env is not None:
                    p.env = saved_env
                out.append((p, oc))
            elif isinstance(oc, Norm):
                res = p.env[acc_name]
                if saved_env is not None:
                    p.env = dict(saved_env)
                else:
                    for nm in shadow:
                        p.env.pop(nm, None)
                    p.env.pop(acc_name, None)
                out.append((p, res))
            else:
                self.unsupported(node, "control flow out of comprehension")
        return out

    # ---- calls --------------------------------------------------------------------------
    def ev_Call(self, node, path):
        # evaluate callee
        out = []
        if isinstance(node.func, ast.Attribute):
            recvs = self.ev(node.func.value, path)
            callee_results = []
            for p, r in recvs:
                if isinstance(r, Raise):
                    out.append((p, r))
                    continue
                if isinstance(r, O) and (class_model(r.cls)._find("methods", node.func.attr) is not None or (
                        node.func.attr in STR_METHODS and getattr(class_model(r.cls), "as_str", None) is not None)):
                    callee_results.append((p, BM(r, node.func.attr)))
                elif isinstance(r, (S, T, I, B)):
                    callee_results.append((p, BM(r, node.func.attr)))
                else:
                    callee_results += self.getattr_v(p, r, node.func.attr, node)
        else:
            callee_results = self.ev(node.func, path)
        for p, f in callee_results:
            if isinstance(f, Raise):
                out.append((p, f))
                continue
            for p2, ca in self.ev_args(node, p):
                if isinstance(ca, Raise):
                    out.append((p2, ca))
                    continue
                out += self.call_value(p2, f, ca, node)
        return out

    def ev_args(self, node, path) -> list:
        """-> [(path, CallArgs | Raise)]"""
        pos_nodes, star_node = [], None
        for a in node.args:
            if isinstance(a, ast.Starred):
                if star_node is not None:
                    self.unsupported(node, "two starred args")
                star_node = a.value
            else:
                if star_node is not None:
                    self.unsupported(node, "positional after *args")
                pos_nodes.append(a)
        kw_names, kw_nodes, dstar_node = [], [], None
        for k in node.keywords:
            if k.arg is None:
                dstar_node = k.value
            else:
                kw_names.append(k.arg)
                kw_nodes.append(k.value)
        extra = [n for n in (star_node, dstar_node) if n is not None]
        out = []
        for p, r in self.ev_seq(pos_nodes + kw_nodes + extra, path):
            if isinstance(r, Raise):
                out.append((p, r))
                continue
            pos = r[: len(pos_nodes)]
            kws = dict(zip(kw_names, r[len(pos_nodes): len(pos_nodes) + len(kw_nodes)]))
            rest = r[len(pos_nodes) + len(kw_nodes):]
            star = rest.pop(0) if star_node is not None else None
            dstar = rest.pop(0) if dstar_node is not None else None
            if isinstance(star, T):
                pos = pos + list(star.items)
                star = None
            out.append((p, CallArgs(pos, kws, star, dstar)))
        return out

    def call_value(self, path, f: V, ca: CallArgs, node=None) -> list:
        if isinstance(f, BM):
            return self.call_method(path, f.recv, f.name, ca, node)
        if isinstance(f, Clo):
            return self.call_closure(path, f, ca, node)
        if isinstance(f, Py):
            tag = f.obj
            if tag[0] == "builtin":
                return BUILTINS[tag[1]](self, path, ca, node)
            if tag[0] == "exc":
                return [(path, Exc(tag[1], {"args": ca.pos, **ca.kw}))]
            if tag[0] == "logger-method":
                if tag[1] in ("debug", "info", "warning", "error", "exception", "critical", "log"):
                    return [(path, NoneV())]  # arguments were evaluated; emitting a record does not touch the machine
                self.unsupported(node, f"logger.{tag[1]}")
            if tag[0] == "func":
                return self.invoke_spec(path, MethodSpec(tag[2] if len(tag) > 2 else "contract", tag[1]),
                                        None, ca, tag[1])
            if tag[0] == "class":
                m = class_model(tag[1])
                ctor = getattr(m, "ctor", None)
                if ctor is None:
                    self.unsupported(node, f"constructor of {tag[1]}")
                return ctor(self, path, ca, node)
        if isinstance(f, O):
            m = class_model(f.cls)
            me = m._find("methods", "__call__")
            if me is not None:
                return self.invoke_spec(path, me[1], f, ca, f"{m.name}.__call__")
        self.unsupported(node, f"call of {f}")

    def call_method(self, path, recv: V, name: str, ca: CallArgs, node=None) -> list:
        if isinstance(recv, O):
            m = class_model(recv.cls)
            me = m._find("methods", name)
            if me is None:
                r = self.str_method_on_object(path, recv, name, ca, node)
                if r is not None:
                    return r
                real = real_method(m.name, name)
                if real is not None and real[1] in ("method", "static"):
                    # a helper of the real class that nobody wrote a contract for: its real body is executed in place
                    return self.call_inline_auto(path, real[0], recv if real[1] == "method" else None, ca, node)
                self.unsupported(node, f"method {name} of {recv.cls}")
            return self.invoke_spec(path, me[1], recv, ca, f"{m.name}.{name}", node)
        if isinstance(recv, S):
            h = STR_METHODS.get(name)
            if h:
                return h(self, path, recv, ca, node)
        self.unsupported(node, f"method {name} of {type(recv).__name__}")

    def str_method_on_object(self, path, recv: O, name: str, ca, node):
        fn = getattr(class_model(recv.cls), "as_str", None)
        h = STR_METHODS.get(name)
        if fn is None or h is None:
            return None
        return h(self, path, S(fn(path, recv)), ca, node)

    def invoke_spec(self, path, spec: MethodSpec, recv: Optional[V], ca: CallArgs, label: str, node=None):
        if spec.kind == "model":
            return spec.target(self, path, recv, ca, node)
        if spec.kind == "inline":
            return self.call_inline(path, spec.target, recv, ca, node)
        if spec.kind == "inline-auto":
            return self.call_inline_auto(path, spec.target, recv, ca, node)
        if spec.kind == "contract":
            c = CONTRACTS.get(spec.target)
            if c is None:
                raise CheckerError(f"no contract registered for {spec.target}")
            if c.inline:
                return self.call_inline(path, spec.target, recv, ca, node)
            return self.apply_contract(path, c, recv, ca, label, node)
        raise CheckerError(f"bad method spec {spec}")

    # ---- binding arguments to a parameter list -----------------------------------------
    def bind_params(self, path, params: List[tuple], recv, ca: CallArgs, defaults: dict, node=None):
        """params: [(name, type)] with '*name' / '**name' for varargs.  -> dict name -> V"""
        vals: Dict[str, V] = {}
        pos = ([recv] if recv is not None else []) + list(ca.pos)
        kw = dict(ca.kw)
        names = [n for n, _ in params]
        plain = [n for n in names if not n.startswith("*")]
        star_name = next((n for n in names if n.startswith("*") and not n.startswith("**")), None)
        dstar_name = next((n for n in names if n.startswith("**")), None)
        missing = []
        for n in plain:
            if pos:
                vals[n] = pos.pop(0)
            elif n in kw:
                vals[n] = kw.pop(n)
            elif ca.dstar is not None and dstar_name is None:
                missing.append(n)
            elif n in defaults:
                vals[n] = defaults[n]
            else:
                self.unsupported(node, f"missing argument {n!r} in call")
        if missing:
            self.forward_dstar(path, params, vals, missing, ca, defaults, node)
            ca = CallArgs(ca.pos, ca.kw, ca.star, None)
        if pos:
            if star_name is None:
                self.unsupported(node, "too many positional arguments")
            vals[star_name[1:]] = T(tuple(pos)) if ca.star is None else self.unsupported(node, "mixed *args")
        elif star_name is not None:
            vals[star_name[1:]] = ca.star if ca.star is not None else T(())
        elif ca.star is not None:
            self.unsupported(node, "*args passed to a function without *args")
        if dstar_name is not None:
            if kw and ca.dstar is not None:
                # explicit keywords + **bundle: build the merged dict
                d = path.alloc("dict[str,Val]", "kw")
                has = path.sel("dict.has", ca.dstar.e)
                val = path.sel("dict.val", ca.dstar.e)
                for k2, v2 in kw.items():
                    has = z3.Store(has, z3.StringVal(k2), True)
                    val = z3.Store(val, z3.StringVal(k2), ref_of(v2))
                path.store("dict.has", d.e, has)
                path.store("dict.val", d.e, val)
                vals[dstar_name[2:]] = d
            elif ca.dstar is not None:
                vals[dstar_name[2:]] = ca.dstar
            else:
                d = path.alloc("dict[str,Val]", "kw")
                has = z3.K(Str, False)
                val = path.sel("dict.val", d.e)
                for k2, v2 in kw.items():
                    has = z3.Store(has, z3.StringVal(k2), True)
                    val = z3.Store(val, z3.StringVal(k2), ref_of(v2))
                path.store("dict.has", d.e, has)
                path.store("dict.val", d.e, val)
                vals[dstar_name[2:]] = d
        else:
            if kw:
                self.unsupported(node, f"unexpected keyword arguments {list(kw)}")
            if ca.dstar is not None:
                self.unsupported(node, "**kwargs forwarded to a function without **kwargs")
        return vals

    def forward_dstar(self, path, params, vals, missing, ca, defaults, node=None):
        """**bundle forwarded to NAMED parameters: each still-missing parameter takes the dict's entry if
        present, else its default (assumed: the bundle holds no key that is not a parameter)."""
        has, val = path.sel("dict.has", ca.dstar.e), path.sel("dict.val", ca.dstar.e)
        types = dict((n.lstrip("*"), t) for n, t in params)
        for n in missing:
            if n not in defaults:
                self.unsupported(node, f"missing argument {n!r} (not in defaults) with **kwargs forwarding")
            key = z3.StringVal(n)
            present, raw, d = z3.Select(has, key), z3.Select(val, key), defaults[n]
            t = types.get(n, "any")
            if isinstance(d, B) or t == "bool":
                dv = d.e if isinstance(d, B) else truth_of(path, d)
                vals[n] = B(z3.If(present, truthy(raw), dv))
            elif isinstance(d, I) or t == "int":
                vals[n] = I(z3.If(present, raw, d.e if isinstance(d, I) else ref_of(d)))
            else:
                vals[n] = O(z3.If(present, raw, ref_of(d)), t if t not in ("any",) else "Val")
        return vals

    # ---- contract application at a call site -------------------------------------------
    def apply_contract(self, path, c: Contract, recv, ca: CallArgs, label: str, node=None) -> list:
        if getattr(c, "trusted", False):
            # an ASSUMED contract is being used at a call site: recorded, so that the evidence lists it
            self.run.used_trusted = getattr(self.run, "used_trusted", set()) | {(c.qualnames or [type(c).__name__])[0]}
        vals = self.bind_params(path, c.params, recv, ca, getattr(c, "defaults", {}), node)
        # coerce to declared types
        for n, t in c.params:
            nm = n.lstrip("*")
            vals[nm] = self.coerce(path, vals[nm], t, node)
        a = SimpleNamespace(**vals)
        if c.is_async:
            ident = next(self.run.coro_counter)
            path.coros[ident] = label

            def thunk(p, c=c, a=a, label=label, node=node):
                return self._apply_contract_now(p, c, a, label, node)

            return [(path, Coro(thunk, ident))]
        return self._apply_contract_now(path, c, a, label, node)

    def coerce(self, path, v: V, t: str, node=None) -> V:
        if t == "Val" and isinstance(v, S):
            return O(ref_of(v), "Val")  # a str object as a dynamically typed value
        if t in ("Val", "any"):
            if isinstance(v, (S, T, Py, Clo, BM, Coro)):
                return v
            return O(ref_of(v), "Val")
        if t == "bool" and isinstance(v, B):
            return v
        if t == "bool" and isinstance(v, (O, NoneV, I)):
            return B(truth_of(path, v))  # a dynamically typed value used where the callee reads a flag
        if t == "int" and isinstance(v, I):
            return v
        if t == "str":
            if isinstance(v, S):
                return v
            if isinstance(v, O):
                m = class_model(v.cls)
                fn = getattr(m, "as_str", None)
                if fn is not None:
                    return S(fn(path, v))
            self.unsupported(node, f"cannot pass {v} as str")
        if isinstance(v, NoneV):
            return O(NONE, t)
        if isinstance(v, BM):
            base_t = t[4:-1] if t.startswith("Opt[") else t
            fn = getattr(CLASSES.get(base_t), "from_bound_method", None) if base_t in CLASSES else None
            if fn is not None:
                return fn(path, v)
        if isinstance(v, O):
            return O(v.e, t) if v.cls in ("Val",) else v
        if isinstance(v, (T, Py, Clo, BM, Coro, S, B, I)):
            return v
        self.unsupported(node, f"cannot coerce {v} to {t}")

    def fresh_of_type(self, path, t, hint="r") -> V:
        if isinstance(t, tuple) and t[0] == "tuple":
            return T(tuple(self.fresh_of_type(path, x, hint) for x in t[1]))
        if t == "None":
            return NoneV()
        if t == "bool":
            return B(fresh(hint, Bool))
        if t == "int":
            return I(fresh(hint, Int))
        if t == "str":
            return S(fresh(hint, Str))
        return O(fresh(hint, Int), t)

    def _apply_contract_now(self, path, c: Contract, a, label: str, node=None) -> list:
        ln = getattr(node, "lineno", 0)
        if c.generator:
            return self._apply_generator_contract(path, c, a, label, node)
        s0 = path.snapshot()
        for k, f in c.pre(s0, a).items():
            self.run.oblige(path, "call-pre", f"{label}/{k}", f, callee=c.name)
        outs = []
        # normal outcome
        pn = path.fork() if c.raises else path
        self.havoc_keys(pn, c.modifies, s0)
        r = self.fresh_of_type(pn, c.returns, "ret")
        post = c.post(s0, pn.view(), a, r)
        pn.assume(*post.values())
        if hasattr(c, "derived"):
            # consequences of the post by a named meta-lemma (reported in the evidence)
            pn.assume(*c.derived(s0, pn.view(), a, r).values())
        if isinstance(r, O) and r.cls == "Val":
            pass
        outs.append((pn, r))
        if c.raises:
            pe = path
            self.havoc_keys(pe, c.modifies, s0)
            tag = fresh("exctag", Int)
            x = Exc(tag, {}, origin=label)
            pe.assume(*exc_tag_axioms(tag))
            if c.exc_classes is not None:
                pe.assume(z3.Or(*[tag == EXC_CODE[n] for n in c.exc_classes]))
            ep = c.exc_post(s0, pe.view(), a, x)
            pe.assume(*ep.values())
            if pe.feasible():
                outs.append((pe, Raise(x)))
        return outs

    def havoc_keys(self, path, keys, s_before: StateView, prefix="H_", exclude=()):
        """Havoc the heap keys of a modifies clause.  `key+` = only objects allocated after
        `s_before` may differ.  The allocation watermark only grows."""
        al0 = s_before["ghost.alloc"]
        for k in keys:
            plus = k.endswith("+")
            key = k[:-1] if plus else k
            old = path.hget(key)
            new = fresh(prefix + key, old.sort())
            path.hset(key, new)
            if key == "list.len":
                o2 = z3.Const("o!ll", Int)
                path.assume(z3.ForAll([o2], z3.Select(new, o2) >= 0, patterns=[z3.Select(new, o2)]))
            if plus:
                o = z3.Const("o!hv", Int)
                path.assume(z3.ForAll([o], z3.Implies(z3.And(o >= 0, o < al0, *[o != x for x in exclude]),
                                                      z3.Select(new, o) == z3.Select(old, o)),
                                      patterns=[z3.Select(new, o)]))
        na = fresh("alloc", Int)
        path.assume(na >= path.hget("ghost.alloc"))
        path.hset("ghost.alloc", na)

    def _apply_generator_contract(self, path, c: Contract, a, label, node=None) -> list:
        """Calling a generator function under contract: its ghost output (ylog, ny) starts empty and
        is described by the post; the caller gets the yielded values as a fresh sequence (laziness is
        not modelled: the generator is consumed completely, which is how the repo uses it)."""
        saved_log, saved_n = path.hget("ghost.ylog"), path.hget("ghost.ny")
        path.hset("ghost.ny", z3.IntVal(0))
        s0 = path.snapshot()
        for k, f in c.pre(s0, a).items():
            self.run.oblige(path, "call-pre", f"{label}/{k}", f, callee=c.name)
        self.havoc_keys(path, c.modifies, s0)
        r = NoneV()
        path.assume(*c.post(s0, path.view(), a, r).values())
        if hasattr(c, "derived"):
            path.assume(*c.derived(s0, path.view(), a, r).values())
        lst = path.alloc(f"list[{getattr(c, 'yields', 'Val')}]", "gen")
        path.assume(path.hget("ghost.ny") >= 0)
        path.store("list.arr", lst.e, path.hget("ghost.ylog"))
        path.store("list.len", lst.e, path.hget("ghost.ny"))
        path.hset("ghost.ylog", saved_log)
        path.hset("ghost.ny", saved_n)
        return [(path, lst)]

    # ---- inline execution of a real function body --------------------------------------
    def call_inline(self, path, qualname: str, recv, ca: CallArgs, node=None) -> list:
        fnode, modname = load_function(qualname)
        sub = Executor(self.run, CONTRACTS.get(qualname), qualname, fnode, modname)
        sub.s0, sub.a = self.s0, self.a
        sub.inline_depth = self.inline_depth + 1
        if sub.inline_depth > 8:
            raise Unsupported(f"inline depth exceeded at {qualname}")
        self.run.inlined = getattr(self.run, "inlined", set()) | {qualname}
        return sub.run_body(path, recv, ca, node)

    def call_inline_auto(self, path, qualname: str, recv, ca: CallArgs, node=None) -> list:
        """Inline a real helper that has no contract.  A loop inside it needs an invariant: when the function under
        contract lost loops to the helper (the contract declares specs for more loops than the function's own text still
        has), the spare specs are handed down in order — an extracted helper keeps being checked against the invariant
        written for the loop it took along.  Otherwise a helper with a loop is outside the accepted subset (undecided)."""
        fnode, modname = load_function(qualname)
        sub = Executor(self.run, None, qualname, fnode, modname)
        sub.s0, sub.a = self.s0, self.a
        sub.inline_depth = self.inline_depth + 1
        if sub.inline_depth > 8:
            raise Unsupported(f"inline depth exceeded at {qualname}")
        if sub.loop_ids:
            own = len(set(self.loop_ids.values()))
            declared = sorted(self.contract.loops) if (self.contract is not None and self.inline_depth == 0) else []
            spare = [k for k in declared if k >= own]
            order = sorted(set(sub.loop_ids.values()))
            if len(spare) >= len(order) and spare:
                remap = {old: spare[j] for j, old in enumerate(order)}
                sub.loop_ids = {nid: remap[k] for nid, k in sub.loop_ids.items()}
                sub.contract = self.contract
            else:
                # no invariant to hand down: a loop that really needs one (not a pointwise comprehension) is out of reach
                sub.needs_invariants = qualname
        self.run.inlined = getattr(self.run, "inlined", set()) | {qualname}
        return sub.run_body(path, recv, ca, node)

    def call_closure(self, path, f: Clo, ca: CallArgs, node=None) -> list:
        sub = Executor(self.run, None, f.qual, f.node, self.modname)
        sub.s0, sub.a = self.s0, self.a
        sub.inline_depth = self.inline_depth + 1
        if sub.inline_depth > 12:
            raise Unsupported("closure depth exceeded")
        return sub.run_body(path, None, ca, node, base_env=f.env)

    def run_body(self, path, recv, ca: CallArgs, node=None, base_env=None) -> list:
        """Bind the real parameter list, execute the real body, return [(path, V|Raise)]."""
        fn = self.node
        args = fn.args
        params = [(p.arg, "any") for p in args.posonlyargs + args.args]
        if args.vararg:
            params.append(("*" + args.vararg.arg, "tuple"))
        params += [(p.arg, "any") for p in args.kwonlyargs]
        if args.kwarg:
            params.append(("**" + args.kwarg.arg, "dict[str,Val]"))
        saved = path.env
        # defaults
        defaults = {}
        pos_params = args.posonlyargs + args.args
        for p, d in zip(pos_params[len(pos_params) - len(args.defaults):], args.defaults):
            defaults[p.arg] = d
        for p, d in zip(args.kwonlyargs, args.kw_defaults):
            if d is not None:
                defaults[p.arg] = d
        dvals = {}
        path.env = dict(base_env or {})
        for k, d in defaults.items():
            rs = self.ev(d, path)
            if len(rs) != 1 or isinstance(rs[0][1], Raise):
                self.unsupported(d, "default value")
            dvals[k] = rs[0][1]
        vals = self.bind_params(path, params, recv, ca, dvals, node)
        path.env.update(vals)
        is_async = isinstance(fn, ast.AsyncFunctionDef)

        def body_thunk(p):
            out = []
            if isinstance(fn, ast.Lambda):
                for p2, r in self.ev(fn.body, p):
                    p2.env = saved
                    out.append((p2, r))
                return out
            for p2, oc in self.exec_block(fn.body, p):
                p2.env = saved
                if isinstance(oc, Ret):
                    out.append((p2, oc.v))
                elif isinstance(oc, Norm):
                    out.append((p2, NoneV()))
                elif isinstance(oc, Raise):
                    out.append((p2, oc))
                else:
                    self.unsupported(fn, "break/continue outside loop")
            return out

        if is_async:
            env_now = path.env
            path.env = saved
            ident = next(self.run.coro_counter)
            path.coros[ident] = self.qualname

            def thunk(p):
                p.env = env_now
                return body_thunk(p)

            return [(path, Coro(thunk, ident))]
        return body_thunk(path)

    # ---- statements ---------------------------------------------------------------------
    def exec_block(self, stmts, path: Path) -> list:
        results = [(path, NORM)]
        for st in stmts:
            nxt = []
            for p, oc in results:
                if not isinstance(oc, Norm):
                    nxt.append((p, oc))
                    continue
                nxt += self.exec_stmt(st, p)
            results = nxt
        return results

    def exec_stmt(self, st, path: Path) -> list:
        m = getattr(self, "exec_" + type(st).__name__, None)
        if m is None:
            self.unsupported(st)
        return m(st, path)

    def exec_Pass(self, st, path):
        return [(path, NORM)]

    def exec_Delete(self, st, path):
        out = [(path, NORM)]
        for tgt in st.targets:
            if not isinstance(tgt, ast.Subscript):
                self.unsupported(st, "del of non-subscript")
            nxt = []
            for p, oc in out:
                if not isinstance(oc, Norm):
                    nxt.append((p, oc))
                    continue
                for p2, r in self.ev_seq([tgt.value, tgt.slice], p):
                    if isinstance(r, Raise):
                        nxt.append((p2, r))
                        continue
                    d, k = r
                    if not (isinstance(d, O) and split_generic(d.cls)[0] == "dict" and isinstance(k, S)):
                        self.unsupported(st, "del on non str-keyed dict")
                    has = p2.sel("dict.has", d.e)
                    for p3, present in self.branch(p2, z3.Select(has, k.e)):
                        if present:
                            p3.store("dict.has", d.e, z3.Store(p3.sel("dict.has", d.e), k.e, False))
                            nxt.append((p3, NORM))
                        else:
                            nxt.append((p3, Raise(Exc("KeyError", {"key": k}))))
            out = nxt
        return out

    def exec_Global(self, st, path):
        return [(path, NORM)]

    def exec_Nonlocal(self, st, path):
        return [(path, NORM)]

    def exec_Expr(self, st, path):
        if isinstance(st.value, ast.Constant):
            return [(path, NORM)]
        if isinstance(st.value, ast.Yield):
            # generator = procedure with a ghost output sequence (ghost.ylog / ghost.ny)
            out = []
            vals = self.ev(st.value.value, path) if st.value.value is not None else [(path, NoneV())]
            for p, r in vals:
                if isinstance(r, Raise):
                    out.append((p, r))
                    continue
                n = p.hget("ghost.ny")
                if isinstance(r, T) and len(r.items) == 2:
                    # `yield a, b`: two parallel output logs
                    p.hset("ghost.ylog", z3.Store(p.hget("ghost.ylog"), n, ref_of(r.items[0])))
                    p.hset("ghost.ylog2", z3.Store(p.hget("ghost.ylog2"), n, ref_of(r.items[1])))
                else:
                    p.hset("ghost.ylog", z3.Store(p.hget("ghost.ylog"), n, ref_of(r)))
                p.hset("ghost.ny", n + 1)
                out.append((p, NORM))
            return out
        out = []
        for p, r in self.ev(st.value, path):
            out.append((p, r if isinstance(r, Raise) else NORM))
        return out

    def exec_Return(self, st, path):
        if st.value is None:
            return [(path, Ret(NoneV()))]
        return [(p, r if isinstance(r, Raise) else Ret(r)) for p, r in self.ev(st.value, path)]

    def exec_Assert(self, st, path):
        out = []
        for p, r in self.ev(st.test, path):
            if isinstance(r, Raise):
                out.append((p, r))
                continue
            for p2, bv in self.branch(p, truth_of(p, r)):
                out.append((p2, NORM if bv else Raise(Exc("AssertionError"))))
        return out

    def exec_Assign(self, st, path):
        out = []
        for p, r in self.ev(st.value, path):
            if isinstance(r, Raise):
                out.append((p, r))
                continue
            res = [(p, NORM)]
            for tgt in st.targets:
                nxt = []
                for p2, oc in res:
                    if isinstance(oc, Norm):
                        nxt += self.assign(p2, tgt, r)
                    else:
                        nxt.append((p2, oc))
                res = nxt
            out += res
        return out

    def exec_AnnAssign(self, st, path):
        if st.value is None:
            return [(path, NORM)]
        out = []
        for p, r in self.ev(st.value, path):
            if isinstance(r, Raise):
                out.append((p, r))
            else:
                out += self.assign(p, st.target, r)
        return out

    def assign(self, path, tgt, v: V) -> list:
        if isinstance(tgt, ast.Name):
            lt = getattr(self.contract, "local_types", None) if self.contract is not None else None
            if lt and tgt.id in lt and isinstance(v, O):
                v = O(v.e, lt[tgt.id])  # declared static type of a local (e.g. deque() -> deque[State])
            path.env[tgt.id] = v
            return [(path, NORM)]
        if isinstance(tgt, (ast.Tuple, ast.List)):
            if not isinstance(v, T) or len(v.items) != len(tgt.elts):
                self.unsupported(tgt, f"unpacking of {v}")
            res = [(path, NORM)]
            for t2, v2 in zip(tgt.elts, v.items):
                nxt = []
                for p2, oc in res:
                    nxt += self.assign(p2, t2, v2) if isinstance(oc, Norm) else [(p2, oc)]
                res = nxt
            return res
        if isinstance(tgt, ast.Attribute):
            out = []
            for p, r in self.ev(tgt.value, path):
                if isinstance(r, Raise):
                    out.append((p, r))
                    continue
                out += self.setattr_v(p, r, tgt.attr, v, tgt)
            return out
        if isinstance(tgt, ast.Subscript):
            out = []
            for p, r in self.ev_seq([tgt.value, tgt.slice], path):
                if isinstance(r, Raise):
                    out.append((p, r))
                    continue
                forks = self.setitem(p, r[0], r[1], v, tgt)
                if forks:
                    out += [(p2, NORM) for p2, _ in forks]
                else:
                    out.append((p, NORM))
            return out
        self.unsupported(tgt, "assignment target")

    def setattr_v(self, path, obj: V, attr: str, v: V, node=None) -> list:
        if isinstance(obj, O):
            m = class_model(obj.cls)
            st = m._find("setters", attr)
            if st is not None:
                res = self.invoke_spec(path, st[1], obj, CallArgs([v], {}), f"{m.name}.{attr}@setter", node)
                return [(p, r if isinstance(r, Raise) else NORM) for p, r in res]
            fk = m.field_key(attr)
            if fk is not None:
                key, t = fk
                srt = sort_of_type(t)
                if srt == Bool:
                    val = v.e if isinstance(v, B) else truth_of(path, v) if False else None
                    if val is None:
                        self.unsupported(node, f"store non-bool into bool field {attr}")
                elif srt == Str:
                    if not isinstance(v, S):
                        self.unsupported(node, f"store non-str into str field {attr}")
                    val = v.e
                else:
                    val = ref_of(v)
                path.store(key, obj.e, val)
                return [(path, NORM)]
            dyn = getattr(m, "dyn_attrs", None)
            if dyn is not None and attr in dyn:
                d = path.sel(f"{m.heapname}.__dict__", obj.e)
                key = z3.StringVal(attr)
                path.store("dict.has", d, z3.Store(path.sel("dict.has", d), key, True))
                path.store("dict.val", d, z3.Store(path.sel("dict.val", d), key, ref_of(v)))
                return [(path, NORM)]
            self.unsupported(node, f"store to undeclared attribute {obj.cls}.{attr}")
        if isinstance(obj, Clo):
            obj.attrs[attr] = v
            return [(path, NORM)]
        self.unsupported(node, f"attribute store on {obj}")

    def exec_AugAssign(self, st, path):
        load_t = _as_load(st.target)
        out = []
        for p, r in self.ev_seq([load_t, st.value], path):
            if isinstance(r, Raise):
                out.append((p, r))
                continue
            cur, inc = r
            if isinstance(cur, I) and isinstance(inc, I) and isinstance(st.op, (ast.Add, ast.Sub)):
                nv = I(cur.e + inc.e if isinstance(st.op, ast.Add) else cur.e - inc.e)
                out += self.assign(p, st.target, nv)
                continue
            if isinstance(cur, O) and split_generic(cur.cls)[0] == "list" and isinstance(st.op, ast.Add):
                # list += list : in-place extend
                out += [(p2, r2 if isinstance(r2, Raise) else NORM)
                        for p2, r2 in self.call_method(p, cur, "extend", CallArgs([inc], {}), st)]
                continue
            self.unsupported(st, "augmented assignment")
        return out

    def exec_If(self, st, path):
        out = []
        for p, r in self.ev(st.test, path):
            if isinstance(r, Raise):
                out.append((p, r))
                continue
            for p2, bv in self.branch(p, truth_of(p, r)):
                out += self.exec_block(st.body if bv else st.orelse, p2)
        return out

    def exec_Raise(self, st, path):
        if st.exc is None:
            if not path.exc_stack:
                self.unsupported(st, "bare raise outside handler")
            return [(path, Raise(path.exc_stack[-1]))]
        out = []
        for p, r in self.ev(st.exc, path):
            if isinstance(r, Raise):
                out.append((p, r))
            elif isinstance(r, Exc):
                out.append((p, Raise(r)))
            elif isinstance(r, Py) and r.obj[0] == "exc":
                out.append((p, Raise(Exc(r.obj[1]))))
            else:
                self.unsupported(st, f"raise of {r}")
        return out

    def exec_Try(self, st, path):
        results = []
        for p, oc in self.exec_block(st.body, path):
            if isinstance(oc, Raise) and st.handlers:
                results += self.dispatch_handlers(st, p, oc.exc)
            elif isinstance(oc, Norm) and st.orelse:
                results += self.exec_block(st.orelse, p)
            else:
                results.append((p, oc))
        if not st.finalbody:
            return results
        out = []
        for p, oc in results:
            for p2, oc2 in self.exec_block(st.finalbody, p):
                out.append((p2, oc if isinstance(oc2, Norm) else oc2))
        return out

    def dispatch_handlers(self, st, path, exc: Exc) -> list:
        out = []
        remaining = [(path, True)]
        for h in st.handlers:
            nxt_remaining = []
            for p, _ in remaining:
                names = self.handler_classes(h, p)
                if names is None:
                    cond = True
                else:
                    conds = [exc.is_sub(n) for n in names]
                    if any(c is True for c in conds):
                        cond = True
                    else:
                        zc = [c for c in conds if c is not False]
                        cond = z3.Or(*zc) if zc else False
                if cond is True:
                    branches = [(p, True)]
                elif cond is False:
                    branches = [(p, False)]
                else:
                    branches = self.branch(p, cond)
                for p2, bv in branches:
                    if bv:
                        if h.name:
                            p2.env[h.name] = exc
                        p2.exc_stack.append(exc)
                        for p3, oc in self.exec_block(h.body, p2):
                            if p3.exc_stack and p3.exc_stack[-1] is exc:
                                p3.exc_stack.pop()
                            out.append((p3, oc))
                    else:
                        nxt_remaining.append((p2, True))
            remaining = nxt_remaining
        for p, _ in remaining:
            out.append((p, Raise(exc)))
        return out

    def handler_classes(self, h, path):
        if h.type is None:
            return None
        nodes = h.type.elts if isinstance(h.type, ast.Tuple) else [h.type]
        names = []
        for n in nodes:
            v = self.lookup(n.id, path) if isinstance(n, ast.Name) else None
            if not (isinstance(v, Py) and v.obj[0] == "exc"):
                self.unsupported(h, "exception class expression")
            names.append(v.obj[1])
        return names

    def exec_FunctionDef(self, st, path):
        clo = Clo(st, path.env, {}, qual=f"{self.qualname}.<locals>.{st.name}")
        # closures capture the enclosing environment by reference (late binding)
        path.env[st.name] = clo
        return [(path, NORM)]

    exec_AsyncFunctionDef = exec_FunctionDef

    # ---- loops --------------------------------------------------------------------------
    def loop_spec(self, node) -> Optional[LoopSpec]:
        k = self.loop_ids.get(id(node))
        if self.contract is None or k is None:
            return None
        return self.contract.loops.get(k)

    def loop_spec_or_trivial(self, node) -> LoopSpec:
        """A loop without a contract gets the trivial invariant `true` (sound: nothing is known
        after it except the frame); used for message-building comprehensions."""
        sp = self.loop_spec(node)
        if sp is None and getattr(self, "needs_invariants", None):
            raise Unsupported(f"loop in helper {self.needs_invariants} that has no contract (no invariant to check it against)")
        if sp is None:
            self.run.trivial_loops = getattr(self.run, "trivial_loops", 0) + 1
            return LoopSpec(lambda s0, s, a, l: {}, modifies=TRIVIAL_LOOP_MODIFIES)
        return sp

    def _havoc_for_loop(self, path, body_nodes, spec: LoopSpec, extra_names=()):
        names = set(extra_names)
        for b in body_nodes:
            for n in ast.walk(b):
                if isinstance(n, ast.Name) and isinstance(n.ctx, ast.Store):
                    names.add(n.id)
        for nm in sorted(names):
            if nm in spec.types:
                path.env[nm] = self.fresh_of_type(path, spec.types[nm], nm)
            elif nm in path.env:
                path.env[nm] = self._havoc_like(path, path.env[nm], nm)
        mods = spec.modifies if spec.modifies is not None else (self.contract.modifies if self.contract else [])
        entry = path.snapshot()
        entry.written = [ref_of(path.env[nm]) for nm in path.env if nm.startswith("__acc") and isinstance(path.env[nm], O)]
        stack = getattr(self, "_acc_stack", [])
        if stack and stack[-1] and not stack[-1].startswith("__acc") and isinstance(path.env.get(stack[-1]), O):
            entry.written.append(ref_of(path.env[stack[-1]]))  # the explicit loop's own accumulator, like a comprehension's
        if spec.written is not None:
            entry.written += list(spec.written(self.s0, self.a, self._locals_ns(path)))
        # the key list of an insertion-ordered dict accumulator is written whenever the dict is
        if "odict.keys" in path.heap:
            for nm in path.env:
                v = path.env[nm]
                if nm.startswith("__acc") and isinstance(v, O) and str(v.cls).startswith("odict"):
                    entry.written.append(z3.Select(path.hget("odict.keys"), v.e))
        self.havoc_keys(path, mods, entry, prefix="L_", exclude=entry.written)
        return entry

    def _havoc_like(self, path, v: V, nm: str) -> V:
        if isinstance(v, B):
            return B(fresh(nm, Bool))
        if isinstance(v, I):
            return I(fresh(nm, Int))
        if isinstance(v, S):
            return S(fresh(nm, Str))
        if isinstance(v, O):
            return O(fresh(nm, Int), v.cls)
        if isinstance(v, T):
            return T(tuple(self._havoc_like(path, x, nm) for x in v.items))
        if isinstance(v, NoneV):
            raise Unsupported(f"loop-carried local {nm!r} is None at loop entry; declare its type in LoopSpec.types")
        return v

    def _locals_ns(self, path, **extra):
        ns = SimpleNamespace(**{k: v for k, v in path.env.items()})
        for k, v in extra.items():
            setattr(ns, k, v)
        # `l.acc`: the collection the innermost loop accumulates into (the hidden list of a comprehension, or the one
        # local the loop body appends/adds to), so an invariant does not depend on how the loop is spelled
        stack = getattr(self, "_acc_stack", [])
        if stack and stack[-1] in path.env and not hasattr(ns, "acc"):
            ns.acc = path.env[stack[-1]]
        return ns

    def _check_inv(self, path, spec: LoopSpec, k: int, phase: str, entry=None, **extra):
        inv = spec.inv(self.s0, path.view(), self.a, self._locals_ns(path, **extra))
        for label, f in inv.items():
            self.run.oblige(path, f"loop{k}-inv-{phase}", label, f)
        if phase == "preserved":
            mods = spec.modifies if spec.modifies is not None else (self.contract.modifies if self.contract else [])
            al0 = entry["ghost.alloc"]
            for km in mods:
                if km.endswith("+"):
                    key = km[:-1]
                    cur, init = path.hget(key), entry[key]
                    if cur is init:
                        continue
                    o = z3.Const("o!lf", Int)
                    self.run.oblige(path, f"loop{k}-inv-{phase}", f"frame:{key}-old-objects-kept",
                                    z3.ForAll([o], z3.Implies(z3.And(o >= 0, o < al0, *[o != x for x in entry.written]),
                                                              z3.Select(cur, o) == z3.Select(init, o))))

    def _assume_inv(self, path, spec: LoopSpec, **extra):
        inv = spec.inv(self.s0, path.view(), self.a, self._locals_ns(path, **extra))
        path.assume(*inv.values())

    def exec_While(self, st, path):
        spec = self.loop_spec_or_trivial(st)
        k = self.loop_ids.get(id(st))
        self._check_inv(path, spec, k, "entry", at_entry=path.snapshot())
        entry = self._havoc_for_loop(path, st.body + [st.test], spec)
        self._assume_inv(path, spec, at_entry=entry)
        if not path.feasible():
            return []
        out = []
        for p, r in self.ev(st.test, path):
            if isinstance(r, Raise):
                out.append((p, r))
                continue
            for p2, bv in self.branch(p, truth_of(p, r)):
                if bv:
                    for p3, oc in self.exec_block(st.body, p2):
                        if isinstance(oc, (Norm, Cont)):
                            self._check_inv(p3, spec, k, "preserved", entry=entry, at_entry=entry)
                            self.run.paths_explored += 1
                        elif isinstance(oc, Brk):
                            out.append((p3, NORM))
                        else:
                            out.append((p3, oc))
                else:
                    out += self.exec_block(st.orelse, p2)
        return out

    def seq_view(self, path, v: V, node=None):
        """-> (elem(k) -> z3 expr, n z3 Int, elem type) or ('unroll', [V])"""
        if isinstance(v, T):
            return ("unroll", list(v.items))
        from .models import CoroList
        if isinstance(v, CoroList):
            gen = v.node.generators[0]
            if gen.ifs:
                self.unsupported(node, "filtered list of coroutines")
            saved = path.env
            path.env = dict(v.env)
            its = self.ev(gen.iter, path)
            path.env = saved
            if len(its) != 1 or isinstance(its[0][1], Raise):
                self.unsupported(node, "coroutine list iterable")
            elem, n, et = self.seq_view(path, its[0][1], node)

            def build(p, ref, v=v, gen=gen, et=et):
                env2 = dict(v.env)
                env2[gen.target.id] = wrap(et, ref)
                ident = next(self.run.coro_counter)

                def thunk(p2):
                    saved2 = p2.env
                    p2.env = env2
                    out = []
                    for p3, r in self.ev(v.node.elt, p2):
                        p3.env = saved2
                        if isinstance(r, Coro):
                            p3.coros.pop(r.ident, None)
                            out += r.thunk(p3)
                        else:
                            out.append((p3, r))
                    return out

                return Coro(thunk, ident)

            return elem, n, ("coro", build)
        if isinstance(v, O):
            base, targs = split_generic(v.cls)
            if base == "Opt":
                base, targs = split_generic(targs[0])
            if base == "list":
                arr, n = path.sel("list.arr", v.e), path.sel("list.len", v.e)
                return (lambda k2, arr=arr: z3.Select(arr, k2)), n, (targs[0] if targs else "Val")
            if base == "deque":
                arr, h, t = path.sel("deque.arr", v.e), path.sel("deque.head", v.e), path.sel("deque.tail", v.e)
                return (lambda k2, arr=arr, h=h: z3.Select(arr, h + k2)), t - h, (targs[0] if targs else "Val")
            if base == "iter":
                # the not-yet-consumed items of an iterator object
                arr, pos, n = path.sel("iter.arr", v.e), path.sel("iter.pos", v.e), path.sel("iter.len", v.e)
                return (lambda k2, arr=arr, pos=pos: z3.Select(arr, pos + k2)), n - pos, (targs[0] if targs else "Val")
            if base == "set":
                # iteration order of a set is unspecified: some enumeration of its members
                has = path.sel("set.has", v.e)
                arr, n = fresh("set_enum", z3.ArraySort(Int, Int)), fresh("set_n", Int)
                k2 = fresh("k", Int)
                path.assume(n >= 0, z3.ForAll([k2], z3.Implies(z3.And(k2 >= 0, k2 < n), z3.Select(has, z3.Select(arr, k2)))))
                return (lambda k3, arr=arr: z3.Select(arr, k3)), n, (targs[0] if targs else "Val")
            m = class_model(v.cls)
            if m.iter_fn is not None:
                return self.seq_view(path, m.iter_fn(self, path, v), node)
            for bb in m.bases:
                if CLASSES[bb].iter_fn is not None:
                    return self.seq_view(path, CLASSES[bb].iter_fn(self, path, v), node)
        self.unsupported(node, f"iteration over {v}")

    def exec_For(self, st, path):
        out = []
        for p, r in self.ev(st.iter, path):
            if isinstance(r, Raise):
                out.append((p, r))
                continue
            out += self._for_over(st, p, r)
        return out

    exec_AsyncFor = None

    def _for_over(self, st, path, itv: V) -> list:
        sv = self.seq_view(path, itv, st)
        if sv[0] == "unroll":
            results = [(path, NORM)]
            broke = []
            for item in sv[1]:
                nxt = []
                for p, oc in results:
                    for p1, oc1 in self.assign(p, st.target, item):
                        for p2, oc2 in self.exec_block(st.body, p1):
                            if isinstance(oc2, (Norm, Cont)):
                                nxt.append((p2, NORM))
                            elif isinstance(oc2, Brk):
                                broke.append((p2, NORM))
                            else:
                                broke.append((p2, oc2))
                results = nxt
            out = list(broke)
            for p, oc in results:
                out += self.exec_block(st.orelse, p)
            return out
        elem, n, et = sv
        spec = self.loop_spec_or_trivial(st)
        k = self.loop_ids.get(id(st))
        path.assume(n >= 0)
        if not hasattr(self, "_acc_stack"):
            self._acc_stack = []
        self._acc_stack.append(_loop_accumulator(st))
        try:
            return self._for_loop_with_invariant(st, path, spec, k, elem, n, et)
        finally:
            self._acc_stack.pop()

    def _for_loop_with_invariant(self, st, path, spec, k, elem, n, et):
        self._check_inv(path, spec, k, "entry", i=z3.IntVal(0), n=n, seq=elem, at_entry=path.snapshot())
        entry = self._havoc_for_loop(path, st.body, spec, extra_names=_target_names(st.target))
        i = fresh("i", Int)
        path.assume(i >= 0, i <= n)
        self._assume_inv(path, spec, i=i, n=n, seq=elem, at_entry=entry)
        if not path.feasible():
            return []
        out = []
        for p, more in self.branch(path, i < n):
            if more:
                item = et[1](p, elem(i)) if isinstance(et, tuple) else wrap(et, elem(i))
                for p1, oc1 in self.assign(p, st.target, item):
                    for p2, oc in self.exec_block(st.body, p1):
                        if isinstance(oc, (Norm, Cont)):
                            self._check_inv(p2, spec, k, "preserved", entry=entry, i=i + 1, n=n, seq=elem, at_entry=entry)
                            self.run.paths_explored += 1
                        elif isinstance(oc, Brk):
                            if isinstance(et, tuple):
                                self.coro_list_exit(p2, i, n, st)
                            out.append((p2, NORM))
                        else:
                            if isinstance(et, tuple):
                                self.coro_list_exit(p2, i, n, st)
                            out.append((p2, oc))
            else:
                out += self.exec_block(st.orelse, p)
        return out

    def coro_list_exit(self, path, i, n, node):
        """Leaving a loop over started coroutines early: those not yet awaited stay pending."""
        self.run.oblige(path, "await", f"C05|await-discipline:every-started-coroutine-is-awaited@{getattr(node, 'lineno', 0)}",
                        i + 1 == n)

    def exec_Break(self, st, path):
        return [(path, Brk())]

    def exec_Continue(self, st, path):
        return [(path, Cont())]


def _as_load(t):
    import copy
    t2 = copy.copy(t)
    t2.ctx = ast.Load()
    return t2


def _loop_accumulator(st):
    """Name of the single local that the loop body grows with .append/.add/.extend, if there is exactly one."""
    names = set()
    for b in st.body:
        for nd in ast.walk(b):
            if (isinstance(nd, ast.Call) and isinstance(nd.func, ast.Attribute) and nd.func.attr in ("append", "add", "extend")
                    and isinstance(nd.func.value, ast.Name)):
                names.add(nd.func.value.id)
    return next(iter(names)) if len(names) == 1 else None


def _target_names(t):
    return [n.id for n in ast.walk(t) if isinstance(n, ast.Name)]


TRIVIAL_LOOP_MODIFIES = ["list.arr+", "list.len+", "set.has+"]
from .core import HEAP_SORTS as HEAP_SORTS_REF  # noqa: E402
BINOPS: Dict[tuple, Callable] = {}
CONTAINS_HOOKS: Dict[str, Callable] = {}
COMPREHENSION_HOOKS: list = []  # (executor, node, path, kind) -> outcomes | None
_CLASS_INDEX = None


def _class_index():
    """Every top-level class of the package under check: name -> (module, ClassDef); ambiguous names are dropped."""
    global _CLASS_INDEX
    if _CLASS_INDEX is None:
        import os
        from .core import REPO, load_module
        idx, dup = {}, set()
        root = os.path.join(REPO, "statemachine")
        for dp, _dn, fns in os.walk(root):
            for fn in fns:
                if not fn.endswith(".py"):
                    continue
                rel = os.path.relpath(os.path.join(dp, fn), REPO)[:-3].replace(os.sep, ".")
                if rel.endswith(".__init__"):
                    rel = rel[: -len(".__init__")]
                try:
                    tree = load_module(rel)
                except Exception:
                    continue
                for st in tree.body:
                    if isinstance(st, ast.ClassDef):
                        if st.name in idx:
                            dup.add(st.name)
                        idx[st.name] = (rel, st)
        for d in dup:
            idx.pop(d, None)
        _CLASS_INDEX = idx
    return _CLASS_INDEX


def _constant_value(val):
    if isinstance(val, (ast.Set, ast.Tuple, ast.List)) and all(isinstance(e, ast.Constant) and isinstance(e.value, str) for e in val.elts):
        return Py(("strset", frozenset(e.value for e in val.elts)))
    if isinstance(val, ast.Constant) and isinstance(val.value, str):
        return S(z3.StringVal(val.value))
    if isinstance(val, ast.Constant) and isinstance(val.value, bool):
        return B(z3.BoolVal(val.value))
    if isinstance(val, ast.Constant) and isinstance(val.value, int):
        return I(z3.IntVal(val.value))
    return None


def real_class_constant(cls_name: str, attr: str):
    """A class-level constant (`X = {"a", "b"}` / str / int / bool in the class body of the real class or a base),
    read through an instance or the class: a module constant that was moved into the class."""
    idx = _class_index()
    seen, stack = set(), [getattr(CLASSES.get(cls_name), "real_name", None) or cls_name]
    while stack:
        c = stack.pop(0)
        if c in seen or c not in idx:
            continue
        seen.add(c)
        _modname, cdef = idx[c]
        for st in cdef.body:
            tgt = None
            if isinstance(st, ast.Assign) and len(st.targets) == 1 and isinstance(st.targets[0], ast.Name):
                tgt, val = st.targets[0].id, st.value
            elif isinstance(st, ast.AnnAssign) and isinstance(st.target, ast.Name) and st.value is not None:
                tgt, val = st.target.id, st.value
            if tgt == attr:
                return _constant_value(val)
        stack += [b.id for b in cdef.bases if isinstance(b, ast.Name)]
    return None


def real_method(cls_name: str, attr: str):
    """(qualname, kind) of method `attr` of the real class named like the class model (searching its bases), if that
    method exists and has NO contract; kind in method/static/class/property."""
    idx = _class_index()
    seen, stack = set(), [getattr(CLASSES.get(cls_name), "real_name", None) or cls_name]
    while stack:
        c = stack.pop(0)
        if c in seen or c not in idx:
            continue
        seen.add(c)
        modname, cdef = idx[c]
        for st in cdef.body:
            if isinstance(st, (ast.FunctionDef, ast.AsyncFunctionDef)) and st.name == attr:
                decos = [d.id if isinstance(d, ast.Name) else getattr(d, "attr", "") for d in st.decorator_list]
                kind = "static" if "staticmethod" in decos else "class" if "classmethod" in decos else \
                    "property" if "property" in decos else "method"
                q = f"{modname}:{c}.{attr}"
                if q in CONTRACTS:
                    return None
                return q, kind
        stack += [b.id for b in cdef.bases if isinstance(b, ast.Name)]
    return None
STR_METHODS: Dict[str, Callable] = {}
