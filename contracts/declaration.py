"""Contracts of the declaration layer (C02 event scoping, C09 internal transitions, C15 builders):
Transition._setup / State._setup, SpecListGrouper.add, the to/from_ builders, add_transitions,
AnyState._on_event_defined."""
from __future__ import annotations

import z3

from pyvc.core import (
    A_II, B, BM, CLASSES, EXC_CODE, Exc, I, NONE, NoneV, O, Py, S, STR_REF, T, Int, Bool, Str, ref_of, truthy, FIRST_ADDR,
    ClassModel, MethodSpec, Unsupported, HEAP_SORTS, fresh,
)
from pyvc.execu import CONTRACTS, GLOBAL_NAMES, CallArgs, Contract, LoopSpec, Raise, register
from pyvc.models import model

from .model import C, INL, valid_obj

CBQ = "statemachine.callbacks:"
TRQ = "statemachine.transition:Transition."
STQ = "statemachine.state:"

SAMEEV = z3.Function("SAME_EVENT_COND", Int, Int)  # the bound method <event>.is_same_event, as a condition object
CLASSES["CondCallable"].from_bound_method = lambda path, bm: (
    O(SAMEEV(bm.recv.e), "CondCallable") if bm.name == "is_same_event" else (_ for _ in ()).throw(Unsupported("bound method as cond")))
CLASSES["Event"].methods["is_same_event"] = C("statemachine.event:Event.is_same_event")
from pyvc.core import REF_HOOKS  # noqa: E402
REF_HOOKS.append(lambda v: SAMEEV(v.recv.e) if isinstance(v, BM) and v.name == "is_same_event" and isinstance(v.recv, O) else None)
CLASSES["SpecListGrouper"].methods["add"] = C(CBQ + "SpecListGrouper.add")
for _f, _t in (("cond", "Opt[CondCallable]"), ("priority", "int"), ("expected_value", "Val"), ("is_convention", "bool"), ("is_event", "bool")):
    CLASSES["CallbackSpec"].fields.setdefault(_f, _t)
HEAP_SORTS.setdefault("CallbackSpec.is_event", z3.ArraySort(Int, Bool))

# CallbackPriority / CallbackGroup values are read from the real enum bodies


def _enum_values(modname, clsname):
    import ast
    from pyvc.core import load_module
    tree = load_module(modname)
    cnode = next(n for n in tree.body if isinstance(n, ast.ClassDef) and n.name == clsname)
    out, auto = {}, 0
    for st in cnode.body:
        if isinstance(st, ast.Assign) and isinstance(st.targets[0], ast.Name):
            if isinstance(st.value, ast.Constant):
                out[st.targets[0].id] = st.value.value
            elif isinstance(st.value, ast.Call) and getattr(st.value.func, "id", "") == "auto":
                auto += 1
                out[st.targets[0].id] = auto
    return out


PRIO = _enum_values("statemachine.callbacks", "CallbackPriority")
GROUP = _enum_values("statemachine.callbacks", "CallbackGroup")
ClassModel("CallbackPriorityEnum", py_fields={k: I(z3.IntVal(v)) for k, v in PRIO.items()})
GLOBAL_NAMES["CallbackPriority"] = Py(("class", "CallbackPriorityEnum"))
GLOBAL_NAMES["CallbackGroup"] = Py(("class", "CallbackGroupEnum"))
ClassModel("CallbackGroupEnum", py_fields={k: O(z3.IntVal(1000 + v), "CallbackGroup") for k, v in GROUP.items()})


def G(name):
    return z3.IntVal(1000 + GROUP[name])


def spec_items(s, specs):
    lst = s.sel("CallbackSpecList.items", specs)
    return s.sel("list.arr", lst), s.sel("list.len", lst)


def has_equal_spec(s, specs, func, group, upto=None):
    arr, n = spec_items(s, specs)
    k = z3.Const("k!hs", Int)
    sp = z3.Select(arr, k)
    return z3.Exists([k], z3.And(k >= 0, k < (n if upto is None else upto), s.sel("CallbackSpec.func", sp) == func,
                                 s.sel("CallbackSpec.group", sp) == group))


class GrouperAdd(Contract):
    """SpecListGrouper.add(name, **kwargs) for ONE name (C02, C15): appends to the grouper's list a spec
    of the grouper's group with exactly the given fields, unless an equal spec (same func and group)
    is already there; returns the grouper."""

    qualnames = [CBQ + "SpecListGrouper.add"]
    params = [("self", "SpecListGrouper"), ("callbacks", "str"), ("**kwargs", "dict[str,Val]")]
    returns = "SpecListGrouper"
    modifies = None  # set below (ADD_MODIFIES)
    properties = ["C02", "C15"]

    def pre(self, s, a):
        return {"list-wf": spec_list_wf(s, s.sel("SpecListGrouper.list", a.self.e))}

    def post(self, s0, s, a, r):
        me = a.self.e
        f = add_post(s0, s, s0.sel("SpecListGrouper.list", me), s0.sel("SpecListGrouper.group", me), STR_REF(a.callbacks.e),
                     SpecListAddOne._fields(None, s0, a))
        f["returns-self"] = r.e == me
        return f


def fmt1(shape):
    return z3.Function("fmt<" + shape + ">", Str, Str)


def trans_events(s, t):
    lst = s.sel("Events._items", s.sel("Transition._events", t))
    return s.sel("list.arr", lst), s.sel("list.len", lst)


@register
class TransitionSetup(Contract):
    """Transition._setup (C02): the naming-convention callbacks `before_<e>`, `on_<e>`, `after_<e>` are
    registered for every own event e with `cond = e.is_same_event` — so they run only for the
    triggering event — and the generic before/on/after_transition without condition."""

    qualnames = [TRQ + "_setup"]
    params = [("self", "Transition")]
    returns = "None"
    modifies = GrouperAdd.modifies
    properties = ["C02"]

    def pre(self, s, a):
        t = a.self.e
        specs = s.sel("Transition._specs", t)
        ea, en = trans_events(s, t)
        k = z3.Const("k!tsp", Int)
        gs = {"before": "BEFORE", "on": "ON", "after": "AFTER"}
        f = {"events-valid": z3.And(en >= 0, z3.ForAll([k], z3.Implies(z3.And(k >= 0, k < en), valid_obj(s, z3.Select(ea, k))))),
             "spec-list-wf": spec_list_wf(s, specs),
             "spec-list-valid": z3.And(valid_obj(s, specs), valid_obj(s, s.sel("CallbackSpecList.items", specs)), spec_items(s, specs)[1] >= 0,
                                       s.sel("CallbackSpecList.items", specs) != s.sel("Events._items", s.sel("Transition._events", t)),
                                       valid_obj(s, s.sel("Events._items", s.sel("Transition._events", t))))}
        for attr, gname in gs.items():
            g = s.sel("Transition." + attr, t)
            f[f"{attr}-grouper"] = z3.And(valid_obj(s, g), s.sel("SpecListGrouper.list", g) == specs, s.sel("SpecListGrouper.group", g) == G(gname))
        return f

    def _added_are_scoped(self, s0, s, a):
        """Every spec this call added is a convention spec that is either one of the three generic ones
        (no condition) or named <phase>_<id of an own event e> in that phase's group and carrying
        cond = e.is_same_event — so event-named callbacks run only for the triggering event."""
        t = a.self.e
        specs = s0.sel("Transition._specs", t)
        arr, n = spec_items(s, specs)
        n0 = spec_items(s0, specs)[1]
        ea, en = trans_events(s0, t)
        j, k = z3.Const("j!os", Int), z3.Const("k!os", Int)
        sp = z3.Select(arr, k)
        ev = z3.Select(ea, j)
        func, grp, cond = s.sel("CallbackSpec.func", sp), s.sel("CallbackSpec.group", sp), s.sel("CallbackSpec.cond", sp)
        generic = z3.And(cond == NONE, z3.Or(
            z3.And(func == STR_REF(z3.StringVal("before_transition")), grp == G("BEFORE")),
            z3.And(func == STR_REF(z3.StringVal("on_transition")), grp == G("ON")),
            z3.And(func == STR_REF(z3.StringVal("after_transition")), grp == G("AFTER"))))
        named = z3.Exists([j], z3.And(j >= 0, j < en, cond == SAMEEV(ev), z3.Or(*[
            z3.And(func == STR_REF(fmt1(ph + "_|{}")(s0.sel("Event.id", ev))), grp == G(g))
            for ph, g in (("before", "BEFORE"), ("on", "ON"), ("after", "AFTER"))])))
        return z3.ForAll([k], z3.Implies(z3.And(k >= n0, k < n), z3.And(
            sp >= FIRST_ADDR, sp < s["ghost.alloc"], s.sel("CallbackSpec.is_convention", sp), z3.Or(generic, named))),
            patterns=[z3.Select(arr, k)])

    def _old_kept(self, s0, s, a):
        specs = s0.sel("Transition._specs", a.self.e)
        arr, n = spec_items(s, specs)
        arr0, n0 = spec_items(s0, specs)
        k = z3.Const("k!ok2", Int)
        return z3.And(n >= n0, z3.ForAll([k], z3.Implies(z3.And(k >= 0, k < n0), z3.Select(arr, k) == z3.Select(arr0, k))))

    def _other_lists(self, s0, s, a):
        lst = s0.sel("CallbackSpecList.items", s0.sel("Transition._specs", a.self.e))
        o = z3.Const("o!ol", Int)
        return z3.ForAll([o], z3.Implies(o != lst, z3.And(
            z3.Select(s["list.arr"], o) == z3.Select(s0["list.arr"], o), z3.Select(s["list.len"], o) == z3.Select(s0["list.len"], o))),
            patterns=[z3.Select(s["list.arr"], o), z3.Select(s["list.len"], o)])

    def post(self, s0, s, a, r):
        return {
            "other-lists-untouched": self._other_lists(s0, s, a),
            "C02|every-added-spec-is-generic-or-scoped-to-its-own-event": self._added_are_scoped(s0, s, a),
            "existing-specs-kept": self._old_kept(s0, s, a),
        }

    def _inv(self, s0, s, a, l):
        return {
            "C02|added-so-far-are-generic-or-scoped": self._added_are_scoped(s0, s, a),
            "existing-specs-kept": self._old_kept(s0, s, a),
            "other-lists-untouched": self._other_lists(s0, s, a),
            "spec-list-wf": spec_list_wf(s, s0.sel("Transition._specs", a.self.e)),
        }

    @property
    def loops(self):
        return {0: LoopSpec(self._inv)}


# =========================================================================== CallbackSpecList.add / _add
from pyvc.execu import builtin  # noqa: E402


@builtin("ensure_iterable")
def b_ensure_iterable(ex, path, ca, node):
    """utils.ensure_iterable: a str (or any non-iterable) becomes a one-element list; None is handled
    by the callers; other iterables are iterated as they are."""
    v = ca.pos[0]
    if isinstance(v, S) or (isinstance(v, O) and v.cls in ("Val", "Transition", "CallbackSpec")):
        return [(path, T((v,)))]
    return [(path, v)]


def spec_ctor(ex, path, ca, node):
    """CallbackSpec(func, group, is_convention=False, is_event=False, cond=None, priority=NAMING,
    expected_value=None) — ASSUMED constructor contract: the fields the engine reads are stored as
    given (reference kind / attr_name bookkeeping is not modelled)."""
    names = ["func", "group", "is_convention", "is_event", "cond", "priority", "expected_value"]
    dflt = {"is_convention": B(z3.BoolVal(False)), "is_event": B(z3.BoolVal(False)), "cond": NoneV(),
            "priority": I(z3.IntVal(PRIO["NAMING"])), "expected_value": NoneV()}
    params = [(n, {"is_convention": "bool", "is_event": "bool", "priority": "int"}.get(n, "any")) for n in names]
    vals = ex.bind_params(path, params, None, ca, dflt, node)
    sp = path.alloc("CallbackSpec", "spec")
    path.store("CallbackSpec.func", sp.e, ref_of(vals["func"]))
    path.store("CallbackSpec.group", sp.e, ref_of(vals["group"]))
    path.store("CallbackSpec.is_convention", sp.e, vals["is_convention"].e)
    path.store("CallbackSpec.is_event", sp.e, vals["is_event"].e)
    path.store("CallbackSpec.cond", sp.e, ref_of(vals["cond"]))
    path.store("CallbackSpec.priority", sp.e, vals["priority"].e)
    path.store("CallbackSpec.expected_value", sp.e, ref_of(vals["expected_value"]))
    return [(path, sp)]


CLASSES["CallbackSpec"].ctor = spec_ctor
CLASSES["CallbackSpec"].isinstance_of = lambda other: other == "CallbackSpec"
GLOBAL_NAMES["CallbackSpec"] = Py(("class", "CallbackSpec"))
CLASSES["CallbackSpecList"].py_fields["factory"] = Py(("class", "CallbackSpec"))
CLASSES["CallbackSpecList"].fields["conventional_specs"] = "set[Val]"
HEAP_SORTS.setdefault("CallbackSpecList.conventional_specs", A_II)
CLASSES["CallbackSpecList"].methods.update({"add": C(CBQ + "CallbackSpecList.add"), "_add": C(CBQ + "CallbackSpecList._add")})


@register
class SpecEq(Contract):
    """CallbackSpec.__eq__: same func and same group (this is what de-duplicates specs, so a callback
    name used in two groups of one list stays two specs)."""

    qualnames = [CBQ + "CallbackSpec.__eq__"]
    params = [("self", "CallbackSpec"), ("other", "CallbackSpec")]
    returns = "bool"
    modifies = []
    properties = ["C02", "C15"]

    def post(self, s0, s, a, r):
        return {"C02|equal-iff-same-func-and-same-group": r.e == z3.And(
            s0.sel("CallbackSpec.func", a.self.e) == s0.sel("CallbackSpec.func", a.other.e),
            s0.sel("CallbackSpec.group", a.self.e) == s0.sel("CallbackSpec.group", a.other.e))}


def _spec_eq_formula(ex, path, a, b):
    if not (isinstance(b, O) and b.cls == "CallbackSpec"):
        raise Unsupported("CallbackSpec == non-spec")
    return z3.And(path.sel("CallbackSpec.func", a.e) == path.sel("CallbackSpec.func", b.e),
                  path.sel("CallbackSpec.group", a.e) == path.sel("CallbackSpec.group", b.e))


CLASSES["CallbackSpec"].eq_fn = _spec_eq_formula  # call sites use SpecEq's post; the body is checked against it above

ADD_MODIFIES = ["list.arr", "list.len", "set.has", "CallbackSpec.func+", "CallbackSpec.group+", "CallbackSpec.cond+", "CallbackSpec.priority+",
                "CallbackSpec.is_convention+", "CallbackSpec.expected_value+", "dict.has+", "dict.val+"]


def add_post(s0, s, specs, grp, func, fields, result_is=None):
    lst = s0.sel("CallbackSpecList.items", specs)
    arr0, n0 = spec_items(s0, specs)
    arr, n = spec_items(s, specs)
    dup = has_equal_spec(s0, specs, func, grp)
    new = z3.Select(arr, n0)
    o, k = z3.Const("o!ap", Int), z3.Const("k!ap", Int)
    f = {
        "other-lists-untouched": z3.ForAll([o], z3.Implies(o != lst, z3.And(
            z3.Select(s["list.arr"], o) == z3.Select(s0["list.arr"], o), z3.Select(s["list.len"], o) == z3.Select(s0["list.len"], o))),
            patterns=[z3.Select(s["list.arr"], o), z3.Select(s["list.len"], o)]),
        "C08,C15|nothing-added-or-one-appended-with-these-fields": z3.Or(
            z3.And(n == n0, arr == arr0),
            z3.And(n == n0 + 1, z3.ForAll([k], z3.Implies(z3.And(k >= 0, k < n0), z3.Select(arr, k) == z3.Select(arr0, k)),
                                          patterns=[z3.Select(arr, k)]),
                   new >= s0["ghost.alloc"], new < s["ghost.alloc"], s.sel("CallbackSpec.func", new) == func,
                   s.sel("CallbackSpec.group", new) == grp, *[s.sel("CallbackSpec." + fn, new) == fv for fn, fv in fields.items()])),
        "C02,C08,C15|appended-iff-no-equal-spec-was-there": (n == n0) == dup,
        "only-the-own-convention-set-is-written": z3.ForAll([o], z3.Implies(
            o != s0.sel("CallbackSpecList.conventional_specs", specs), z3.Select(s["set.has"], o) == z3.Select(s0["set.has"], o)),
            patterns=[z3.Select(s["set.has"], o)]),
    }
    if "is_convention" in fields:
        # the set of convention names is what Listeners.resolve intersects with a provider's attributes: a convention spec
        # that is not in it is never resolved
        conv = s0.sel("CallbackSpecList.conventional_specs", specs)
        x = z3.Const("x!apc", Int)
        added = z3.And(n == n0 + 1, fields["is_convention"])
        f["C02|convention-set-gains-exactly-the-name-of-an-appended-convention-spec"] = z3.ForAll([x], z3.Select(
            z3.Select(s["set.has"], conv), x) == z3.Or(z3.Select(z3.Select(s0["set.has"], conv), x), z3.And(added, x == func)))
    return f


def spec_list_wf(s, specs):
    lst = s.sel("CallbackSpecList.items", specs)
    arr, n = spec_items(s, specs)
    k = z3.Const("k!slw", Int)
    return z3.And(valid_obj(s, specs), valid_obj(s, lst), n >= 0, valid_obj(s, s.sel("CallbackSpecList.conventional_specs", specs)),
                  z3.ForAll([k], z3.Implies(z3.And(k >= 0, k < n), valid_obj(s, z3.Select(arr, k)))))


@register
class SpecListAddOne(Contract):
    """CallbackSpecList._add(name, group, **kwargs) (C02, C15): builds the spec with exactly these fields
    and appends it unless a spec with the same func and group is already in the list."""

    qualnames = [CBQ + "CallbackSpecList._add"]
    params = [("self", "CallbackSpecList"), ("func", "Val"), ("group", "CallbackGroup"), ("**kwargs", "dict[str,Val]")]
    returns = "Val"
    modifies = ADD_MODIFIES
    properties = ["C02", "C08", "C15"]  # C08: a guard given as text must BE a guard of the transition (never silently dropped)

    def pre(self, s, a):
        return {"list-wf": spec_list_wf(s, a.self.e), "a-name-not-a-spec": NOT_A_SPEC(a.func.e)}

    def _fields(self, s0, a):
        has, val = s0.sel("dict.has", a.kwargs.e), s0.sel("dict.val", a.kwargs.e)
        g = lambda n: (z3.Select(has, z3.StringVal(n)), z3.Select(val, z3.StringVal(n)))  # noqa: E731
        return {
            "cond": z3.If(g("cond")[0], g("cond")[1], NONE),
            "priority": z3.If(g("priority")[0], g("priority")[1], z3.IntVal(PRIO["NAMING"])),
            "is_convention": z3.If(g("is_convention")[0], truthy(g("is_convention")[1]), False),
            "expected_value": z3.If(g("expected_value")[0], g("expected_value")[1], NONE),
        }

    def post(self, s0, s, a, r):
        return add_post(s0, s, a.self.e, a.group.e, a.func.e, self._fields(s0, a))


NOT_A_SPEC = z3.Function("NOT_A_CALLBACKSPEC", Int, Bool)
from pyvc.core import GLOBAL_AXIOMS  # noqa: E402
_x = z3.Const("x!nas", Str)
GLOBAL_AXIOMS.append(z3.ForAll([_x], NOT_A_SPEC(STR_REF(_x)), patterns=[STR_REF(_x)]))  # a str is not a CallbackSpec
CLASSES["Val"].isinstance_fn = (lambda prev: (lambda path, v, clsname: (
    z3.Not(NOT_A_SPEC(v.e)) if clsname == "CallbackSpec" else prev(path, v, clsname))))(CLASSES["Val"].isinstance_fn)


GrouperAdd.modifies = ADD_MODIFIES
register(GrouperAdd)
TransitionSetup.modifies = ADD_MODIFIES


@register
class SpecListAdd(Contract):
    """CallbackSpecList.add(name, group, **kwargs) for ONE name: what _add does; returns the list."""

    qualnames = [CBQ + "CallbackSpecList.add"]
    params = [("self", "CallbackSpecList"), ("callbacks", "str"), ("group", "CallbackGroup"), ("**kwargs", "dict[str,Val]")]
    returns = "CallbackSpecList"
    modifies = ADD_MODIFIES
    properties = ["C02", "C08", "C15"]

    def pre(self, s, a):
        return {"list-wf": spec_list_wf(s, a.self.e), "a-name-not-a-spec": NOT_A_SPEC(STR_REF(a.callbacks.e))}

    def post(self, s0, s, a, r):
        f = add_post(s0, s, a.self.e, a.group.e, STR_REF(a.callbacks.e), SpecListAddOne._fields(None, s0, a))
        f["returns-self"] = r.e == a.self.e
        return f


@register
class StateSetup(Contract):
    """State._setup (C02): registers on_enter_state / on_enter_<id> in the enter group and
    on_exit_state / on_exit_<id> in the exit group, unconditioned convention callbacks."""

    qualnames = [STQ + "State._setup"]
    params = [("self", "State")]
    returns = "None"
    modifies = ADD_MODIFIES
    properties = ["C02"]

    def pre(self, s, a):
        st = a.self.e
        specs = s.sel("State._specs", st)
        f = {"spec-list-wf": spec_list_wf(s, specs)}
        for attr, gname in (("enter", "ENTER"), ("exit", "EXIT")):
            g = s.sel("State." + attr, st)
            f[f"{attr}-grouper"] = z3.And(valid_obj(s, g), s.sel("SpecListGrouper.list", g) == specs, s.sel("SpecListGrouper.group", g) == G(gname))
        return f

    def post(self, s0, s, a, r):
        st = a.self.e
        specs = s0.sel("State._specs", st)
        arr, n = spec_items(s, specs)
        n0 = spec_items(s0, specs)[1]
        k = z3.Const("k!ss", Int)
        sp = z3.Select(arr, k)
        func, grp = s.sel("CallbackSpec.func", sp), s.sel("CallbackSpec.group", sp)
        sid = s0.sel("State._id", st)
        ok = z3.Or(
            z3.And(func == STR_REF(z3.StringVal("on_enter_state")), grp == G("ENTER")),
            z3.And(func == STR_REF(fmt1("on_enter_|{}")(sid)), grp == G("ENTER")),
            z3.And(func == STR_REF(z3.StringVal("on_exit_state")), grp == G("EXIT")),
            z3.And(func == STR_REF(fmt1("on_exit_|{}")(sid)), grp == G("EXIT")))
        return {"C02|only-this-states-enter-and-exit-conventions-are-added": z3.ForAll([k], z3.Implies(
            z3.And(k >= n0, k < n), z3.And(ok, s.sel("CallbackSpec.is_convention", sp), s.sel("CallbackSpec.cond", sp) == NONE)),
            patterns=[z3.Select(arr, k)])}


# =========================================================================== TransitionList.add_transitions
TLQ = "statemachine.transition_list:TransitionList."
CLASSES["Transition"].isinstance_of = lambda other: other == "Transition"
CLASSES["TransitionList"].isinstance_of = lambda other: other == "TransitionList"
GLOBAL_NAMES["Transition"] = Py(("class", "Transition"))
GLOBAL_NAMES["TransitionList"] = Py(("class", "TransitionList"))
CLASSES["TransitionList"].methods["add_transitions"] = C(TLQ + "add_transitions#one")


def tlist(s, tl):
    lst = s.sel("TransitionList.transitions", tl)
    return s.sel("list.arr", lst), s.sel("list.len", lst), lst


def tl_valid(s, tl):
    arr, n, lst = tlist(s, tl)
    return z3.And(valid_obj(s, tl), valid_obj(s, lst), n >= 0)


def appended(s0, s, tl, items):
    """tl.transitions' = tl.transitions ++ items (a python list of refs); every other list untouched."""
    arr0, n0, lst = tlist(s0, tl)
    arr, n, _ = tlist(s, tl)
    k, o = z3.Const("k!apd", Int), z3.Const("o!apd", Int)
    return z3.And(
        n == n0 + len(items),
        z3.ForAll([k], z3.Implies(z3.And(k >= 0, k < n0), z3.Select(arr, k) == z3.Select(arr0, k)), patterns=[z3.Select(arr, k)]),
        *[z3.Select(arr, n0 + i) == it for i, it in enumerate(items)],
        z3.ForAll([o], z3.Implies(o != lst, z3.And(z3.Select(s["list.arr"], o) == z3.Select(s0["list.arr"], o),
                                                   z3.Select(s["list.len"], o) == z3.Select(s0["list.len"], o))),
                  patterns=[z3.Select(s["list.arr"], o), z3.Select(s["list.len"], o)]))


@register
class AddTransitionsOne(Contract):
    """TransitionList.add_transitions(<one Transition>) (C15): appended at the end, order kept."""

    qualnames = [TLQ + "add_transitions#one"]
    params = [("self", "TransitionList"), ("transition", "Transition")]
    returns = "TransitionList"
    raises = False
    modifies = ["list.arr", "list.len"]
    properties = ["C15"]

    def pre(self, s, a):
        return {"list-valid": tl_valid(s, a.self.e)}

    def post(self, s0, s, a, r):
        return {"C15|appended-in-order": appended(s0, s, a.self.e, [a.transition.e]), "returns-self": r.e == a.self.e}


@register
class AddTransitionsList(Contract):
    """TransitionList.add_transitions(<TransitionList>) (C15): the operand's transitions are appended in
    order; the operand itself is untouched."""

    qualnames = [TLQ + "add_transitions#list"]
    params = [("self", "TransitionList"), ("transition", "TransitionList")]
    returns = "TransitionList"
    raises = False
    modifies = ["list.arr", "list.len"]
    properties = ["C15"]

    def pre(self, s, a):
        return {"lists-valid": z3.And(tl_valid(s, a.self.e), tl_valid(s, a.transition.e),
                                      s.sel("TransitionList.transitions", a.self.e) != s.sel("TransitionList.transitions", a.transition.e))}

    def _facts(self, s0, s, a, upto):
        arr0, n0, lst = tlist(s0, a.self.e)
        arr, n, _ = tlist(s, a.self.e)
        oa, on, olst = tlist(s0, a.transition.e)
        k, o = z3.Const("k!atl", Int), z3.Const("o!atl", Int)
        return z3.And(
            n == n0 + upto,
            z3.ForAll([k], z3.Implies(z3.And(k >= 0, k < n0), z3.Select(arr, k) == z3.Select(arr0, k)), patterns=[z3.Select(arr, k)]),
            z3.ForAll([k], z3.Implies(z3.And(k >= n0, k < n0 + upto), z3.Select(arr, k) == z3.Select(oa, k - n0)), patterns=[z3.Select(arr, k)]),
            z3.ForAll([o], z3.Implies(o != lst, z3.And(z3.Select(s["list.arr"], o) == z3.Select(s0["list.arr"], o),
                                                       z3.Select(s["list.len"], o) == z3.Select(s0["list.len"], o))),
                      patterns=[z3.Select(s["list.arr"], o), z3.Select(s["list.len"], o)]))

    def post(self, s0, s, a, r):
        return {"C15|operand-appended-in-order-operand-untouched": self._facts(s0, s, a, tlist(s0, a.transition.e)[1]),
                "returns-self": r.e == a.self.e}

    def _inv(self, s0, s, a, l):
        return {"C15|appended-so-far": self._facts(s0, s, a, l.i)}

    @property
    def loops(self):
        return {0: LoopSpec(self._inv)}


# =========================================================================== AnyState._on_event_defined
CLASSES["Transition"].methods["_copy_with_args"] = C(TRQ + "_copy_with_args")
CLASSES["State"].props["final"] = INL(STQ + "State.final")


@register
class AnyOnEventDefined(Contract):
    """AnyState._on_event_defined(event, transition, states) (C09, C15): `from_.any()` means one copy
    of the transition from EVERY non-final state of the list, and none from a final state."""

    qualnames = [STQ + "AnyState._on_event_defined"]
    params = [("self", "State"), ("event", "Val"), ("transition", "Transition"), ("states", "list[State]")]
    returns = "None"
    modifies = None  # set below
    properties = ["C01", "C09", "C15"]  # C01: "the declared machine" includes what from_.any() declares

    def pre(self, s, a):
        arr, n = s.sel("list.arr", a.states.e), s.sel("list.len", a.states.e)
        k, k2 = z3.Const("k!aop", Int), z3.Const("k2!aop", Int)
        st = z3.Select(arr, k)
        tl = s.sel("State.transitions", st)
        tl2 = s.sel("State.transitions", z3.Select(arr, k2))
        t_ = a.transition.e
        arr_, n_ = spec_items(s, s.sel("Transition._specs", t_))
        k1, k2 = z3.Const("k1!aop", Int), z3.Const("k2!aop", Int)
        return {"transition-spec-list-wf": spec_list_wf(s, s.sel("Transition._specs", t_)),
                # Transition(AnyState(), target, internal=True) is rejected by the constructor, so an `any` transition is external
                "any-transitions-are-external": z3.Not(s.sel("Transition.internal", t_)),
                "transition-spec-list-has-no-two-equal-specs": z3.ForAll([k1, k2], z3.Implies(z3.And(0 <= k1, k1 < k2, k2 < n_), z3.Not(z3.And(
                    s.sel("CallbackSpec.func", z3.Select(arr_, k1)) == s.sel("CallbackSpec.func", z3.Select(arr_, k2)),
                    s.sel("CallbackSpec.group", z3.Select(arr_, k1)) == s.sel("CallbackSpec.group", z3.Select(arr_, k2)))))),
                "states-valid-with-their-own-transition-lists": z3.And(
            n >= 0, valid_obj(s, a.states.e),
            z3.ForAll([k], z3.Implies(z3.And(k >= 0, k < n), z3.And(
                valid_obj(s, st), tl_valid(s, tl), s.sel("TransitionList.transitions", tl) != a.states.e,
                s.sel("TransitionList.transitions", tl) != s.sel("CallbackSpecList.items", s.sel("Transition._specs", a.transition.e))))),
            z3.ForAll([k, k2], z3.Implies(z3.And(0 <= k, k < k2, k2 < n), z3.And(
                z3.Select(arr, k) != z3.Select(arr, k2),
                s.sel("TransitionList.transitions", tl) != s.sel("TransitionList.transitions", tl2)))))}

    def _done(self, s0, s, a, upto):
        arr, n = s0.sel("list.arr", a.states.e), s0.sel("list.len", a.states.e)
        k, j = z3.Const("k!aod", Int), z3.Const("j!aod", Int)
        st = z3.Select(arr, k)
        ta0, tn0, lst = tlist(s0, s0.sel("State.transitions", st))
        ta = z3.Select(s["list.arr"], lst)
        tn = z3.Select(s["list.len"], lst)
        new = z3.Select(ta, tn0)
        final = s0.sel("State._final", st)
        inr = z3.And(k >= 0, k < n)
        return {
            "existing-transitions-kept": z3.ForAll([k, j], z3.Implies(z3.And(inr, j >= 0, j < tn0), z3.Select(ta, j) == z3.Select(ta0, j))),
            "C01,C09,C15|final-states-and-states-not-reached-yet-get-nothing": z3.ForAll([k], z3.Implies(
                z3.And(inr, z3.Or(final, k >= upto)), tn == tn0), patterns=[z3.Select(arr, k)]),
            "C01,C09,C15|every-non-final-state-gets-exactly-one-copy-from-itself": z3.ForAll([k], z3.Implies(
                z3.And(inr, z3.Not(final), k < upto), z3.And(
                    tn == tn0 + 1, new >= s0["ghost.alloc"], new < s["ghost.alloc"], s.sel("Transition.source", new) == st,
                    s.sel("Transition.target", new) == s0.sel("Transition.target", a.transition.e))), patterns=[z3.Select(arr, k)]),
            "states-list-untouched": z3.And(s.sel("list.len", a.states.e) == n, s.sel("list.arr", a.states.e) == arr),
            "the-transitions-own-spec-list-untouched": z3.And(
                s.sel("list.arr", s0.sel("CallbackSpecList.items", s0.sel("Transition._specs", a.transition.e)))
                == spec_items(s0, s0.sel("Transition._specs", a.transition.e))[0],
                s.sel("list.len", s0.sel("CallbackSpecList.items", s0.sel("Transition._specs", a.transition.e)))
                == spec_items(s0, s0.sel("Transition._specs", a.transition.e))[1],
                spec_list_wf(s, s0.sel("Transition._specs", a.transition.e))),
            "pre-existing-transitions-untouched": z3.And(*[
                z3.ForAll([k], z3.Implies(z3.And(k >= 0, k < s0["ghost.alloc"]),
                                          z3.Select(s["Transition." + f], k) == z3.Select(s0["Transition." + f], k)),
                          patterns=[z3.Select(s["Transition." + f], k)])
                for f in ("source", "target", "internal", "_events", "_specs", "validators", "before", "on", "after", "cond")]),
        }

    def post(self, s0, s, a, r):
        return self._done(s0, s, a, s0.sel("list.len", a.states.e))

    def _inv(self, s0, s, a, l):
        return self._done(s0, s, a, l.i)

    @property
    def loops(self):
        return {0: LoopSpec(self._inv)}


# =========================================================================== Transition.__init__ / _copy_with_args
@register
class GrouperAddAny(Contract):
    """SpecListGrouper.add(callbacks, **kwargs) for an arbitrary `callbacks` value (None, a name, a
    callable or a list of those): None adds nothing; otherwise only specs of THIS group, carrying the
    given expected_value, are appended (ASSUMED for non-None values other than one name)."""

    qualnames = [CBQ + "SpecListGrouper.add#any"]
    params = [("self", "SpecListGrouper"), ("callbacks", "Val"), ("**kwargs", "dict[str,Val]")]
    returns = "SpecListGrouper"
    modifies = ADD_MODIFIES
    trusted = True

    def post(self, s0, s, a, r):
        me = a.self.e
        specs = s0.sel("SpecListGrouper.list", me)
        grp = s0.sel("SpecListGrouper.group", me)
        lst = s0.sel("CallbackSpecList.items", specs)
        arr0, n0 = spec_items(s0, specs)
        arr, n = spec_items(s, specs)
        k, o = z3.Const("k!gaa", Int), z3.Const("o!gaa", Int)
        sp = z3.Select(arr, k)
        ev = z3.Select(s0.sel("dict.val", a.kwargs.e), z3.StringVal("expected_value"))
        has_ev = z3.Select(s0.sel("dict.has", a.kwargs.e), z3.StringVal("expected_value"))
        return {
            "returns-self": r.e == me,
            "none-adds-nothing": z3.Implies(a.callbacks.e == NONE, z3.And(n == n0, arr == arr0)),
            "prefix-kept": z3.And(n >= n0, z3.ForAll([k], z3.Implies(z3.And(k >= 0, k < n0), z3.Select(arr, k) == z3.Select(arr0, k)),
                                                     patterns=[z3.Select(arr, k)])),
            "added-specs-are-of-this-group-with-the-given-expected-value": z3.ForAll([k], z3.Implies(z3.And(k >= n0, k < n), z3.And(
                sp >= s0["ghost.alloc"], sp < s["ghost.alloc"], s.sel("CallbackSpec.group", sp) == grp,
                s.sel("CallbackSpec.expected_value", sp) == z3.If(has_ev, ev, NONE))), patterns=[z3.Select(arr, k)]),
            "other-lists-untouched": z3.ForAll([o], z3.Implies(o != lst, z3.And(
                z3.Select(s["list.arr"], o) == z3.Select(s0["list.arr"], o), z3.Select(s["list.len"], o) == z3.Select(s0["list.len"], o))),
                patterns=[z3.Select(s["list.arr"], o), z3.Select(s["list.len"], o)]),
        }

    def assumptions(self):
        return ["SpecListGrouper.add with a non-name argument (callable / list): assumed to append only specs of its own group"]

    def derived(self, s0, s, a, r):
        o = z3.Const("o!gaas", Int)
        specs = s0.sel("SpecListGrouper.list", a.self.e)
        return {"only-the-own-convention-set-is-written": z3.ForAll([o], z3.Implies(
            o != s0.sel("CallbackSpecList.conventional_specs", specs), z3.Select(s["set.has"], o) == z3.Select(s0["set.has"], o)),
            patterns=[z3.Select(s["set.has"], o)])}


@model
def grouper_add_dispatch(ex, path, recv, ca, node):
    """One real method, two contracts: a single name uses the proved GrouperAdd, anything else GrouperAddAny."""
    q = CBQ + ("SpecListGrouper.add" if (ca.pos and isinstance(ca.pos[0], S)) else "SpecListGrouper.add#any")
    return ex.apply_contract(path, CONTRACTS[q], recv, ca, "SpecListGrouper.add", node)


CLASSES["SpecListGrouper"].methods["add"] = grouper_add_dispatch


GKEY = z3.Function("GROUPER_KEY", Int, Int, Str)  # build_key: the registry key of (spec list, group)


def fresh_keys_unregistered(s0, s, specs, groups):
    """ASSUMED (id() of a live object is unique): the registry keys of a spec list created by THIS call are keys of
    no registered executor - every registered key was built from a list that was alive before the call."""
    from .model import reg_has
    return z3.Implies(specs >= s0["ghost.alloc"], z3.And(*[z3.Not(reg_has(s, GKEY(specs, G(g)))) for g in groups]))


@model
def speclist_grouper(ex, path, recv, ca, node):
    """CallbackSpecList.grouper(group) — ASSUMED: the (cached) grouper of this list for that group."""
    g = path.alloc("SpecListGrouper", "grouper")
    path.store("SpecListGrouper.list", g.e, recv.e)
    path.store("SpecListGrouper.group", g.e, ref_of(ca.pos[0]))
    # SpecListGrouper.__init__: `self.key = group.build_key(list)` = f"{group.name}@{id(list)}", a function of the pair
    path.store("SpecListGrouper.key", g.e, GKEY(recv.e, ref_of(ca.pos[0])))
    return [(path, g)]


CLASSES["CallbackSpecList"].methods["grouper"] = speclist_grouper


def speclist_ctor(ex, path, ca, node):
    """CallbackSpecList() — ASSUMED constructor: an empty list of specs."""
    sl = path.alloc("CallbackSpecList", "speclist")
    items = ex.new_list(path, [])
    path.store("CallbackSpecList.items", sl.e, items.e)
    cs = path.alloc("set[Val]", "convspecs")
    path.store("set.has", cs.e, z3.K(Int, False))
    path.store("CallbackSpecList.conventional_specs", sl.e, cs.e)
    return [(path, sl)]


CLASSES["CallbackSpecList"].ctor = speclist_ctor
GLOBAL_NAMES["CallbackSpecList"] = Py(("class", "CallbackSpecList"))


EV_ARR = z3.Function("EVENTS_GIVEN_ARR", Int, z3.ArraySort(Int, Int))  # the events an `event=` argument stands for, in order
EV_N = z3.Function("EVENTS_GIVEN_N", Int, Int)


def events_ctor(ex, path, ca, node):
    ev = path.alloc("Events", "events")
    path.store("Events._items", ev.e, ex.new_list(path, []).e)
    return [(path, ev)]


@model
def events_add_any(ex, path, recv, ca, node):
    """Events.add(events) — ASSUMED here (C15 builders): the ids of the given events, in order, without
    duplicates; None adds nothing."""
    v = ca.pos[0]
    if not isinstance(v, NoneV):
        # what is added is a function of the argument (a name, a space-separated string, an Event, a list of those)
        lst = path.sel("Events._items", recv.e)
        path.store("list.arr", lst, EV_ARR(ref_of(v)))
        path.assume(EV_N(ref_of(v)) >= 0)
        path.store("list.len", lst, z3.If(ref_of(v) == NONE, 0, EV_N(ref_of(v))))
    return [(path, recv)]


CLASSES["Events"].ctor = events_ctor
CLASSES["Events"].methods["add"] = events_add_any
GLOBAL_NAMES["Events"] = Py(("class", "Events"))


@register
class TransitionInit(Contract):
    """Transition.__init__ (C09, C15): an internal transition must be a self-transition, otherwise
    InvalidDefinition; source/target/internal stored as given; the five groupers are groupers of the
    transition's own spec list for the right groups; cond entries expect True, unless entries False."""

    qualnames = [TRQ + "__init__"]
    params = [("self", "Transition"), ("source", "Opt[State]"), ("target", "State"), ("event", "Val"), ("internal", "bool"),
              ("validators", "Val"), ("cond", "Val"), ("unless", "Val"), ("on", "Val"), ("before", "Val"), ("after", "Val")]
    returns = "None"
    raises = True
    exc_classes = ["InvalidDefinition"]
    modifies = ADD_MODIFIES + ["Transition.source", "Transition.target", "Transition.internal", "Transition._events", "Transition._specs",
                               "Transition.validators", "Transition.before", "Transition.on", "Transition.after", "Transition.cond",
                               "SpecListGrouper.list+", "SpecListGrouper.group+", "SpecListGrouper.key+", "CallbackSpecList.items+",
                               "CallbackSpecList.conventional_specs+", "Events._items+"]
    properties = ["C09", "C15"]

    def post(self, s0, s, a, r):
        from pyvc.core import TRUE_OBJ, FALSE_OBJ
        t = a.self.e
        specs = s.sel("Transition._specs", t)
        arr, n = spec_items(s, specs)
        k = z3.Const("k!ti", Int)
        sp = z3.Select(arr, k)
        gs = {"validators": "VALIDATOR", "before": "BEFORE", "on": "ON", "after": "AFTER", "cond": "COND"}
        f = {
            "C09|accepted-only-if-internal-implies-self-transition": z3.Implies(a.internal.e, a.source.e == a.target.e),
            "pre-existing-lists-untouched": z3.ForAll([z3.Const("o!til", Int)], z3.Implies(
                z3.And(z3.Const("o!til", Int) >= 0, z3.Const("o!til", Int) < s0["ghost.alloc"]), z3.And(
                    z3.Select(s["list.arr"], z3.Const("o!til", Int)) == z3.Select(s0["list.arr"], z3.Const("o!til", Int)),
                    z3.Select(s["list.len"], z3.Const("o!til", Int)) == z3.Select(s0["list.len"], z3.Const("o!til", Int)))),
                patterns=[z3.Select(s["list.arr"], z3.Const("o!til", Int)), z3.Select(s["list.len"], z3.Const("o!til", Int))]),
            "C15|no-callbacks-given-means-an-empty-spec-list": z3.Implies(
                z3.And(*[getattr(a, nm).e == NONE for nm in ("validators", "cond", "unless", "on", "before", "after")]), n == 0),
            "C15|own-spec-list-is-fresh-and-well-formed": z3.And(
                specs >= s0["ghost.alloc"], s.sel("CallbackSpecList.items", specs) >= s0["ghost.alloc"],
                s.sel("CallbackSpecList.conventional_specs", specs) >= s0["ghost.alloc"], spec_list_wf(s, specs)),
            "pre-existing-sets-untouched": z3.ForAll([z3.Const("o!tis", Int)], z3.Implies(
                z3.And(z3.Const("o!tis", Int) >= 0, z3.Const("o!tis", Int) < s0["ghost.alloc"]),
                z3.Select(s["set.has"], z3.Const("o!tis", Int)) == z3.Select(s0["set.has"], z3.Const("o!tis", Int))),
                patterns=[z3.Select(s["set.has"], z3.Const("o!tis", Int))]),
            "C15|bound-to-exactly-the-events-given": z3.And(
                s.sel("Transition._events", t) >= s0["ghost.alloc"], s.sel("Events._items", s.sel("Transition._events", t)) >= s0["ghost.alloc"],
                s.sel("list.len", s.sel("Events._items", s.sel("Transition._events", t))) == z3.If(a.event.e == NONE, 0, EV_N(a.event.e)),
                z3.Implies(a.event.e != NONE, s.sel("list.arr", s.sel("Events._items", s.sel("Transition._events", t))) == EV_ARR(a.event.e))),
            "C15|source-target-internal-stored": z3.And(s.sel("Transition.source", t) == a.source.e,
                                                        s.sel("Transition.target", t) == a.target.e, s.sel("Transition.internal", t) == a.internal.e),
            "C08,C15|guards-expect-True-for-cond-and-False-for-unless": z3.ForAll([k], z3.Implies(
                z3.And(k >= 0, k < n, s.sel("CallbackSpec.group", sp) == G("COND")),
                z3.Or(s.sel("CallbackSpec.expected_value", sp) == TRUE_OBJ, s.sel("CallbackSpec.expected_value", sp) == FALSE_OBJ))),
        }
        o = z3.Const("o!tio", Int)
        f["only-this-transitions-fields-are-written"] = z3.And(*[
            z3.ForAll([o], z3.Implies(o != t, z3.Select(s["Transition." + fld], o) == z3.Select(s0["Transition." + fld], o)),
                      patterns=[z3.Select(s["Transition." + fld], o)])
            for fld in ("source", "target", "internal", "_events", "_specs", "validators", "before", "on", "after", "cond")])
        for attr, gname in gs.items():
            g = s.sel("Transition." + attr, t)
            f[f"C15|{attr}-is-the-{gname}-grouper-of-the-own-spec-list"] = z3.And(
                s.sel("SpecListGrouper.list", g) == specs, s.sel("SpecListGrouper.group", g) == G(gname), g >= s0["ghost.alloc"],
                g < s["ghost.alloc"], s.sel("SpecListGrouper.key", g) == GKEY(specs, G(gname)))
        return f

    def derived(self, s0, s, a, r):
        return {"assumed|keys-of-the-new-spec-list-are-registered-nowhere": fresh_keys_unregistered(
            s0, s, s.sel("Transition._specs", a.self.e), ("VALIDATOR", "BEFORE", "ON", "AFTER", "COND"))}

    def assumptions(self):
        return ["id() uniqueness: registry keys built from a spec list created by Transition.__init__ collide with no registered key"]

    def exc_post(self, s0, s, a, x):
        return {"C09|rejected-only-if-internal-and-not-a-self-transition": z3.And(a.internal.e, a.source.e != a.target.e)}


# =========================================================================== State.__init__ / CallbackSpecList.clear
def tl_ctor(ex, path, ca, node):
    """TransitionList() - ASSUMED constructor without arguments: an empty list of transitions."""
    if ca.pos or ca.kw:
        raise Unsupported("TransitionList(<transitions>)")
    tl = path.alloc("TransitionList", "tlist")
    path.store("TransitionList.transitions", tl.e, ex.new_list(path, []).e)
    return [(path, tl)]


CLASSES["TransitionList"].ctor = tl_ctor


@register
class StateInit(Contract):
    """State.__init__ (C02, C11, C15): the fields are stored as given; the state gets an empty transition
    list and its own fresh spec list whose ENTER / EXIT groupers are `enter` / `exit`; no callbacks given
    means an empty spec list."""

    qualnames = [STQ + "State.__init__"]
    params = [("self", "State"), ("name", "str"), ("value", "Val"), ("initial", "bool"), ("final", "bool"), ("enter", "Val"), ("exit", "Val")]
    returns = "None"
    modifies = ADD_MODIFIES + ["State.name", "State.value", "State._initial", "State._final", "State._id", "State.transitions",
                               "State._specs", "State.enter", "State.exit", "SpecListGrouper.list+", "SpecListGrouper.group+",
                               "SpecListGrouper.key+", "CallbackSpecList.items+", "CallbackSpecList.conventional_specs+",
                               "TransitionList.transitions+"]
    properties = ["C02", "C11", "C15"]

    def post(self, s0, s, a, r):
        st = a.self.e
        al0 = s0["ghost.alloc"]
        specs = s.sel("State._specs", st)
        arr, n = spec_items(s, specs)
        tl = s.sel("State.transitions", st)
        o = z3.Const("o!sti", Int)
        f = {
            "C15|fields-stored-as-given": z3.And(
                s.sel("State.name", st) == a.name.e, s.sel("State.value", st) == a.value.e,
                s.sel("State._initial", st) == a.initial.e, s.sel("State._final", st) == a.final.e),
            "C15|own-empty-transition-list": z3.And(tl >= al0, tl < s["ghost.alloc"], s.sel("TransitionList.transitions", tl) >= al0,
                                                    s.sel("list.len", s.sel("TransitionList.transitions", tl)) == 0),
            "C15|own-spec-list-is-fresh-and-well-formed": z3.And(
                specs >= al0, s.sel("CallbackSpecList.items", specs) >= al0,
                s.sel("CallbackSpecList.conventional_specs", specs) >= al0, spec_list_wf(s, specs)),
            "C15|no-callbacks-given-means-an-empty-spec-list": z3.Implies(z3.And(a.enter.e == NONE, a.exit.e == NONE), n == 0),
            "pre-existing-lists-and-sets-untouched": z3.ForAll([o], z3.Implies(z3.And(o >= 0, o < al0), z3.And(
                z3.Select(s["list.arr"], o) == z3.Select(s0["list.arr"], o), z3.Select(s["list.len"], o) == z3.Select(s0["list.len"], o),
                z3.Select(s["set.has"], o) == z3.Select(s0["set.has"], o))),
                patterns=[z3.Select(s["list.arr"], o), z3.Select(s["list.len"], o), z3.Select(s["set.has"], o)]),
            "only-this-states-fields-are-written": z3.And(*[
                z3.ForAll([o], z3.Implies(o != st, z3.Select(s["State." + fld], o) == z3.Select(s0["State." + fld], o)),
                          patterns=[z3.Select(s["State." + fld], o)])
                for fld in ("name", "value", "_initial", "_final", "_id", "transitions", "_specs", "enter", "exit")]),
        }
        for attr, gname in (("enter", "ENTER"), ("exit", "EXIT")):
            g = s.sel("State." + attr, st)
            f[f"C02,C15|{attr}-is-the-{gname}-grouper-of-the-own-spec-list"] = z3.And(
                s.sel("SpecListGrouper.list", g) == specs, s.sel("SpecListGrouper.group", g) == G(gname), g >= al0, g < s["ghost.alloc"],
                s.sel("SpecListGrouper.key", g) == GKEY(specs, G(gname)))
        return f

    def derived(self, s0, s, a, r):
        return {"assumed|keys-of-the-new-spec-list-are-registered-nowhere": fresh_keys_unregistered(
            s0, s, s.sel("State._specs", a.self.e), ("ENTER", "EXIT"))}

    def assumptions(self):
        return ["id() uniqueness: registry keys built from a spec list created by State.__init__ collide with no registered key"]


StateInit.defaults = {"name": S(z3.StringVal("")), "value": NoneV(), "initial": B(z3.BoolVal(False)), "final": B(z3.BoolVal(False)),
                      "enter": NoneV(), "exit": NoneV()}


@register
class SpecListClear(Contract):
    """CallbackSpecList.clear(): the list holds no spec afterwards; no other list is touched."""

    qualnames = [CBQ + "CallbackSpecList.clear"]
    params = [("self", "CallbackSpecList")]
    returns = "None"
    modifies = ["CallbackSpecList.items", "list.arr+", "list.len+"]
    properties = ["C02", "C11"]

    def post(self, s0, s, a, r):
        me = a.self.e
        o = z3.Const("o!slc", Int)
        arr, n = spec_items(s, me)
        return {
            "C02,C11|no-spec-left": z3.And(n == 0, valid_obj(s, s.sel("CallbackSpecList.items", me))),
            "only-this-lists-items-replaced": z3.ForAll([o], z3.Implies(
                o != me, z3.Select(s["CallbackSpecList.items"], o) == z3.Select(s0["CallbackSpecList.items"], o)),
                patterns=[z3.Select(s["CallbackSpecList.items"], o)]),
        }


CLASSES["CallbackSpecList"].methods["clear"] = C(CBQ + "CallbackSpecList.clear")


# =========================================================================== _copy_with_args (real body)
def ctor_via_contract(clsname, qual):
    def ctor(ex, path, ca, node):
        obj = path.alloc(clsname, clsname.lower())
        outs = ex.apply_contract(path, CONTRACTS[qual], obj, ca, clsname + ".__init__", node)
        return [(p, r if isinstance(r, Raise) else obj) for p, r in outs]
    return ctor


TransitionInit.defaults = {"event": NoneV(), "internal": B(z3.BoolVal(False)), "validators": NoneV(), "cond": NoneV(),
                           "unless": NoneV(), "on": NoneV(), "before": NoneV(), "after": NoneV()}
CLASSES["Transition"].ctor = ctor_via_contract("Transition", TRQ + "__init__")
CLASSES["State"].ctor = ctor_via_contract("State", STQ + "State.__init__")
GLOBAL_NAMES.setdefault("State", Py(("class", "State")))
CLASSES["Transition"].props["event"] = CLASSES["Transition"].props.get("event", C("diagram:transition.event"))


@builtin("deepcopy")
def b_deepcopy(ex, path, ca, node):
    """copy.deepcopy(<CallbackSpec>) — ASSUMED: a fresh spec with the same field values (the fields are
    names, enum members, bound methods and flags, which deepcopy keeps or copies by value)."""
    v = ca.pos[0]
    if not (isinstance(v, O) and v.cls == "CallbackSpec"):
        raise Unsupported("deepcopy of a non-spec")
    c = path.alloc("CallbackSpec", "speccopy")
    for f in ("func", "group", "cond", "priority", "is_convention", "expected_value"):
        path.store("CallbackSpec." + f, c.e, path.sel("CallbackSpec." + f, v.e))
    return [(path, c)]


@register
class SpecListAddSpec(Contract):
    """CallbackSpecList.add(<a CallbackSpec>, group): the spec object itself is appended unless an equal
    one (same func and group) is already there."""

    qualnames = [CBQ + "CallbackSpecList.add#spec"]
    params = [("self", "CallbackSpecList"), ("callbacks", "CallbackSpec"), ("group", "CallbackGroup"), ("**kwargs", "dict[str,Val]")]
    returns = "CallbackSpecList"
    modifies = ["list.arr", "list.len", "set.has"]
    properties = ["C08", "C09", "C15"]

    def pre(self, s, a):
        return {"list-wf": spec_list_wf(s, a.self.e), "spec-valid": valid_obj(s, a.callbacks.e)}

    def post(self, s0, s, a, r):
        specs, sp = a.self.e, a.callbacks.e
        lst = s0.sel("CallbackSpecList.items", specs)
        arr0, n0 = spec_items(s0, specs)
        arr, n = spec_items(s, specs)
        dup = has_equal_spec(s0, specs, s0.sel("CallbackSpec.func", sp), s0.sel("CallbackSpec.group", sp))
        k, o = z3.Const("k!sas", Int), z3.Const("o!sas", Int)
        return {
            "returns-self": r.e == specs,
            "appended-unless-equal-exists": z3.Or(
                z3.And(dup, n == n0, arr == arr0),
                z3.And(z3.Not(dup), n == n0 + 1, z3.Select(arr, n0) == sp,
                       z3.ForAll([k], z3.Implies(z3.And(k >= 0, k < n0), z3.Select(arr, k) == z3.Select(arr0, k)), patterns=[z3.Select(arr, k)]))),
            "other-lists-untouched": z3.ForAll([o], z3.Implies(o != lst, z3.And(
                z3.Select(s["list.arr"], o) == z3.Select(s0["list.arr"], o), z3.Select(s["list.len"], o) == z3.Select(s0["list.len"], o))),
                patterns=[z3.Select(s["list.arr"], o), z3.Select(s["list.len"], o)]),
            "only-the-own-convention-set-is-written": z3.ForAll([o], z3.Implies(
                o != s0.sel("CallbackSpecList.conventional_specs", specs), z3.Select(s["set.has"], o) == z3.Select(s0["set.has"], o)),
                patterns=[z3.Select(s["set.has"], o)]),
        }



@register
class SpecListAddOneSpec(Contract):
    """CallbackSpecList._add(<a CallbackSpec>, group) - the isinstance branch of the real body: the spec object itself
    is appended unless an equal one (same func and group, CallbackSpec.__eq__) is already in the list."""

    qualnames = [CBQ + "CallbackSpecList._add#spec"]
    params = [("self", "CallbackSpecList"), ("func", "CallbackSpec"), ("group", "CallbackGroup"), ("**kwargs", "dict[str,Val]")]
    returns = "Val"
    modifies = ["list.arr", "list.len", "set.has"]
    properties = ["C08", "C09", "C15"]

    def pre(self, s, a):
        return {"list-wf": spec_list_wf(s, a.self.e), "spec-valid": valid_obj(s, a.func.e)}

    def post(self, s0, s, a, r):
        class _A:  # the same clauses as add#spec, minus the returned list
            pass
        b = _A()
        b.self, b.callbacks = a.self, a.func
        f = SpecListAddSpec.post(None, s0, s, b, O(a.self.e, "CallbackSpecList"))
        f.pop("returns-self")
        return f


@model
def speclist_add_dispatch(ex, path, recv, ca, node):
    a0 = ca.pos[0] if ca.pos else None
    q = CBQ + ("CallbackSpecList.add#spec" if isinstance(a0, O) and a0.cls == "CallbackSpec" else "CallbackSpecList.add")
    return ex.apply_contract(path, CONTRACTS[q], recv, ca, "CallbackSpecList.add", node)


CLASSES["CallbackSpecList"].methods["add"] = speclist_add_dispatch


@model
def speclist_add_one_dispatch(ex, path, recv, ca, node):
    a0 = ca.pos[0] if ca.pos else None
    q = CBQ + ("CallbackSpecList._add#spec" if isinstance(a0, O) and a0.cls == "CallbackSpec" else "CallbackSpecList._add")
    return ex.apply_contract(path, CONTRACTS[q], recv, ca, "CallbackSpecList._add", node)


CLASSES["CallbackSpecList"].methods["_add"] = speclist_add_one_dispatch
CONTRACTS.pop(TRQ + "_copy_with_args", None)


def old_untouched(s0, s):
    o = z3.Const("o!ou", Int)
    al0 = s0["ghost.alloc"]
    keys = ["list.arr", "list.len", "set.has"] + ["Transition." + f for f in (
        "source", "target", "internal", "_events", "_specs", "validators", "before", "on", "after", "cond")]
    return z3.And(*[z3.ForAll([o], z3.Implies(z3.And(o >= 0, o < al0), z3.Select(s[k], o) == z3.Select(s0[k], o)),
                              patterns=[z3.Select(s[k], o)]) for k in keys])


@register
class CopyWithArgsReal(Contract):
    """Transition._copy_with_args(source=..., event=...) (C08, C09, C15): a fresh transition with the
    given source, the same target and `internal`, whose spec list holds, position by position, copies of
    this transition's specs with the SAME func, group, cond, priority, is_convention and expected_value
    (so an `unless` guard stays an `unless` guard in the copy that from_.any() makes)."""

    qualnames = [TRQ + "_copy_with_args"]
    params = [("self", "Transition"), ("**kwargs", "dict[str,Val]")]
    returns = "Transition"
    raises = True
    exc_classes = ["InvalidDefinition"]
    modifies = [m for m in TransitionInit.modifies if m not in ("dict.has+", "dict.val+")] + ["dict.has", "dict.val"]
    properties = ["C08", "C09", "C15"]

    def pre(self, s, a):
        t = a.self.e
        has = s.sel("dict.has", a.kwargs.e)
        k = z3.Const("k!cwp", Str)
        allowed = z3.Or(*[k == z3.StringVal(n) for n in ("source", "target", "event", "internal")])
        arr_, n_ = spec_items(s, s.sel("Transition._specs", t))
        k1, k2 = z3.Const("k1!cwp", Int), z3.Const("k2!cwp", Int)
        return {"own-spec-list-wf": spec_list_wf(s, s.sel("Transition._specs", t)),
                # invariant of every spec list (established by _add: appended iff no equal spec was there)
                "own-spec-list-has-no-two-equal-specs": z3.ForAll([k1, k2], z3.Implies(z3.And(0 <= k1, k1 < k2, k2 < n_), z3.Not(z3.And(
                    s.sel("CallbackSpec.func", z3.Select(arr_, k1)) == s.sel("CallbackSpec.func", z3.Select(arr_, k2)),
                    s.sel("CallbackSpec.group", z3.Select(arr_, k1)) == s.sel("CallbackSpec.group", z3.Select(arr_, k2)))))),
                "kwargs-only-override-source-target-event-internal": z3.ForAll([k], z3.Implies(z3.Select(has, k), allowed)),
                "kwargs-valid": valid_obj(s, a.kwargs.e)}

    def _copied(self, s0, s, a, new, upto):
        arr0, n0 = spec_items(s0, s0.sel("Transition._specs", a.self.e))
        arr, n = spec_items(s, s.sel("Transition._specs", new))
        k = z3.Const("k!cwc", Int)
        old, cp = z3.Select(arr0, k), z3.Select(arr, k)
        return {"C08,C15|one-copy-per-spec-so-far": n == upto,
                "C08,C15|copies-carry-every-field": z3.ForAll([k], z3.Implies(z3.And(k >= 0, k < upto), z3.And(
                    cp >= s0["ghost.alloc"], cp < s["ghost.alloc"],
                    *[s.sel("CallbackSpec." + f, cp) == s0.sel("CallbackSpec." + f, old)
                      for f in ("func", "group", "cond", "priority", "is_convention", "expected_value")])), patterns=[z3.Select(arr, k)])}

    def post(self, s0, s, a, r):
        t = a.self.e
        has, val = s0.sel("dict.has", a.kwargs.e), s0.sel("dict.val", a.kwargs.e)
        g = lambda n, d: z3.If(z3.Select(has, z3.StringVal(n)), z3.Select(val, z3.StringVal(n)), d)  # noqa: E731
        n0 = spec_items(s0, s0.sel("Transition._specs", t))[1]
        return {
            "C15|fresh-transition-with-the-requested-source-and-target": z3.And(
                r.e >= s0["ghost.alloc"], r.e < s["ghost.alloc"], s.sel("Transition.source", r) == g("source", s0.sel("Transition.source", t)),
                s.sel("Transition.target", r) == g("target", s0.sel("Transition.target", t))),
            **self._copied(s0, s, a, r.e, n0),
            "pre-existing-lists-sets-and-specs-untouched": old_untouched(s0, s),
        }

    def exc_post(self, s0, s, a, x):
        t = a.self.e
        has, val = s0.sel("dict.has", a.kwargs.e), s0.sel("dict.val", a.kwargs.e)
        g = lambda n, d: z3.If(z3.Select(has, z3.StringVal(n)), z3.Select(val, z3.StringVal(n)), d)  # noqa: E731
        from pyvc.core import boxb
        internal = truthy(g("internal", boxb(s0.sel("Transition.internal", t))))
        return {"C09|rejected-only-if-the-copy-would-be-internal-but-not-a-self-transition": z3.And(
            internal, g("source", s0.sel("Transition.source", t)) != g("target", s0.sel("Transition.target", t)))}

    def _inv(self, s0, s, a, l):
        new = l.new_transition.e
        specs = s.sel("Transition._specs", new)
        return {**self._copied(s0, s, a, new, l.i),
                "new-transition-fresh": z3.And(new >= s0["ghost.alloc"], new < s["ghost.alloc"],
                                               s.sel("CallbackSpecList.items", specs) >= s0["ghost.alloc"],
                                               s.sel("CallbackSpecList.conventional_specs", specs) >= s0["ghost.alloc"]),
                "new-spec-list-wf": spec_list_wf(s, specs),
                "pre-existing-lists-sets-untouched": old_untouched(s0, s),
                "own-specs-untouched": z3.And(
                    s.sel("list.arr", s0.sel("CallbackSpecList.items", s0.sel("Transition._specs", a.self.e)))
                    == spec_items(s0, s0.sel("Transition._specs", a.self.e))[0],
                    s.sel("list.len", s0.sel("CallbackSpecList.items", s0.sel("Transition._specs", a.self.e)))
                    == spec_items(s0, s0.sel("Transition._specs", a.self.e))[1])}

    @property
    def loops(self):
        return {0: LoopSpec(self._inv, modifies=["list.arr", "list.len", "set.has", "CallbackSpec.func+", "CallbackSpec.group+",
                                                 "CallbackSpec.cond+", "CallbackSpec.priority+", "CallbackSpec.is_convention+",
                                                 "CallbackSpec.expected_value+"])}


AnyOnEventDefined.modifies = CopyWithArgsReal.modifies
