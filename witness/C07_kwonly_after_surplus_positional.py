"""C07 witness (#4, region R1): a keyword-only parameter that follows more positional arguments than
there are positional parameters must still receive its same-named keyword.  Exit 1 if it is lost."""
import sys
from statemachine.signature import SignatureAdapter

bad = []


def f(x, *, y=None):
    return x, y


ba = SignatureAdapter.from_callable(f).bind_expected(1, 2, y=3)
if f(*ba.args, **ba.kwargs) != (1, 3):
    bad.append(f"f(x, *, y=None) called with (1, 2, y=3) received {f(*ba.args, **ba.kwargs)!r}, expected (1, 3)")


def g(x, *, y=None, **kw):
    return x, y, kw


ba = SignatureAdapter.from_callable(g).bind_expected(1, 2, y=3, z=4)
if g(*ba.args, **ba.kwargs) != (1, 3, {"z": 4}):
    bad.append(f"g(x, *, y=None, **kw) received {g(*ba.args, **ba.kwargs)!r}, expected (1, 3, {{'z': 4}})")

# the same thing through a machine: an `on` callback declaring a keyword-only parameter
from statemachine import State, StateMachine  # noqa: E402


class M(StateMachine):
    a = State(initial=True)
    b = State(final=True)
    go = a.to(b)

    def on_go(self, first, *, note=None):
        return first, note


if M().go("p1", "p2", note="n") != ("p1", "n"):
    bad.append("machine callback lost its keyword-only argument")
if bad:
    print("C07 VIOLATED:", "; ".join(bad))
    sys.exit(1)
print("ok")
