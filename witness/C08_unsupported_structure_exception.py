"""C08 witness (#9): an expression that parses as Python but uses an unsupported structure or operator
("a + b", "x is None") must be rejected with InvalidDefinition at instantiation; it raised
ValueError / KeyError instead.  Exit 1 while present."""
import sys
import warnings
from statemachine import State, StateMachine
from statemachine.exceptions import InvalidDefinition

warnings.simplefilter("ignore")
bad = []
for expr in ("a_ + b_", "x_ is None", "x_ in y_"):
    class M(StateMachine):
        s1 = State(initial=True)
        s2 = State(final=True)
        go = s1.to(s2, cond=expr)
        a_ = 1
        b_ = 2
        x_ = None
        y_ = ()
    try:
        M()
        bad.append(f"{expr!r}: accepted")
    except InvalidDefinition:
        pass
    except Exception as e:  # noqa: BLE001
        bad.append(f"{expr!r}: raised {type(e).__name__} instead of InvalidDefinition")
if bad:
    print("C08 VIOLATED:", "; ".join(bad))
    sys.exit(1)
print("ok")
