#!/bin/bash
# tools/all_checks.sh [--tier T] : run all 18 registered checks concurrently against /repo; print the exit codes.
cd /verif; out=${ALLCHK_LOGS:-/tmp/allchk}; mkdir -p $out; rm -f $out/summary
for p in C01 C02 C03 C04 C05 C06 C07 C08 C09 C10 C11 C12 C13 C14 C15 C16 C17 C18; do
  ( timeout 7200 ./check $p "$@" > $out/$p.log 2>&1; echo "$p=$?" >> $out/summary ) &
done
wait; sort $out/summary | tr '\n' ' '; echo
grep -l "VIOLATION\|CHECKER-ERROR\|UNDECIDED" $out/*.log 2>/dev/null
