#!/bin/bash
# tools/try_patch.sh <patch.diff> <ID> [<ID>...] : apply a seeded change to /repo, run the checks, undo it.
set -u
patch="$1"; shift
cd /repo || exit 9
if ! git apply --check "$patch" 2>/dev/null; then echo "PATCH DOES NOT APPLY: $patch"; exit 9; fi
git apply "$patch"
trap 'cd /repo && git checkout -- . ' EXIT
for id in "$@"; do
  ( cd /verif && ./check "$id" 2>&1 | grep -v "^WARNING conda" | head -40 ; echo "  -> exit ${PIPESTATUS[0]}" )
done
