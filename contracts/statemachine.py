"""Contracts of statemachine/statemachine.py."""
from __future__ import annotations

import z3

from pyvc.core import B, CLASSES, EXC_CODE, Exc, I, NONE, NoneV, O, S, T, Int, Bool, Str, ref_of, truthy, FIRST_ADDR, Unsupported, wrap
from pyvc.execu import Contract, LoopSpec, register, Raise

from .model import (
    ENV_MODIFIES, SMQ, W, mstate, others_kept, smap_has, smap_val, valid_obj, wf_world, wf_class,
)

# ---- the model object: a record with ONE designated field, named by sm.state_field ----------
# getattr/setattr(model, sm.state_field, ...) are the only reflective accesses to it (assumed
# contract of getattr/setattr, DESIGN 6.4); any other name is outside the subset.


def _require_state_field(ex, path, name, node):
    if not isinstance(name, S):
        raise Unsupported("getattr/setattr(model, <non-str name>)")
    ex.run.oblige(path, "builtin", f"model-attribute-is-state_field@{getattr(node, 'lineno', 0)}",
                  name.e == path.sel("StateMachine.state_field", W.SM))


def model_getattr(ex, path, obj, name, default, node):
    _require_state_field(ex, path, name, node)
    # a missing attribute and a stored None are both "no state" (the default is None)
    return [(path, O(path.sel("Model.state", obj.e), "Val"))]


def model_setattr(ex, path, obj, name, val, node):
    _require_state_field(ex, path, name, node)
    path.store("Model.state", obj.e, ref_of(val))
    return [(path, NoneV())]


CLASSES["Model"].getattr_fn = model_getattr
CLASSES["Model"].setattr_fn = model_setattr


@register
class CurStateValueGet(Contract):
    qualnames = [SMQ + "current_state_value"]
    inline = True


@register
class CurStateValueSet(Contract):
    qualnames = [SMQ + "current_state_value@setter"]
    inline = True


@register
class CurStateSet(Contract):
    qualnames = [SMQ + "current_state@setter"]
    inline = True


@register
class CurState(Contract):
    """current_state getter: the per-instance view of the state mapped from the stored value;
    an unmapped value raises InvalidStateValue (C10)."""

    qualnames = [SMQ + "current_state"]
    params = [("self", "StateMachine")]
    returns = "IState"
    raises = True
    exc_classes = ["InvalidStateValue"]
    modifies = ["idict.has", "idict.val", "IState._state+", "IState._machine+"]
    properties = ["C10"]

    def pre(self, s, a):
        f = dict(wf_world(s))
        f["self-is-machine"] = a.self.e == W.SM
        return f

    def post(self, s0, s, a, r):
        return {
            "mapped": smap_has(s0, mstate(s0)),
            "view-of-mapped-state": z3.And(valid_obj(s, r.e), s.sel("IState._state", r) == smap_val(s0, mstate(s0)),
                                           s.sel("IState._machine", r) == W.SM),
            "only-the-instance-cache-changes": z3.And(
                others_kept("idict.has", s0, s, W.CACHE), others_kept("idict.val", s0, s, W.CACHE)),
        }

    def exc_post(self, s0, s, a, x):
        return {
            "unmapped": z3.Not(smap_has(s0, mstate(s0))),
            "nothing-changes": z3.And(s["idict.has"] == s0["idict.has"], s["idict.val"] == s0["idict.val"]),
        }
